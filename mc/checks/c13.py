"""C13 -- invalid programs are rejected up front; valid ones are never refused.

REJECT side (bounded-exhaustive single-fault mutation): for every simulator, every d <= 3 and
every structurally valid base program of <= depth instructions over the simulator's alphabet
(every class of its _instruction_map), every single-fault mutation at every position is
executed on a *counting subclass* of the simulator (every entry of _instruction_map wrapped).
Oracle, literally the statement: a subclass of PiquassoException is raised, no Result is
produced, and no simulation step has completed at the time of the raise.

REJECT side, family adaptive_param (mc/c13_adaptive.py): every documented parameter violation whose
instruction has a _validate rule, delivered through an OUTCOME-DEPENDENT parameter (callable /
expression string of the earlier outcomes) that is invalid iff the mid-circuit
ParticleNumberMeasurement returned k, for every k, with shots None / 1 / 2, plus the all-valid
control.  Oracle: the invalid value was resolved on a branch => PiquassoException and no Result
("before any evolution" cannot be demanded: the value only exists after the measurement).

ACCEPT side: every instruction of each simulator's docstring "Supported ..." lists (parsed
from __doc__) x every listed connector x d in 1..4 x cutoff in 1..5 as minimal valid
programs, and adaptive programs with shots=None (mid-circuit ParticleNumberMeasurement on
ordered partial mode subsets followed by passive / active / outcome-conditioned gates) whose
single execution walks every measurement-outcome history: no exception at all.
"""

import json
import math

LEVEL = "model_checking"

REJECT_CUTOFF = 3


# =========================================================================================
# executing one case on the real implementation


_COUNTING = {}


def _counting(simname):
    """Subclass of the simulator whose _instruction_map entries are all wrapped by counters."""
    from mc import c13_programs as P

    if simname not in _COUNTING:
        base = P.sim_class(simname)
        counter = {"entered": 0, "completed": 0, "last": None}

        def wrap(fn):
            def step(state, instruction, shots):
                counter["entered"] += 1
                counter["last"] = type(instruction).__name__
                out = fn(state, instruction, shots)
                counter["completed"] += 1
                return out

            return step

        wrapped = {k: wrap(v) for k, v in base._instruction_map.items()}
        if len(wrapped) != len(base._instruction_map):
            from mc import core

            raise core.HarnessError("HARNESS-SELFTEST counting wrapper lost entries of %s._instruction_map" % simname)
        sub = type(base.__name__, (base,), {"_instruction_map": wrapped, "__module__": base.__module__})
        _COUNTING[simname] = (sub, counter)
    return _COUNTING[simname]


def _connector(name):
    import piquasso as pq

    if name in (None, "numpy"):
        return pq.NumpyConnector()
    if name == "tensorflow":
        return pq.TensorflowConnector()
    if name == "jax":
        return pq.JaxConnector()
    raise KeyError(name)


def _build_one(spec, seed):
    from mc import c13_programs as P

    cls = P.universe()[spec["cls"]]
    kw = {k: P.value(v, seed) for k, v in spec.get("kw", {}).items()}
    ins = cls(**kw)
    if spec.get("when") is not None:
        ins = ins.when(spec["when"])
    return ins


def execute_case(case, seed):
    """Run one case.  Returns dict(stage, exc, exc_name, piquasso, message, entered, completed,
    result).  stage: 'construction' (building the instructions / the program raised),
    'execution' (the simulator raised), 'done' (a Result came back)."""
    import warnings

    import piquasso as pq
    from piquasso.api.exceptions import PiquassoException
    from mc import c13_programs as P

    sub, counter = _counting(case["sim"])
    counter["entered"] = counter["completed"] = 0
    counter["last"] = None
    route = case.get("route", "on_modes")
    out = {"stage": None, "exc": None, "exc_name": None, "piquasso": False, "message": "", "result": None}
    del P.ADAPTIVE_LOG[:]

    def fail(stage, e):
        out.update(
            stage=stage, exc=e, exc_name=type(e).__name__, piquasso=isinstance(e, PiquassoException),
            message=str(e)[:300], entered=counter["entered"], completed=counter["completed"], last=counter["last"],
            adaptive_calls=len(P.ADAPTIVE_LOG), adaptive_bad=sum(1 for _, b in P.ADAPTIVE_LOG if b),
        )
        return out

    with warnings.catch_warnings():
        warnings.simplefilter("ignore")
        try:
            if route == "Q":
                with pq.Program() as program:
                    for spec in case["program"]:
                        ins = _build_one(spec, seed)
                        if spec.get("modes") is None:
                            pq.Q() | ins
                        else:
                            pq.Q(*spec["modes"]) | ins
            else:
                instructions = []
                for spec in case["program"]:
                    ins = _build_one(spec, seed)
                    if spec.get("modes") is not None:
                        ins = ins.on_modes(*spec["modes"])
                    instructions.append(ins)
        except Exception as e:  # noqa: BLE001 - the oracle inspects the type
            return fail("construction", e)
        try:
            connector = _connector(case.get("connector"))
            config = pq.Config(cutoff=case["cutoff"], seed_sequence=1234 + int(seed))
            simulator = sub(d=case["d"], config=config, connector=connector)
            init = None
            if case.get("init") is not None:
                st_cls = P.sim_class(case["init"]["state_of"])._state_class
                init = st_cls(d=case["init"]["d"], connector=_connector(None), config=pq.Config(cutoff=case["cutoff"], seed_sequence=99))
            if route == "Q":
                result = simulator.execute(program, shots=case["shots"], initial_state=init)
            else:
                result = simulator.execute_instructions(instructions, initial_state=init, shots=case["shots"])
        except Exception as e:  # noqa: BLE001
            return fail("execution", e)
    out.update(stage="done", result=result, entered=counter["entered"], completed=counter["completed"],
               adaptive_calls=len(P.ADAPTIVE_LOG), adaptive_bad=sum(1 for _, b in P.ADAPTIVE_LOG if b),
               adaptive_seen=sorted({int(x[-1]) for x, _ in P.ADAPTIVE_LOG if len(x) and float(x[-1]).is_integer()}))
    return out


def _reject_verdict(o):
    """None if the rejection is as the statement demands, else the violated sub-property."""
    if o["stage"] == "done":
        return "not_rejected"
    if not o["piquasso"]:
        return "wrong_exception_type"
    if o["completed"] > 0:
        return "late_rejection"
    return None


def _accept_verdict(o):
    if o["stage"] == "done":
        return None
    if o["exc_name"] == "InvalidSimulation" and "No such instruction implemented" in o["message"]:
        return "documented_instruction_refused"
    if o["piquasso"]:
        return "valid_program_refused"
    return "crash"


# =========================================================================================
# reporting (one violation per signature and work item; occurrences are counted)


class _Reporter:
    def __init__(self, ctx):
        self.ctx = ctx
        self.seen = {}

    def report(self, sig, case, message, verdict_fn, expected):
        key = json.dumps(sig, sort_keys=True)
        self.ctx.count("violating_executions")
        if key in self.seen:
            self.seen[key] += 1
            return
        self.seen[key] = 1
        # determinism: the failing case must fail the same way a second time
        again = execute_case(case, self.ctx.seed)
        if verdict_fn(again) != expected:
            from mc import core

            raise core.HarnessError(
                "HARNESS-NONDETERMINISM C13 case %s: first run %s, second run %s" % (json.dumps(case)[:400], expected, verdict_fn(again))
            )
        self.ctx.violation(sig, case, message)


def _describe(o):
    if o["stage"] == "done":
        return "no exception (a Result was returned), %d simulation steps ran" % o["completed"]
    return "%s at %s after %d completed simulation step(s) (%d entered): %s" % (
        o["exc_name"], o["stage"], o["completed"], o["entered"], o["message"][:160].replace("\n", " "),
    )


def _reject_signature(verdict, rule, o, cls=None):
    sig = {"check": "C13", "sub": verdict, "rule": rule}
    if verdict == "not_rejected" and rule.startswith("param:"):
        sig["sub"] = "documented_invalid_accepted"
    if verdict == "wrong_exception_type":
        sig["exc"] = o["exc_name"]
    if cls is not None and verdict != "late_rejection":
        sig["instruction"] = cls
    return sig


def _check_reject(ctx, rep, case):
    o = execute_case(case, ctx.seed)
    ctx.count("traces")
    ctx.count("reject_executions")
    ctx.count("steps_run", o.get("completed", 0))
    ctx.count("rule/" + case["rule"].split(":")[0])
    v = _reject_verdict(o)
    if v is None:
        ctx.count("rejected_at_" + o["stage"])
        ctx.count("rejected_with/" + o["exc_name"])
        if o["entered"] > 0:
            ctx.count("rejected_inside_first_step")
        return o
    cls = case["rule"].split(":", 1)[1].split(".")[0] if case["rule"].startswith("param:") else None
    sig = _reject_signature(v, case["rule"], o, cls)
    msg = "%s d=%d rule=%s route=%s pos=%s: expected a PiquassoException before any evolution, got %s\nprogram=%s shots=%r init=%s" % (
        case["sim"], case["d"], case["rule"], case.get("route"), case.get("pos"), _describe(o),
        [(s["cls"], s["modes"]) for s in case["program"]], case["shots"], case.get("init"),
    )
    rep.report(sig, case, msg, _reject_verdict, v)
    return o


def _accept_signature(verdict, case, o):
    sig = {"check": "C13", "sub": verdict, "simulator": case["sim"]}
    if case.get("instruction"):
        sig["instruction"] = case["instruction"]
    if case.get("after"):
        sig["after"] = case["after"]
    if case.get("stage"):
        sig["stage"] = case["stage"]
    if case.get("connector") not in (None, "numpy"):
        sig["connector"] = case["connector"]
    if verdict != "documented_instruction_refused":
        sig["exc"] = o["exc_name"]
    if verdict == "crash" and case.get("connector") in (None, "numpy"):
        sig["input_class"] = "cutoff<=2" if case["cutoff"] <= 2 else "cutoff>=3"
    if case.get("variant"):
        sig["variant"] = case["variant"]
    if case.get("channel"):
        sig["channel"] = case["channel"]
        if verdict == "valid_program_refused":
            sig["sub"] = "documented_valid_refused"
    return sig


def _check_accept(ctx, rep, case, attribute=False):
    o = execute_case(case, ctx.seed)
    ctx.count("traces")
    ctx.count("accept_executions")
    ctx.count("steps_run", o.get("completed", 0))
    v = _accept_verdict(o)
    if v is None:
        return o
    if case.get("connector") not in (None, "numpy") and o["exc_name"] in ("NotImplementedError", "NotImplementedCalculation"):
        # TensorflowConnector documents "certain instructions", JaxConnector is "experimental": an explicit
        # not-implemented refusal with such a connector is an unsupported cell, not a violation
        ctx.count("connector_unsupported_cells")
        ctx.count("connector_unsupported/%s/%s/%s" % (case["sim"], case["connector"], case.get("instruction")))
        return o
    if attribute:
        # multi-instruction programs: name the instruction at which the run stopped -- the step that was
        # entered and did not complete, else (raised between steps) the next instruction of the program
        if o.get("entered", 0) > o.get("completed", 0) and o.get("last"):
            case = dict(case, instruction=o["last"])
        else:
            k = min(o.get("completed", 0), len(case["program"]) - 1)
            case = dict(case, instruction=case["program"][k]["cls"])
    sig = _accept_signature(v, case, o)
    msg = "%s connector=%s d=%d cutoff=%d documented instruction %s: expected no exception, got %s\nprogram=%s shots=%r" % (
        case["sim"], case.get("connector") or "numpy", case["d"], case["cutoff"], case.get("instruction") or "(after %s)" % case.get("after"), _describe(o),
        [(s["cls"], s["modes"], s.get("when")) for s in case["program"]], case["shots"],
    )
    rep.report(sig, case, msg, _accept_verdict, v)
    return o


# =========================================================================================
# work items


def _tier(ctx):
    if ctx.tier == "quick":
        # small on purpose (<= ~4 CPU-minutes): reject side on d = 2 only with 2 foreign classes per kind
        return {"reject_d": (2,), "foreign_per_kind": 2, "accept_d": 3, "accept_c": 4, "adapt_d": (2, 3), "adapt_c": 3,
                "aparam_d": (2, 3), "aparam_c": (3,)}
    return {"reject_d": (1, 2, 3), "foreign_per_kind": None, "accept_d": 4, "accept_c": 5, "adapt_d": (2, 3, 4), "adapt_c": 5,
            "aparam_d": (1, 2, 3, 4), "aparam_c": (3, 4)}


def _items(ctx):
    from mc import c13_programs as P
    from mc import c13_reject as R

    t = _tier(ctx)
    items = []
    for sim in P.SIMULATORS:
        for d in t["reject_d"]:
            alpha = R.alphabet(sim, d, REJECT_CUTOFF, ctx.seed, ctx.tier)
            body = R.body_alphabet(alpha)
            npref = len(R.prefixes(sim, alpha, d, REJECT_CUTOFF))
            items.append(("reject", sim, d, 0, -1))
            for first in range(len(body)):
                items.append(("reject", sim, d, 0, first))
            for pi in range(1, npref):
                items.append(("reject", sim, d, pi, None))
            if ctx.tier == "thorough" and d >= 2:
                for first in range(len(R.representatives(sim, body))):
                    items.append(("reject3", sim, d, first))
    for d in t["reject_d"]:
        items.append(("construct", d))
    for sim in P.SIMULATORS:
        for d in t["aparam_d"]:
            for c in t["aparam_c"]:
                items.append(("adaptive_param", sim, d, c))
    for sim in P.SIMULATORS:
        for d in range(1, t["accept_d"] + 1):
            for c in range(1, t["accept_c"] + 1):
                items.append(("accept", sim, d, c, "numpy"))
    if ctx.tier == "thorough":
        for sim in P.SIMULATORS:
            for conn in _extra_connectors(sim):
                for c in (1, 3):
                    items.append(("accept_conn", sim, 2, c, conn))
    for sim in ("PureFockSimulator", "PassiveSimulator", "FockSimulator", "fermionic.PureFockSimulator"):
        for d in t["adapt_d"]:
            for c in range(1, t["adapt_c"] + 1):
                items.append(("adaptive", sim, d, c))
    return items


def _ordered(items):
    """One representative of every kind first (their samples go to the evidence), then the
    heavy items before the light ones so that the pool stays balanced."""
    weight = {"accept_conn": 0, "reject3": 1, "reject": 2, "adaptive": 3, "accept": 4, "adaptive_param": 5, "construct": 6}
    head, seen = [], set()
    for want in (("construct",), ("accept", "PureFockSimulator"), ("adaptive", "PureFockSimulator"), ("adaptive_param", "PassiveSimulator"),
                 ("reject", "PassiveSimulator"),
                 ("accept", "GaussianSimulator"), ("reject", "GaussianSimulator")):
        for it in items:
            if it[: len(want)] == want and it not in seen and (it[0] != "reject" or (it[2] in (2, 3) and it[3] == 0 and it[4] == 3)) \
                    and (it[0] not in ("accept", "adaptive", "adaptive_param") or (it[2], it[3]) == (2, 3)):
                head.append(it)
                seen.add(it)
                break
    rest = [it for it in items if it not in seen]
    rest.sort(key=lambda it: (weight.get(it[0], 9), -(it[2] if len(it) > 2 and isinstance(it[2], int) else 0)))
    return head + rest


def _extra_connectors(simname):
    from mc import c13_programs as P

    names = []
    for c in P.sim_class(simname)._extra_builtin_connectors:
        n = c.__name__.replace("Connector", "").lower()
        names.append(n)
    return names


def run(ctx, builddir):
    from mc import core
    from mc import c13_documented_errors as DE
    from mc import c13_programs as P

    from mc import build

    build.install_native(builddir)
    items = _items(ctx)
    only = getattr(ctx, "only", None)
    if only:  # development aid: "accept", "PureFockSimulator", "accept:PureFockSimulator", comma-separated
        def wanted(it):
            for o in only.split(","):
                k, _, sname = o.partition(":")
                if sname:
                    if it[0] == k and len(it) > 1 and it[1] == sname:
                        return True
                elif it[0] == k or (len(it) > 1 and it[1] == k):
                    return True
            return False

        items = [it for it in items if wanted(it)]
    items = _ordered(items)
    ctx.rule = (
        "reject: every structurally valid program of <= depth instructions over the simulator's alphabet (all classes of "
        "_instruction_map, generic valid parameters) x every single-fault mutation (mode -1 / d / duplicated in every slot, "
        "arity +-1, preparation moved after a gate, every foreign instruction class at every position, every not-mid-circuit "
        "measurement before the end, shots in {0,-1,1.5,'2'}, shots=None with an unsupported measurement, initial_state of "
        "2 wrong classes / d+-1, every documented parameter violation at every position; adaptive_param: every documented parameter "
        "violation with a _validate rule x every frame (no measurement / mid-circuit ParticleNumberMeasurement on mode 0 or d-1 after a mixing "
        "interferometer on 1..n photons / mid-circuit HomodyneMeasurement) x parameter = callable or expression string that is invalid iff the "
        "last outcome == k for every k in 0..n and 'always', x shots in {None, 1, 2}, each with its all-valid control); accept: every documented "
        "(simulator, instruction, connector, d, cutoff, placement, 0/1 photon context, shots) minimal program and every "
        "adaptive shots=None program; a case is distinct by (simulator, d, rule-or-instruction, position, program shape) and "
        "non-trivial when the program reaches the simulator (mutations) or executes >= 1 simulation step (accept)"
    )
    ctx.assume("'before any evolution' is decided by COMPLETED simulation steps (wrapper around every _instruction_map entry); an exception raised inside the first entered step counts as rejected (counter rejected_inside_first_step)")
    if ctx.tier == "quick":
        ctx.assume("quick tier bounds (kept small, ~4 CPU-minutes): reject side on d = 2 only, body depth <= 2 after the canonical prefix and <= 1 after the other prefixes, one mode placement per class, 2 foreign instruction classes per kind; accept side d <= 3, cutoff <= 4; adaptive programs d in {2, 3}, cutoff <= 3.  The thorough tier is a superset: d in {1, 2, 3}, two placements, every foreign class, depth-3 bodies over the representative alphabet, accept d <= 4 / cutoff <= 5, TF/JAX connectors, adaptive d <= 4 / cutoff <= 5")
    ctx.assume("family adaptive_param (mc/c13_adaptive.py): a documented-invalid value delivered through an outcome-dependent parameter "
               "(callable / expression string) only exists after the measurement it depends on, so 'before any evolution' cannot be demanded: "
               "the oracle there is 'a PiquassoException is raised and no Result is returned' whenever the invalid value was handed to the "
               "library on some branch (logged by the callable), and 'executes' when it was not (outcome not reached with these shots) and for "
               "the control whose callable is valid on every branch.  Only table entries whose class overrides Instruction._validate are used "
               "(SNAP.theta:length is raised inside the simulation step); FockSimulator and fermionic.GaussianSimulator have no mid-circuit "
               "measurement and GaussianSimulator only continuous-outcome ones: there the callable is outcome-independent ('always invalid')")
    ctx.assume("shots mutations are {0, -1, 1.5, '2'}; True is an int in Python and np.int64 is refused by the library: neither is claimed by the statement")
    ctx.assume("documented-error table: mc/c13_documented_errors.py (basis raises_clause / must_sentence / error_message kept apart in the rule name)")
    ctx.assume("accept side uses default/valid parameters only (HomodyneMeasurement phi=0 on PureFockSimulator, Attenuator mean_thermal_excitation=0 on Fock simulators, consecutive ascending modes on fermionic.PureFockSimulator): restrictions announced by the library through NotImplementedCalculation / InvalidParameter texts are not counted as refusals")
    ctx.assume("a base program (reject side) that the library itself refuses with a PiquassoException is skipped and counted (base_refused), it is built from _instruction_map, not from the documentation")
    ctx.extra["documented_error_table"] = DE.public_table()
    ctx.extra["documented_support"] = {s: P.documented_support(s) for s in P.SIMULATORS}
    core.pmap(ctx, "mc.checks.c13", "work", items, builddir)
    c = ctx.counters
    return {
        "states": c.get("base_programs", 0) + c.get("accept_programs", 0) + c.get("adaptive_branches", 0) + c.get("adaptive_param_programs", 0),
        "transitions": c.get("steps_run", 0) + c.get("reject_executions", 0),
        "traces_validated_against_impl": c.get("traces", 0),
        "paths": c.get("adaptive_branches", 0),
        "max_depth": c.get("max_depth", 0),
        "adaptive_param_invalid_value_resolved": c.get("adaptive_param_invalid_resolved", 0),
        "explanation": "states = distinct valid base programs (reject side) + documented minimal programs (accept side) + "
        "measurement-outcome branches reached by the adaptive shots=None programs + control programs of the adaptive_param "
        "family (outcome-dependent parameter, valid on every branch); transitions = simulation steps the real "
        "simulators executed plus single-fault mutation edges (base program -> mutated request) executed; "
        "traces_validated = complete requests executed on the real implementation and judged by the oracle "
        "(Piquasso exception with zero completed steps / no exception)",
    }


def work(ctx, item):
    kind = item[0]
    rep = _Reporter(ctx)
    globals()["_work_" + kind](ctx, rep, item)


# ---- reject --------------------------------------------------------------------------------


def _work_reject(ctx, rep, item):
    from mc import c13_reject as R

    _, sim, d, pi, first = item
    cutoff = REJECT_CUTOFF
    alpha = R.alphabet(sim, d, cutoff, ctx.seed, ctx.tier)
    body = R.body_alphabet(alpha)
    prefix = R.prefixes(sim, alpha, d, cutoff)[pi]
    if pi == 0:
        bases = R.bodies(sim, prefix, body, d, cutoff, 2, first)
        if first == -1:
            bases = [[]] + bases  # the empty program and the bare canonical prefix
    else:
        bases = R.bodies(sim, prefix, body, d, cutoff, 1, None)
    _reject_bases(ctx, rep, sim, d, cutoff, alpha, bases)


def _work_reject3(ctx, rep, item):
    """thorough tier: canonical prefix + every valid body of exactly 3 representative templates"""
    from mc import c13_reject as R

    _, sim, d, first = item
    cutoff = REJECT_CUTOFF
    alpha = R.alphabet(sim, d, cutoff, ctx.seed, ctx.tier)
    reps = R.representatives(sim, R.body_alphabet(alpha))
    prefix = R.prefixes(sim, alpha, d, cutoff)[0]
    bases = R.bodies(sim, prefix, reps, d, cutoff, 3, first, exact=3)
    _reject_bases(ctx, rep, sim, d, cutoff, alpha, bases)


def _reject_bases(ctx, rep, sim, d, cutoff, alpha, bases):
    from mc import c13_programs as P
    from mc import c13_reject as R

    foreign = R.foreign_specs(sim, d, cutoff, ctx.seed)
    per_kind = _tier(ctx)["foreign_per_kind"]
    if per_kind:
        kept, n = [], {}
        for f in foreign:  # sorted by class name: the first `per_kind` classes of every kind
            n[f["kind"]] = n.get(f["kind"], 0) + 1
            if n[f["kind"]] <= per_kind:
                kept.append(f)
        foreign = kept
    documented = set(P.documented_classes(sim))
    for base in bases:
        specs = [R._spec(t) for t in base]
        case = {"kind": "base", "sim": sim, "d": d, "cutoff": cutoff, "program": specs, "shots": 1, "init": None, "route": "on_modes"}
        o = execute_case(case, ctx.seed)
        ctx.count("traces")
        ctx.count("steps_run", o.get("completed", 0))
        if o["stage"] != "done":
            all_documented = all(s["cls"] in documented for s in specs)
            if o["piquasso"] and (o["exc_name"] == "NotImplementedCalculation" or not all_documented):
                # a combination the library announces as not implemented, or a program using
                # instructions that are in the map but not in the documentation: counted only
                ctx.count("base_refused")
                ctx.count("base_refused/" + o["exc_name"])
                continue
            if all_documented:
                # a structurally valid program made of documented instructions only must execute.
                # Attribution (signature key "instruction"): refused before any step -> the up-front
                # validation ("stage"); else the crashing / refusing instruction when the program has a
                # single non-preparation, else the instruction that completed just before (in a
                # sequence-dependent failure that is the one that left the state the next step chokes on).
                verdict = _accept_verdict(o)
                k = min(o["completed"], len(specs) - 1)
                nonprep = [t for t in base if t["kind"] != "prep"]
                acase = dict(case, kind="accept", connector="numpy", instruction=None, after=None)
                if o["entered"] == 0:
                    acase["stage"] = "validation"
                elif len(nonprep) <= 1 or k == 0:
                    acase["instruction"] = specs[k]["cls"]
                else:
                    acase["instruction"] = specs[k - 1]["cls"]
                sig = _accept_signature(verdict, acase, o)
                rep.report(sig, acase, "%s d=%d: valid base program of documented instructions did not execute: %s\nprogram=%s" % (sim, d, _describe(o), [(s["cls"], s["modes"]) for s in specs]), _accept_verdict, verdict)
            else:
                ctx.count("base_crash_undocumented_instruction")
                ctx.sample({"base_crash": [(s["cls"], s["modes"]) for s in specs], "sim": sim, "d": d, "exc": o["exc_name"], "msg": o["message"][:120]})
            continue
        ctx.count("base_programs")
        ctx.counters["max_depth"] = max(len(base) + 1, ctx.counters.get("max_depth", 0))
        nm = 0
        for mut in R.mutations(sim, d, cutoff, base, alpha, foreign, ctx.seed):
            case = {"kind": "reject", "sim": sim, "d": d, "cutoff": cutoff}
            case.update(mut)
            _check_reject(ctx, rep, case)
            nm += 1
            ctx.note_distinct("%s|%d|%s|%s|%s|%s" % (sim, d, mut["rule"], mut["pos"], mut["route"], ",".join(s["cls"] for s in mut["program"])))
        if nm and len(ctx.samples) < 1 and len(base) >= 3:
            ctx.sample({"kind": "reject", "sim": sim, "d": d, "base": [(s["cls"], s["modes"]) for s in specs], "mutations_executed": nm})


def _work_construct(ctx, rep, item):
    """Construction-time documented errors: the constructor itself must raise a Piquasso
    exception (no simulator is involved, so nothing can have evolved)."""
    from mc import c13_documented_errors as DE

    _, d = item
    for e in DE.TABLE:
        if e["when"] != "construction":
            continue
        bad = e["make"](d, REJECT_CUTOFF)
        if bad is None:
            continue
        for route in ("on_modes", "Q"):
            case = {"kind": "reject", "sim": "GaussianSimulator", "d": d, "cutoff": REJECT_CUTOFF, "program": [bad], "shots": 1,
                    "init": None, "route": route, "rule": DE.rule_name(e), "pos": 0, "entry": e["id"]}
            o = _check_reject(ctx, rep, case)
            ctx.note_distinct("construct|%d|%s|%s" % (d, e["id"], route))
            if o["stage"] == "execution":
                ctx.count("construction_rule_raised_later")
    ctx.sample({"kind": "construct", "d": d, "rules": [e["id"] for e in DE.TABLE if e["when"] == "construction"][:4]})


# ---- adaptive_param --------------------------------------------------------------------------


def _aparam_expect(case, o):
    """'reject' / 'accept': by_log -> decided by what the callables handed to the library on this run."""
    if case["expect"] == "by_log":
        return "reject" if o.get("adaptive_bad", 0) > 0 else "accept"
    return case["expect"]


def _aparam_verdict(case, o):
    if _aparam_expect(case, o) == "reject":
        if o["stage"] == "done":
            return "adaptive_param_not_validated"
        if not o["piquasso"]:
            return "adaptive_param_wrong_exception_type"
        return None
    if o["stage"] == "done":
        return None
    return "adaptive_param_valid_refused" if o["piquasso"] else "adaptive_param_valid_crash"


def _constant_twin(case):
    prog, pos = [], None
    for i, s_ in enumerate(case["program"]):
        kw = {}
        for k, val in s_.get("kw", {}).items():
            if isinstance(val, dict) and val.get("$") in ("adaptive", "adaptive_expr"):
                kw[k] = val["bad"]
                pos = i
            else:
                kw[k] = val
        prog.append(dict(s_, kw=kw))
    return {"kind": "reject", "sim": case["sim"], "d": case["d"], "cutoff": case["cutoff"], "program": prog, "shots": case["shots"],
            "init": None, "route": "on_modes", "rule": case["rule"], "pos": pos, "entry": case["entry"]}


def _check_aparam(ctx, rep, case):
    from mc import core

    o = execute_case(case, ctx.seed)
    ctx.count("traces")
    ctx.count("adaptive_param_executions")
    ctx.count("reject_executions" if case["selector"] != "never" else "accept_executions")
    ctx.count("steps_run", o.get("completed", 0))
    if o["stage"] == "construction" and case["selector"] == "never":
        # the constructor itself consumes the parameter (e.g. DistinguishableNumberState iterates over the occupation
        # numbers): that parameter cannot be given as a callable, nothing to check
        ctx.count("adaptive_param_not_expressible_as_callable")
        ctx.count("adaptive_param_not_expressible/%s/%s" % (case["entry"], o["exc_name"]))
        return o
    if o["stage"] == "construction":
        raise core.HarnessError("HARNESS-SELFTEST C13 adaptive_param: the instruction could not be constructed with an "
                                "outcome-dependent parameter: %s %s" % (case["entry"], _describe(o)))
    if case["selector"] == "never" and o.get("adaptive_bad", 0):
        raise core.HarnessError("HARNESS-SELFTEST C13 adaptive_param: control callable returned an invalid value")
    if case["form"] == "callable" and o["stage"] == "done" and o.get("adaptive_calls", 0) == 0:
        raise core.HarnessError("HARNESS-SELFTEST C13 adaptive_param: the callable was never resolved: %s" % json.dumps(case)[:300])
    if o["stage"] != "done" and "An error occurred when resolving" in o["message"]:
        raise core.HarnessError("HARNESS-SELFTEST C13 adaptive_param: the harness callable itself failed: %s" % o["message"])
    v = _aparam_verdict(case, o)
    if v is None:
        if _aparam_expect(case, o) == "reject":
            ctx.count("adaptive_param_rejected")
            ctx.count("adaptive_param_rejected_with/" + o["exc_name"])
            ctx.count("adaptive_param_rejected_after_completed_steps", 1 if o["completed"] > 0 else 0)
        return o
    if v == "adaptive_param_not_validated":
        # constant twin: the same program with the invalid value given as a constant.  If that is accepted too, the
        # defect is the validation rule itself (reject-side signature documented_invalid_accepted, e.g. known
        # finding F29b), not the per-branch validation of resolved parameters.
        twin = _constant_twin(case)
        t = _check_reject(ctx, rep, twin)
        if _reject_verdict(t) == "not_rejected":
            ctx.count("adaptive_param_rule_itself_accepts_constant")
            return o
    sig = {"check": "C13", "sub": v, "rule": case["rule"]}
    if v != "adaptive_param_not_validated":
        sig["exc"] = o["exc_name"]
        if v != "adaptive_param_wrong_exception_type":
            sig["simulator"] = case["sim"]
    if case["form"] != "callable":
        sig["form"] = case["form"]
    want = ("a PiquassoException and no Result (the invalid value was resolved on a branch)" if _aparam_expect(case, o) == "reject"
            else "no exception (the parameter is valid on every branch that was walked)")
    msg = "%s d=%d cutoff=%d %s [%s, %s, selector=%r, shots=%r, photons=%s, measured mode=%s]: expected %s, got %s\nprogram=%s" % (
        case["sim"], case["d"], case["cutoff"], case["entry"], case["variant"], case["form"], case["selector"], case["shots"],
        case["photons"], case["measured"], want, _describe(o), [(s_["cls"], s_["modes"]) for s_ in case["program"]],
    )
    rep.report(sig, case, msg, lambda again: _aparam_verdict(case, again), v)
    return o


def _work_adaptive_param(ctx, rep, item):
    """Documented parameter violations delivered through an outcome-dependent parameter: see mc/c13_adaptive.py"""
    from mc import c13_adaptive as A

    _, sim, d, c = item
    ents, skipped = A.entries(sim)
    ctx.count("adaptive_param_entries_without_validate_rule", len(skipped))
    if not A.frames(sim, d, c, ctx.tier)[1:]:
        ctx.count("adaptive_param_cells_without_mid_circuit_measurement")
    twin = {}
    nprog = nbad = 0
    for key, controls, rejects in A.cases(sim, d, c, ctx.seed, ctx.tier):
        ok_shots = set()
        for case in controls:
            o = _check_aparam(ctx, rep, case)
            if o["stage"] == "construction":
                continue
            ctx.count("adaptive_param_programs")
            nprog += 1
            if o["stage"] == "done":
                ok_shots.add(case["shots"])
                ctx.counters["max_adaptive_param_outcomes_seen"] = max(ctx.counters.get("max_adaptive_param_outcomes_seen", 0), len(o.get("adaptive_seen", ())))
        for case in rejects:
            if case["shots"] not in ok_shots:
                ctx.count("adaptive_param_skipped_no_control")
                continue
            tk = key[:4] + (case["selector"], case["shots"])
            if case["expect"] == "by_callable_twin":
                if tk not in twin:
                    continue
                case = dict(case, expect=twin[tk])
            o = _check_aparam(ctx, rep, case)
            exp = _aparam_expect(case, o)
            if case["form"] == "callable":
                twin[tk] = exp
            if exp == "reject":
                nbad += 1
                ctx.count("adaptive_param_invalid_resolved")
                ctx.note_distinct("aparam|%s|%d|%d|%s|%s|%s|%s|%s|%s|%s" % (sim, d, c, case["entry"], case["variant"], case["form"],
                                                                      case["photons"], case["measured"], case["selector"], case["shots"]))
            else:
                ctx.count("adaptive_param_selector_not_reached")
    if nprog and len(ctx.samples) < 1:
        ctx.sample({"kind": "adaptive_param", "sim": sim, "d": d, "cutoff": c, "entries": [e["id"] for e in ents],
                    "control_programs": nprog, "executions_with_invalid_value_resolved": nbad})


# ---- accept --------------------------------------------------------------------------------


def _accept_cases(sim, d, c, connector, seed):
    from mc import c13_programs as P

    for name in P.documented_classes(sim):
        for mp in P.minimal_programs(sim, name, d, c, seed):
            yield {"kind": "accept", "sim": sim, "d": d, "cutoff": c, "connector": connector, "instruction": name,
                   "program": mp["program"], "shots": mp["shots"], "init": None, "route": "on_modes", "tag": mp["tag"]}
        if name == "DeterministicGaussianChannel":
            # a small lattice of channels that satisfy the DOCUMENTED condition Y + i Omega >= i X Omega X^T
            # (channels.py:45-48); known finding F29: the code tests another inequality
            for chan, (x, y) in sorted(DGC_VALID.items()):
                for modes in ([0], [d - 1]) if d > 1 else ([0],):
                    prog = [{"cls": "Vacuum", "modes": None, "kw": {}},
                            {"cls": name, "modes": modes, "kw": {"X": {"$": "array", "data": [[x, 0.0], [0.0, x]]},
                                                                 "Y": {"$": "array", "data": [[y, 0.0], [0.0, y]]}}}]
                    yield {"kind": "accept", "sim": sim, "d": d, "cutoff": c, "connector": connector, "instruction": name,
                           "program": prog, "shots": 1, "init": None, "route": "on_modes", "tag": "gate/%s/%s" % (chan, modes),
                           "channel": chan}


_T, _N = 0.3, 0.1
# X = x I, Y = y I;  Y + i Omega - i X Omega X^T = y I + i (1 - x^2) Omega has the eigenvalues y +- (1 - x^2)
DGC_VALID = {
    "identity": (1.0, 0.0),
    "pure_loss": (math.cos(_T), math.sin(_T) ** 2),
    "thermal_attenuator": (math.cos(_T), math.sin(_T) ** 2 * (2 * _N + 1)),  # the Attenuator docstring, N = 0.1
    "classical_noise": (1.0, 0.3),
    "quantum_limited_amplifier": (math.sqrt(2.0), 1.0),
}


def _work_accept(ctx, rep, item, light=False):
    _, sim, d, c, connector = item
    n = 0
    for case in _accept_cases(sim, d, c, connector, ctx.seed):
        if light and ("shots3" in case["tag"] or case.get("variant") or case.get("channel")):
            continue
        o = _check_accept(ctx, rep, case)
        ctx.count("accept_programs")
        n += 1
        if o.get("completed", 0) >= 1:
            ctx.note_distinct("accept|%s|%s|%d|%d|%s|%s" % (sim, connector, d, c, case["instruction"], case["tag"]))
        # the other front door: with pq.Program() / pq.Q(...) | instruction / simulator.execute
        if d <= 2 and not light:
            _check_accept(ctx, rep, dict(case, route="Q"))
            ctx.count("accept_programs")
    if len(ctx.samples) < 1:
        ctx.sample({"kind": "accept", "sim": sim, "d": d, "cutoff": c, "connector": connector, "programs": n})


def _work_accept_conn(ctx, rep, item):
    """thorough tier, reduced set (C09 is the connector property): d = 2, cutoff 1 and 3, one front door"""
    _, sim, d, c, connector = item
    _work_accept(ctx, rep, ("accept", sim, d, c, connector), light=True)


# ---- adaptive ------------------------------------------------------------------------------


def _adaptive_programs(sim, d, c, seed):
    """Programs with mid-circuit ParticleNumberMeasurement on every ordered proper subset of the
    modes (terminal measurement only for FockSimulator), followed by passive / active /
    outcome-conditioned gates on the remaining modes and a second measurement.  With
    shots=None one execution enumerates every outcome history; the input holds cutoff-1
    photons so that the deepest branches are left with cutoff 1."""
    import itertools

    from mc import c13_programs as P

    n = c - 1  # photons
    occ = [0] * d
    for i in range(n):
        occ[i % d] += 1
    fermi = sim.startswith("fermionic")
    if fermi:
        occ = [1 if i < min(n, d) else 0 for i in range(d)]
        if sum(occ) >= c:
            return
    if sim == "FockSimulator":
        prep = {"cls": "DensityMatrix", "modes": None, "kw": {"ket": occ, "bra": occ}}
    else:
        prep = {"cls": "NumberState", "modes": None, "kw": {"occupation_numbers": occ}}
    mix = {"cls": "Interferometer", "modes": None, "kw": {"matrix": {"$": "unitary", "k": d}}}
    pnm = "ParticleNumberMeasurement"
    sc = P._scalars(seed)
    midok = sim != "FockSimulator"
    for k in range(1, d + (0 if midok else 1)):
        for first in itertools.permutations(range(d), k):
            m1 = {"cls": pnm, "modes": list(first), "kw": {}}
            if not midok:
                yield [prep, mix, m1], "terminal%s" % (list(first),)
                continue
            rest = [x for x in range(d) if x not in first]
            followers = []
            r0 = rest[0]
            followers.append(("phase", [{"cls": "Phaseshifter", "modes": [r0], "kw": sc["Phaseshifter"]}]))
            followers.append(("phase_cond", [{"cls": "Phaseshifter", "modes": [r0], "kw": {"phi": "0.2 * x[0] + 0.1"}, "when": "x[-1] > 0"}]))
            if len(rest) >= 2:
                pair = [rest[-1], rest[0]]
                if fermi:
                    pair = sorted(pair)
                    if pair[1] - pair[0] != 1:
                        pair = None
                if pair:
                    followers.append(("bs", [{"cls": "Beamsplitter", "modes": pair, "kw": sc["Beamsplitter"]}]))
            if not fermi:
                followers.append(("interf", [{"cls": "Interferometer", "modes": rest, "kw": {"matrix": {"$": "unitary", "k": len(rest)}}}]))
            if sim == "PureFockSimulator":
                followers.append(("squeeze", [{"cls": "Squeezing", "modes": [r0], "kw": sc["Squeezing"]}]))
                followers.append(("displace", [{"cls": "Displacement", "modes": [r0], "kw": sc["Displacement"]}]))
                followers.append(("kerr", [{"cls": "Kerr", "modes": [r0], "kw": sc["Kerr"]}]))
                followers.append(("snap", [{"cls": "SNAP", "modes": [r0], "kw": {"theta": {"$": "snap", "k": c}}}]))
                if len(rest) >= 2:
                    followers.append(("sq2", [{"cls": "Squeezing2", "modes": [rest[0], rest[-1]], "kw": sc["Squeezing2"]}]))
            for fname, gates in followers:
                # second measurement: every ordered subset of the remaining modes (incl. all of them)
                seconds = [None]
                for k2 in range(1, len(rest) + 1):
                    for sec in itertools.permutations(rest, k2):
                        seconds.append(list(sec))
                if len(rest) > 2:
                    seconds = [s for s in seconds if s is None or len(s) <= 2]
                for sec in seconds:
                    prog = [prep, mix, m1] + gates
                    tag = "mid%s/%s" % (list(first), fname)
                    if sec is not None:
                        prog = prog + [{"cls": pnm, "modes": sec, "kw": {}}]
                        tag += "/then%s" % (sec,)
                        left = [x for x in rest if x not in sec]
                        if left and fname in ("phase", "squeeze"):
                            prog = prog + [{"cls": "Phaseshifter", "modes": [left[0]], "kw": sc["Phaseshifter"]},
                                           {"cls": pnm, "modes": None, "kw": {}}]
                            tag += "/phase/all"
                    yield prog, tag


def _work_adaptive(ctx, rep, item):
    _, sim, d, c = item
    nprog = 0
    min_cut = None
    for prog, tag in _adaptive_programs(sim, d, c, ctx.seed):
        case = {"kind": "accept", "sim": sim, "d": d, "cutoff": c, "connector": "numpy", "instruction": "ParticleNumberMeasurement",
                "program": prog, "shots": None, "init": None, "route": "on_modes", "tag": tag, "variant": "adaptive_shots_none"}
        o = _check_accept(ctx, rep, case, attribute=True)
        ctx.count("adaptive_programs")
        nprog += 1
        if o["stage"] == "done":
            branches = o["result"].branches
            ctx.count("adaptive_branches", len(branches))
            for b in branches:
                ctx.note_distinct("adaptive|%s|%d|%d|%s|%s" % (sim, d, c, tag, tuple(int(x) for x in b.outcome)))
                st = b.state
                cut = getattr(getattr(st, "_config", None), "cutoff", None)
                if cut is not None:
                    min_cut = cut if min_cut is None else min(min_cut, cut)
                    if cut == 1:
                        ctx.count("adaptive_branches_at_cutoff_1")
    if nprog and len(ctx.samples) < 1:
        ctx.sample({"kind": "adaptive", "sim": sim, "d": d, "cutoff": c, "programs": nprog, "min_branch_cutoff": min_cut})


# =========================================================================================


def replay(ctx, case, signature):
    rep = _Reporter(ctx)
    if case.get("kind") == "adaptive_param":
        o = _check_aparam(ctx, rep, case)
    elif case.get("kind") == "reject":
        o = _check_reject(ctx, rep, case)
    else:
        o = _check_accept(ctx, rep, case)
    print("replayed: %s" % _describe(o))
