"""C09 -- results do not depend on the numerical connector.

Lock-step explicit-state BFS whose "implementations" are the SAME simulator class under
different connectors / compilation modes:

    PureFockSimulator          x {NumPy | TF eager, TF decorate_with=tf.function, tf.function(whole program)}
                               x {NumPy | JAX eager, jax.jit(whole program)}
    GaussianSimulator, PassiveSimulator,
    fermionic Gaussian / PureFock x {NumPy | JAX eager, jax.jit(whole program)}

(the TF group and the JAX group are explored by different long-lived workers, both against the
NumPy connector, over the same instruction alphabet; what a simulator does not accept --
`_extra_builtin_connectors` -- is not a cell).  A state is the tuple of live `State` objects
reached by one instruction history, a transition applies one instruction template to every
implementation through the public path `Simulator.execute_instructions([a], initial_state=s)`;
compiled whole-program variants re-execute the whole history inside `jax.jit` / `tf.function`
with all float gate parameters (and the phase-shifter observation angles) as traced
arguments.  States are de-duplicated by the rounded NumPy result (the frontier only: every
transition is executed on every implementation and checked).

Oracle in every state: `|a-b| <= 1e-9 + 1e-9*max|a|` against the NumPy connector for the
state representation INCLUDING global phase and for the derived probabilities / expectation
values, same (double) dtype.  A `NotImplementedError` / `NotImplementedCalculation`, and a
tracer/graph error of a compiled mode, is an unsupported cell (counted), any other
exception raised only by the non-NumPy connector is a crash (reported).

Plus `linalg` items: the connector-level linear algebra itself (mc/c09_linalg.py).
"""

import json

LEVEL = "model_checking"

STATE_OBS = {
    "purefock": ["state_vector"],
    "ffock": ["state_vector"],
    "passive": ["state_vector", "fock_probabilities"],
    "gaussian": ["xpxp_mean_vector", "xpxp_covariance_matrix"],
    "fgauss": ["covariance_matrix"],
}
GROUP_IMPLS = {"tf": ["tf", "tff"], "jax": ["jax"]}
COMPILED_OF = {"tf": "tfw", "jax": "jit"}


# ---------------------------------------------------------------------------------------
# plan


def _plan(tier):
    """Work items.  bfs item: family, d, cutoff, root, group, depth (lock-step depth),
    cdepth (whole-program compilation up to this program length; -1 = none),
    chunk (k, n) = this item explores the first actions k, k+n, k+2n, ..."""
    items = []

    def bfs(family, d, cutoff, roots, group, depth, cdepth, nchunks=1, wdepth=-1):
        for root in roots:
            for k in range(nchunks):
                items.append({
                    "kind": "bfs", "family": family, "d": d, "cutoff": cutoff, "root": root, "group": group,
                    "depth": depth, "cdepth": cdepth, "wdepth": wdepth, "chunk": [k, nchunks],
                })

    if tier == "quick":
        # small tier (budget ~5 CPU-minutes including TF / JAX start-up): d <= 2, lock-step
        # depth 2 at d = 1 and depth 1 at d = 2, whole-program compilation of the depth-<=1
        # programs at d = 1 and of the root programs at d = 2
        for group in ("tf", "jax"):
            for c in (1, 3):
                bfs("purefock", 1, c, ["sup"], group, 2, 1 if (group == "jax" and c == 3) else -1)
            bfs("purefock", 2, 3, ["sup"], group, 1, -1)
        bfs("gaussian", 1, 3, ["dsq"], "jax", 2, -1)
        bfs("gaussian", 2, 3, ["dsq"], "jax", 1, 0)
        bfs("passive", 2, 3, ["sup"], "jax", 1, 0)
        bfs("fgauss", 2, 3, ["ph"], "jax", 1, 0)
        bfs("ffock", 2, 3, ["sup"], "jax", 1, 0)
    else:
        for group in ("tf", "jax"):
            cd = 2 if group == "jax" else -1
            for c in (1, 2, 3, 4, 5):
                bfs("purefock", 1, c, ["vac", "num", "sup"], group, 3, cd)
            bfs("purefock", 2, 3, ["sup"], group, 2, cd, nchunks=8)
            bfs("purefock", 2, 3, ["vac", "num"], group, 2, min(cd, 1), nchunks=4)
            bfs("purefock", 2, 3, ["sup"], group, 3, -1, nchunks=20)
            for c in (1, 2, 4, 5):
                bfs("purefock", 2, c, ["num", "sup"], group, 2, 1 if group == "jax" else -1, nchunks=4)
            bfs("purefock", 3, 3, ["num", "sup"], group, 2, 1 if group == "jax" else -1, nchunks=15)
            for c in (1, 2, 4):
                bfs("purefock", 3, c, ["sup"], group, 1, -1, nchunks=2)
        bfs("purefock", 1, 3, ["sup"], "tf", 0, -1, wdepth=2)
        bfs("purefock", 2, 3, ["sup"], "tf", 0, -1, wdepth=1, nchunks=4)
        bfs("gaussian", 1, 3, ["vac", "dsq", "thermal"], "jax", 2, 2)
        bfs("gaussian", 2, 3, ["dsq"], "jax", 2, 2, nchunks=12)
        bfs("gaussian", 2, 3, ["thermal"], "jax", 2, 1, nchunks=4)
        bfs("gaussian", 2, 4, ["vac"], "jax", 2, 1, nchunks=4)
        bfs("gaussian", 3, 3, ["dsq", "thermal"], "jax", 2, 1, nchunks=12)
        bfs("passive", 1, 3, ["num", "sup"], "jax", 2, 2)
        bfs("passive", 2, 3, ["num", "sup"], "jax", 2, 2, nchunks=4)
        bfs("passive", 2, 4, ["sup"], "jax", 2, 1, nchunks=2)
        bfs("passive", 3, 3, ["num", "sup"], "jax", 2, 1, nchunks=6)
        for d in (2, 3):
            bfs("fgauss", d, d + 1, ["vac", "num", "ph"], "jax", 2, 2 if d == 2 else 1, nchunks=1 if d == 2 else 3)
            bfs("ffock", d, d + 1, ["num", "sup"], "jax", 2, 2 if d == 2 else 1, nchunks=1 if d == 2 else 4)
        bfs("ffock", 2, 2, ["sup"], "jax", 2, 1)
    # connector-level linear algebra: eager first, then the compiled variant of the same
    # connector in the same item (a compiled variant only reports what eager did not)
    for fam in ("tf", "jax"):
        for part in ("decomp", "funm", "assembly", "kernels"):
            if tier == "quick" and (part == "assembly" or (fam == "tf" and part == "kernels")):
                continue
            items.append({"kind": "linalg", "connector_family": fam, "part": part})
    return items


def _needs_tf(item):
    return (item["kind"] == "bfs" and item["group"] == "tf") or (item["kind"] == "linalg" and item["connector_family"] == "tf")


def run(ctx, builddir):
    import threading

    from mc import core

    items = _plan(ctx.tier)
    only = getattr(ctx, "only", None)
    if only:
        # development filter: "family", "family:d", "linalg", "tf", "jax"; "," = and, "+" = or
        def keep1(it, spec):
            for tok in spec.split(","):
                if tok == "tf" and not _needs_tf(it):
                    return False
                if tok == "jax" and _needs_tf(it):
                    return False
                if tok in ("tf", "jax"):
                    continue
                if tok == "linalg":
                    if it["kind"] != "linalg":
                        return False
                    continue
                fam, _, dd = tok.partition(":")
                if it["kind"] != "bfs" or it["family"] != fam or (dd and str(it["d"]) != dd):
                    return False
            return True

        def keep(it):  # "a,b+c" = (a and b) or c
            return any(keep1(it, spec) for spec in only.split("+"))

        items = [it for it in items if keep(it)]
    ctx.rule = (
        "lock-step BFS over ALL instruction sequences up to the stated depth over the family's gate table on every "
        "ORDERED mode tuple, from number-state and complex-superposition (Gaussian: displaced-squeezed / thermal) roots; "
        "a case = one transition (state, instruction) executed on every connector mode; distinct = distinct rounded "
        "NumPy successor state per (family, d, cutoff); non-trivial = every transition (each compares the full state "
        "including phase); VERIF_SEED only changes the generic parameter values / matrices of the catalogue"
    )
    ctx.assume("reference implementation = the same simulator under NumpyConnector (the property is agreement, not absolute correctness)")
    ctx.assume("tolerance 1e-9 + 1e-9*max|ref| on every compared array; all connectors run in float64/complex128 (their default)")
    ctx.assume("an unsupported cell = NotImplementedError/NotImplementedCalculation, or a tracer / graph-mode error of a compiled mode; counted, never a violation")
    ctx.assume("after a reported state disagreement the diverged implementation is dropped from the descendants of that state (counted as impl_diverged_skipped)")
    ctx.assume("connector-level expm/logm/powm are compared on diagonalisable, well-conditioned matrices with spectrum off the negative real axis; TF schur on normal matrices only (documented hack)")

    tf_items = [it for it in items if _needs_tf(it)]
    jax_items = [it for it in items if not _needs_tf(it)]
    # heavy items first (better packing); the order is a deterministic function of the plan
    weight = lambda it: -(it.get("d", 1) ** 2 * (40 ** max(it.get("depth", 1), it.get("cdepth", 0) + 1)) // max(1, it.get("chunk", [0, 1])[1]))
    tf_items.sort(key=lambda it: (weight(it), json.dumps(it, sort_keys=True)))
    jax_items.sort(key=lambda it: (weight(it), json.dumps(it, sort_keys=True)))

    subs = []
    threads = []
    total = 16
    n_tf = min(len(tf_items), 2 if ctx.tier == "quick" else 7)
    n_jax = 3 if ctx.tier == "quick" else max(1, total - n_tf)
    for its, procs in ((tf_items, n_tf), (jax_items, n_jax)):
        if not its:
            continue
        sub = core.Check(ctx.prop, ctx.tier, ctx.seed, ctx.level)
        sub.max_samples = 3
        subs.append(sub)
        err = []

        def target(sub=sub, its=its, procs=procs, err=err):
            try:
                core.pmap(sub, "mc.checks.c09", "work", its, builddir, procs=procs)
            except BaseException as e:  # re-raised in the parent thread
                err.append(e)

        t = threading.Thread(target=target)
        t.start()
        threads.append((t, err))
    for t, err in threads:
        t.join()
    for t, err in threads:
        if err:
            raise err[0]
    for sub in subs:
        ctx.merge(sub.export())
    c = ctx.counters
    unsupported = {k: v for k, v in c.items() if k.startswith("unsupported:")}
    if only:  # development filter: keep the evidence schema-valid for partial runs
        c.setdefault("states", 1)
        c.setdefault("transitions", 1)
    return {
        "states": c.get("states", 0),
        "transitions": c.get("transitions", 0),
        "traces_validated_against_impl": c.get("impl_executions", 0),
        "max_depth": c.get("max_depth", 0),
        "compiled_programs": c.get("compiled_programs", 0),
        "comparisons": c.get("comparisons", 0),
        "unsupported_cells": c.get("unsupported_cells", 0),
        "unsupported_by_cell": unsupported,
        "linalg_evaluations": c.get("linalg_evaluations", 0),
        "evaluations": c.get("impl_executions", 0) + c.get("linalg_evaluations", 0),
        "explanation": "a state = the tuple of live State objects (one per connector mode of the worker group + the NumPy "
        "reference) reached by one instruction history from one root, distinct by the rounded NumPy state, summed over the "
        "(family, d, cutoff, root, group, first-action chunk) sub-explorations; a transition = one instruction template applied to "
        "every implementation of the group in lock-step via Simulator.execute_instructions([a], initial_state=s) and "
        "compared observable by observable; traces_validated_against_impl = executions on a non-NumPy implementation "
        "(eager steps + whole-program jax.jit / tf.function runs) whose full observable set was compared; compiled_programs = "
        "distinct whole programs traced+compiled; linalg_evaluations = connector-level linear-algebra calls compared with SciPy",
    }


# ---------------------------------------------------------------------------------------
# classification helpers


def _is_refusal(excname):
    return excname in ("NotImplementedError", "NotImplementedCalculation")


def _is_compile_error(excname, msg):
    return (
        "Tracer" in excname
        or "Concretization" in excname
        or "NotAllowedInGraph" in excname
        or "racer" in msg
        or "symbolic" in msg.lower()
        or "SymbolicTensor" in msg
        or "Graph execution" in msg
        or "tf.function" in msg
        or "AutoGraph" in msg
    )


def _step_name(pq, L, family, template):
    sim = L.simulator_class(pq, family)
    cls = L._resolve_class(pq, template["cls"])
    fn = sim._instruction_map.get(cls)
    name = getattr(fn, "__name__", None) or type(fn).__name__
    return name


def _diagnose_linear(pq, L, cat, template, kind):
    """Triage of a state disagreement after a PureFock `linear` step: is the connector's
    Euler decomposition of the gate's symplectic matrix invalid (and is that its polar()),
    or are both decompositions valid but different?  Self-validating on the NumPy connector."""
    import numpy as np
    from piquasso._math.decompositions import euler

    try:
        inst = L.make_instruction(pq, cat, template)
        npc = L.get_connector(pq, "numpy")
        cfg = pq.Config()
        P = np.asarray(inst._get_passive_block(npc, cfg))
        A = np.asarray(inst._get_active_block(npc, cfg))
        S = np.block([[P, A], [A.conj(), P.conj()]])

        def recon(conn):
            Ul, D, Uf = [L.to_np(x) for x in euler(conn.np.asarray(S) if conn is not npc else S.copy(), conn)]
            Z = np.zeros_like(Ul)
            pl = lambda U: np.block([[U, Z], [Z, U.conj()]])
            sq = np.block([[np.diag(np.cosh(D)), -np.diag(np.sinh(D))], [-np.diag(np.sinh(D)), np.diag(np.cosh(D))]])
            err = float(np.max(np.abs(pl(Ul) @ sq @ pl(Uf) - S)))
            uni = max(float(np.max(np.abs(Ul.conj().T @ Ul - np.eye(len(Ul))))), float(np.max(np.abs(Uf.conj().T @ Uf - np.eye(len(Uf))))))
            return err, uni, np.real(D)

        e0, u0, D0 = recon(npc)
        if e0 > 1e-8 or u0 > 1e-8:
            return "undetermined"
        conn = L.get_connector(pq, "jax" if kind in ("jax", "jit") else "tf")
        e1, u1, D1 = recon(conn)
        if not (e1 <= 1e-8 and u1 <= 1e-8):
            import scipy.linalg

            U, Pm = [L.to_np(x) for x in conn.polar(conn.np.asarray(S), side="left")]
            Ue, Pe = scipy.linalg.polar(S, side="left")
            if np.max(np.abs(U - Ue)) > 1e-8 or np.max(np.abs(Pm - Pe)) > 1e-8:
                return "euler_invalid:polar_left_wrong"
            return "euler_invalid:other"
        D = np.sort(D0)
        if len(D) > 1 and np.min(np.diff(D)) < 1e-9:
            return "euler_valid_nonunique:degenerate_squeezings"
        return "euler_valid"
    except Exception as e:
        return "undetermined:%s" % type(e).__name__


def _diagnose_phaseshifter(pq, L, cat, d, root_t, program, variants):
    """Triage of a NumPy-vs-other disagreement on GaussianState.get_phaseshifter_expectation_value:
    which side is wrong?  Tr[rho R(phi)] = sum_n p(n) exp(i phi.n) is evaluated from the NumPy
    connector's Fock probabilities at a large cutoff (only meaningful when the neglected tail
    is far below the disagreement)."""
    import numpy as np

    try:
        from piquasso._math.fock import get_fock_space_basis

        big = {1: 40, 2: 24, 3: 16}.get(d, 8)
        st = L.run_eager(pq, "gaussian", "numpy", d, big, cat, root_t, program)
        p = np.asarray(st.fock_probabilities)
        tail = abs(1.0 - float(np.sum(p)))
        basis = np.asarray(get_fock_space_basis(d=d, cutoff=big))
        sets = L.angle_sets(cat, d)
        verdicts = set()
        for v in variants:
            tag = v.split("[")[1].rstrip("]") if "[" in v else "moderate"
            ang = np.array(sets[tag])
            ref = np.sum(p * np.exp(1j * basis @ ang))
            val = complex(st.get_phaseshifter_expectation_value(list(sets[tag])))
            err = abs(val - ref)
            if tail > 1e-6:
                verdicts.add("undetermined")
            elif err > 1e-5:
                verdicts.add("NumpyConnector(concrete angles)")
            else:
                verdicts.add("other(traced angles)")
        return "+".join(sorted(verdicts))
    except Exception as e:
        return "undetermined:%s" % type(e).__name__


def _compare_all(L, family, ref, got, compiled):
    """-> list of issues (kind, observable, detail) ; counts are returned separately."""
    issues = []
    unsupported = []
    ncmp = 0
    for name, r in ref.items():
        g = got.get(name)
        if g is None:
            continue
        if r[0] != "ok":
            continue  # the NumPy connector itself refuses / cannot compute: not a cell
        if g[0] != "ok":
            exc, msg = g[1], g[2]
            if _is_refusal(exc) or (compiled and _is_compile_error(exc, msg)):
                unsupported.append((name, exc))
            else:
                issues.append(("crash", name, "%s: %s" % (exc, msg), exc))
            continue
        ncmp += 1
        ok, diff, scale, detail = L.compare(r[1], g[1])
        if not ok:
            issues.append(("value", name, "max|diff| = %.3e (scale %.3e) %s" % (diff, scale, detail), None))
            continue
        dr, dg = L.dtype_class(r[1]), L.dtype_class(g[1])
        if dg not in ("f8", "c16") and dr in ("f8", "c16"):
            issues.append(("dtype", name, "dtype %s (NumPy connector: %s)" % (dg, dr), None))
    return issues, unsupported, ncmp


def _obs_base(name):
    return name.split("(")[0].split("[")[0]


def _group_issues(chosen):
    """Issues of the same kind on variants of one observable (`name[tag]`, `name(arg)`) are
    one finding: -> list of (kind, first observable, detail, exc, [variant names])."""
    groups = {}
    order = []
    for kind, obs, detail, exc in chosen:
        key = (kind, _obs_base(obs), exc)
        if key not in groups:
            groups[key] = []
            order.append(key)
        groups[key].append((obs, detail))
    return [(k[0], groups[k][0][0], groups[k][0][1], k[2], [o for o, _ in groups[k]]) for k in order]


class _Explorer:
    def __init__(self, ctx, item):
        import numpy as np
        import piquasso as pq

        from mc import c09_lib as L

        self.ctx, self.item, self.pq, self.L, self.np = ctx, item, pq, L, np
        self.family, self.d, self.cutoff = item["family"], item["d"], item["cutoff"]
        self.group = item["group"]
        self.cat = L.Catalogue(ctx.seed)
        self.root_name = item["root"]
        self.root_t = L.roots(self.family, self.d, self.cutoff, "thorough")[self.root_name]
        self.alpha = L.alphabet(self.family, self.d, self.cutoff)
        self.impls = list(GROUP_IMPLS[self.group])
        self.simname = L.simulator_class(pq, self.family).__name__
        if self.family in ("fgauss", "ffock"):
            self.simname = "fermionic." + self.simname
        self.reported = set()
        # connectors are created up front: JaxConnector() switches jax to x64, which must
        # not happen for the first time inside a jit trace
        for k in ["numpy"] + self.impls:
            L.get_connector(pq, k)
        if self.group == "jax":
            L.get_connector(pq, "jax")

    # -- bookkeeping -------------------------------------------------------------------
    def case(self, program, impl):
        return {
            "kind": "bfs", "family": self.family, "d": self.d, "cutoff": self.cutoff, "root": self.root_name,
            "program": program, "impl": impl, "text": self.L.program_text(self.root_name, program),
        }

    def signature(self, kind, impl, obs, program, exc=None, variants=None):
        L = self.L
        sig = {"check": "C09", "simulator": self.simname, "connector": L.CONNECTOR_NAME[impl], "mode": L.MODE_NAME[impl]}
        step = _step_name(self.pq, L, self.family, program[-1]) if program else "preparation"
        if kind == "value" and obs in STATE_OBS[self.family]:
            sig.update({"sub": "state", "step": step})
            if self.family == "purefock" and step == "linear":
                sig["cause"] = _diagnose_linear(self.pq, L, self.cat, program[-1], impl)
        elif kind == "value":
            sig.update({"sub": "observable", "observable": _obs_base(obs), "input_class": "d=1" if self.d == 1 else "d>=2"})
            if _obs_base(obs) == "get_phaseshifter_expectation_value":
                sig["wrong_side"] = _diagnose_phaseshifter(self.pq, self.L, self.cat, self.d, self.root_t, program, variants or [obs])
        elif kind == "crash":
            site = _obs_base(obs) if obs != "<execute>" else "step:" + step
            sig.update({"sub": "crash", "site": site, "exc": exc})
            if obs == "<execute>":
                sig["cutoff_class"] = "cutoff<=2" if self.cutoff <= 2 else "cutoff>=3"
        elif kind == "dtype":
            sig.update({"sub": "dtype", "observable": _obs_base(obs)})
        return sig

    def report(self, issues, impl, program, eager_sigs=None):
        """Report the decisive issue(s) of one (state, implementation).  A state-observable
        disagreement hides the derived ones (they are consequences).  `eager_sigs`: the
        mode-less signatures already reported for the eager variant of the same connector
        in this state (a compiled variant only reports what is specific to compilation).
        Returns (diverged?, set of mode-less signature keys of this call)."""
        modeless_here = set()
        if not issues:
            return False, modeless_here
        state_issue = [i for i in issues if i[0] == "value" and i[1] in STATE_OBS[self.family]]
        diverged = bool(state_issue)
        chosen = state_issue[:1] if state_issue else issues
        for kind, obs, detail, exc, variants in _group_issues(chosen):
            sig = self.signature(kind, impl, obs, program, exc, variants)
            key = json.dumps(sig, sort_keys=True)
            # a compiled variant crashing at the same site as eager is the same finding even
            # though graph mode wraps the exception in another class
            modeless = json.dumps({k: v for k, v in sig.items() if k not in ("mode", "exc")}, sort_keys=True)
            modeless_here.add(modeless)
            if eager_sigs is not None and modeless in eager_sigs:
                self.ctx.count("compiled_issue_same_as_eager")
                continue
            self.ctx.count("violating_comparisons")
            if key in self.reported:
                continue
            self.reported.add(key)
            case = self.case(program, impl)
            case["observable"] = obs
            case["detail"] = detail
            # determinism + independence of the explorer: the recorded case must violate again
            # when it is re-run from scratch (whole program from the root preparation)
            again = _replay_signatures(self.ctx, self.pq, self.L, case)
            if key not in again:
                from mc import core

                raise core.HarnessError(
                    "HARNESS-NONDETERMINISM C09: %s under %s violated in the explorer (%s) but the from-scratch re-run gave %s"
                    % (case["text"], impl, key, sorted(again))
                )
            self.ctx.violation(sig, case, "%s | %s %s | %s: %s" % (case["text"], self.L.CONNECTOR_NAME[impl], self.L.MODE_NAME[impl], obs, detail))
        return diverged, modeless_here

    # -- execution ---------------------------------------------------------------------
    def execute(self, impl, program_step, parent_state, full_program):
        """One lock-step transition (or the root preparation when parent_state is None).
        Returns (state | None, unsupported?, crash issue | None)."""
        L = self.L
        try:
            if parent_state is None:
                st = L.run_eager(self.pq, self.family, impl, self.d, self.cutoff, self.cat, self.root_t, [])
            else:
                st = L.run_eager(self.pq, self.family, impl, self.d, self.cutoff, self.cat, None, program_step, initial_state=parent_state)
            return st, False, None
        except Exception as e:
            name, msg = type(e).__name__, str(e).replace("\n", " ")[:300]
            if _is_refusal(name):
                return None, True, None
            return None, False, ("crash", "<execute>", "%s: %s" % (name, msg), name)

    def level_for(self, depth):
        return 2

    def observe(self, state, depth):
        L = self.L
        return L.evaluate(L.observe(self.family, state, self.d, self.cutoff, self.cat, level=self.level_for(depth)))

    def state_key(self, ref):
        arrs = [ref[n][1] for n in STATE_OBS[self.family] if n in ref and ref[n][0] == "ok"]
        return self.L.canon(arrs)

    def compiled(self, program, ref, mode):
        """Whole-program compilation of `program`, compared with the NumPy observables."""
        L, ctx = self.L, self.ctx
        level = 2 if len(program) <= 1 else 1
        ctx.count("compiled_programs")
        try:
            if mode == "jit":
                got = L.run_jit(self.pq, self.family, self.d, self.cutoff, self.cat, self.root_t, program, level=level, traced=True)
            else:
                got = L.run_tf_whole(self.pq, self.family, self.d, self.cutoff, self.cat, self.root_t, program, level=level)
        except Exception as e:
            name, msg = type(e).__name__, str(e).replace("\n", " ")[:300]
            if _is_refusal(name) or _is_compile_error(name, msg):
                ctx.count("unsupported_cells")
                ctx.count("unsupported:%s:%s:%s" % (self.simname, mode, program[-1]["cls"] if program else "preparation"))
                return
            self.report([("crash", "<execute>", "%s: %s" % (name, msg), name)], mode, program, eager_sigs=self._eager_modeless)
            return
        ctx.count("impl_executions")
        issues, unsupported, ncmp = _compare_all(L, self.family, ref, got, compiled=True)
        ctx.count("comparisons", ncmp)
        for name, exc in unsupported:
            ctx.count("unsupported_cells")
            ctx.count("unsupported:%s:%s:observable:%s" % (self.simname, mode, _obs_base(name)))
        self.report(issues, mode, program, eager_sigs=self._eager_modeless)

    def visit(self, program, parent, depth):
        """Execute the last instruction of `program` on every implementation from the parent
        tuple, run the oracle, return (key, child tuple) or None when the NumPy reference
        refuses the instruction."""
        L, ctx = self.L, self.ctx
        step = program[-1:] if program else []
        pstate = parent["numpy"] if parent is not None else None
        st, unsupported, crash = self.execute("numpy", step, pstate, program)
        if st is None:
            # the reference itself refuses: not a cell of this property (C13 owns refusals)
            ctx.count("unsupported_cells")
            ctx.count("unsupported:%s:numpy:%s" % (self.simname, program[-1]["cls"] if program else "preparation"))
            return None
        ref = self.observe(st, depth)
        child = {"numpy": st}
        if program:
            ctx.count("transitions")
        self._eager_modeless = set()
        for impl in self.impls:
            first = impl == GROUP_IMPLS[self.group][0]
            eager_sigs = None if first else self._eager_modeless
            if parent is not None and parent.get(impl) is None:
                ctx.count("impl_diverged_skipped")
                child[impl] = None
                continue
            ist, unsupported, crash = self.execute(impl, step, parent[impl] if parent is not None else None, program)
            if ist is None:
                child[impl] = None
                if unsupported:
                    ctx.count("unsupported_cells")
                    ctx.count("unsupported:%s:%s:%s" % (self.simname, impl, program[-1]["cls"] if program else "preparation"))
                else:
                    _, ml = self.report([crash], impl, program, eager_sigs=eager_sigs)
                    if first:
                        self._eager_modeless |= ml
                continue
            ctx.count("impl_executions")
            got = self.observe(ist, depth)
            issues, unsup, ncmp = _compare_all(L, self.family, ref, got, compiled=False)
            ctx.count("comparisons", ncmp)
            for name, exc in unsup:
                ctx.count("unsupported_cells")
                ctx.count("unsupported:%s:%s:observable:%s" % (self.simname, impl, _obs_base(name)))
            diverged, ml = self.report(issues, impl, program, eager_sigs=eager_sigs)
            if first:
                self._eager_modeless |= ml
            child[impl] = None if diverged else ist
        cmode = COMPILED_OF[self.group]
        cdepth = self.item["cdepth"] if cmode == "jit" else self.item.get("wdepth", -1)
        if len(program) <= cdepth:
            self.compiled(program, ref, cmode)
        return self.state_key(ref), child, ref

    def explore(self):
        ctx, item = self.ctx, self.item
        depth = item["depth"]
        maxd = max(depth, item["cdepth"], item.get("wdepth", -1))
        k, n = item["chunk"]
        res = self.visit([], None, 0)
        if res is None:
            return
        key, root, ref = res
        seen = {key}
        if k == 0:
            ctx.count("states")
            ctx.note_distinct((self.family, self.d, self.cutoff, key))
        frontier = [([], root)]
        for dep in range(1, maxd + 1):
            nxt = []
            for program, tup in frontier:
                for ai, a in enumerate(self.alpha):
                    if dep == 1 and ai % n != k:
                        continue
                    prog = program + [a]
                    if dep > depth:
                        # beyond the lock-step depth only whole-program compiled variants run
                        tup2 = {"numpy": tup["numpy"]}
                        tup2.update({i: None for i in self.impls})
                        saved, self.impls = self.impls, []
                        try:
                            res = self.visit(prog, tup2, dep)
                        finally:
                            self.impls = saved
                    else:
                        res = self.visit(prog, tup, dep)
                    if res is None:
                        continue
                    key, child, ref = res
                    ctx.counters["max_depth"] = max(ctx.counters.get("max_depth", 0), dep)
                    if key not in seen:
                        seen.add(key)
                        ctx.count("states")
                        ctx.note_distinct((self.family, self.d, self.cutoff, key))
                        if dep < maxd:
                            nxt.append((prog, child))
                    else:
                        ctx.count("merged_successors")
            frontier = nxt
        ctx.sample({
            "family": self.family, "d": self.d, "cutoff": self.cutoff, "root": self.root_name, "group": self.group,
            "alphabet": len(self.alpha), "depth": depth, "compiled_depth": max(item["cdepth"], item.get("wdepth", -1)),
            "first_action_chunk": item["chunk"], "distinct_states": len(seen),
            "example_program": self.L.program_text(self.root_name, frontier[0][0] if frontier else (self.alpha[:1])),
        })


# ---------------------------------------------------------------------------------------
# from-scratch re-execution of one recorded case (replay + determinism guard)


def _replay_signatures(ctx, pq, L, case, collect=None):
    """Re-run case["program"] prefix by prefix, each prefix FROM SCRATCH (root preparation
    + prefix in one execute_instructions call / one compiled function) on NumPy and on
    case["impl"]; the first prefix with an issue decides.  Returns the set of signature
    keys found; `collect` receives (signature, message)."""
    family, d, cutoff = case["family"], case["d"], case["cutoff"]
    impl = case["impl"]
    cat = L.Catalogue(ctx.seed)
    root_t = L.roots(family, d, cutoff, "thorough")[case["root"]]
    item = {"family": family, "d": d, "cutoff": cutoff, "root": case["root"], "group": "tf" if impl in ("tf", "tff", "tfw") else "jax",
            "depth": 0, "cdepth": -1, "chunk": [0, 1]}
    ex = _Explorer.__new__(_Explorer)
    import numpy as np

    ex.ctx, ex.item, ex.pq, ex.L, ex.np = ctx, item, pq, L, np
    ex.family, ex.d, ex.cutoff, ex.group = family, d, cutoff, item["group"]
    ex.cat, ex.root_name, ex.root_t = cat, case["root"], root_t
    ex.simname = L.simulator_class(pq, family).__name__
    if family in ("fgauss", "ffock"):
        ex.simname = "fermionic." + ex.simname
    L.get_connector(pq, "numpy")
    if ex.group == "jax":
        L.get_connector(pq, "jax")
    found = set()
    program = case["program"]
    for k in range(len(program) + 1):
        prefix = program[:k]
        compiled = impl in ("jit", "tfw")
        try:
            ref_state = L.run_eager(pq, family, "numpy", d, cutoff, cat, root_t, prefix)
        except Exception:
            return found
        level = 2 if (not compiled or len(prefix) <= 1) else 1
        ref = L.evaluate(L.observe(family, ref_state, d, cutoff, cat, level=level))
        issues = []
        try:
            if impl == "jit":
                got = L.run_jit(pq, family, d, cutoff, cat, root_t, prefix, level=level, traced=True)
            elif impl == "tfw":
                got = L.run_tf_whole(pq, family, d, cutoff, cat, root_t, prefix, level=level)
            else:
                got = L.evaluate(L.observe(family, L.run_eager(pq, family, impl, d, cutoff, cat, root_t, prefix), d, cutoff, cat, level=level))
        except Exception as e:
            name, msg = type(e).__name__, str(e).replace("\n", " ")[:300]
            if _is_refusal(name) or (compiled and _is_compile_error(name, msg)):
                continue
            issues = [("crash", "<execute>", "%s: %s" % (name, msg), name)]
            got = None
        if got is not None:
            issues, _, _ = _compare_all(L, family, ref, got, compiled=compiled)
        if not issues:
            continue
        state_issue = [i for i in issues if i[0] == "value" and i[1] in STATE_OBS[family]]
        chosen = state_issue[:1] if state_issue else issues
        for kind, obs, detail, exc, variants in _group_issues(chosen):
            sig = ex.signature(kind, impl, obs, prefix, exc, variants)
            key = json.dumps(sig, sort_keys=True)
            if key in found:
                continue
            found.add(key)
            if collect is not None:
                collect(sig, "%s | %s %s | %s: %s" % (L.program_text(case["root"], prefix), L.CONNECTOR_NAME[impl], L.MODE_NAME[impl], obs, detail))
        if state_issue or got is None:
            break  # the implementation has diverged / crashed: later prefixes are consequences
    return found


# ---------------------------------------------------------------------------------------
# worker entry points


def work(ctx, item):
    import time

    t0 = time.process_time()
    if item["kind"] == "linalg":
        _work_linalg(ctx, item)
        ctx.count("cpu_s:linalg:%s" % item["connector_family"], round(time.process_time() - t0, 1))
        return
    ex = _Explorer(ctx, item)
    ex.explore()
    ctx.count("cpu_s:%s:d%d:%s" % (item["family"], item["d"], item["group"]), round(time.process_time() - t0, 1))


LINALG_KINDS = {"tf": ["tf", "tffn"], "jax": ["jax", "jaxjit"]}


def _work_linalg(ctx, item, only=None):
    import piquasso as pq

    from mc import c09_linalg as LA
    from mc import c09_lib as L
    from mc import core

    fam, part = item["connector_family"], item["part"]
    if fam == "jax":
        L.get_connector(pq, "jax")

    class _Null:
        def count(self, *a, **k):
            pass

        def note_distinct(self, *a, **k):
            pass

    eager_modeless = set()
    for kind in LINALG_KINDS[fam]:
        compiled = kind != LINALG_KINDS[fam][0]
        if compiled and (part == "assembly" or ctx.tier == "quick"):
            continue  # quick tier: eager connector functions only
        if kind == "tffn" and part == "kernels":
            continue  # every TF kernel entry point raises NotImplementedError (counted under "tf")
        if only is not None and only[0] != kind:
            continue

        def collect_run(counting_ctx):
            found = []
            LA.run_part(counting_ctx, pq, kind, ctx.seed, part, lambda sig_extra, case, msg: found.append((sig_extra, case, msg)))
            return found

        first = collect_run(ctx)
        if first:
            second = collect_run(_Null())
            k1 = sorted(json.dumps([s_, c_], sort_keys=True, default=str) for s_, c_, _ in first)
            k2 = sorted(json.dumps([s_, c_], sort_keys=True, default=str) for s_, c_, _ in second)
            if k1 != k2:
                raise core.HarnessError("HARNESS-NONDETERMINISM C09 linalg %s/%s: two runs reported different violations" % (kind, part))
        R = LA.Runner(pq, kind)
        seen = set()
        for sig_extra, case, msg in first:
            sig = {"check": "C09", "connector": R.connector_name, "mode": R.mode}
            sig.update(sig_extra)
            key = json.dumps(sig, sort_keys=True)
            modeless = json.dumps({k: v for k, v in sig.items() if k != "mode"}, sort_keys=True)
            if only is not None and (case["function"], case["matrix"]) != tuple(only[1:]):
                continue
            if not compiled:
                eager_modeless.add(modeless)
            elif modeless in eager_modeless:
                ctx.count("compiled_issue_same_as_eager")
                continue
            ctx.count("violating_comparisons")
            if key in seen:
                continue
            seen.add(key)
            full = {"kind": "linalg", "connector_family": fam, "connector_kind": kind, "part": part}
            full.update(case)
            ctx.violation(sig, full, msg)
        ctx.sample({"kind": "linalg", "connector": R.connector_name, "mode": R.mode, "part": part, "matrices": len(LA.matrices(ctx.seed))})


def replay(ctx, case, signature):
    import piquasso as pq

    from mc import c09_lib as L

    if case["kind"] == "linalg":
        _work_linalg(ctx, {"connector_family": case["connector_family"], "part": case["part"]},
                     only=(case["connector_kind"], case["function"], case["matrix"]))
        ctx.violations = [v for v in ctx.violations if v.signature == signature] or ctx.violations
        return
    want = json.dumps(signature, sort_keys=True)

    def collect(sig, msg):
        ctx.violation(sig, case, msg)

    _replay_signatures(ctx, pq, L, case, collect=collect)
    same = [v for v in ctx.violations if json.dumps(v.signature, sort_keys=True) == want]
    if same:
        ctx.violations = same
