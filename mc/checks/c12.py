"""C12 -- execution never modifies what the caller passed in, even on failure.

Fault enumeration (DESIGN 2.7, 3/C12).  A *case* is

    (simulator, program over a finite adaptive alphabet, construction variant,
     operation, fault point)

and is executed on the real implementation:

  1. build live objects from the serialisable template (fault probe armed),
  2. snapshot the object graph (mc/c12_snapshot.py),
  3. run the operation (it returns or raises),
  4. snapshot again: must be equal,
  5. run the same objects again (and a third time) fault-free: snapshot still equal and
     the outcome (branches: outcomes, frequencies, states -- or the exception) equals the
     one of objects freshly rebuilt from the template.

Fault points: none; every (instruction position k, stage, branch visit b) with stage in
{condition evaluation, parameter resolution, _validate (user subclass / natively invalid
parameter), simulation-step entry, simulation-step exit}; every line event of the API layer
(sys.settrace, "every crash point").  Separately: every matrix function of the NumPy
connector must leave its array arguments bit-identical (mc/c12_arrays.py).
"""

import json
import random

LEVEL = "fault_enumeration"

MAX_REPORTS_PER_SIGNATURE_PER_ITEM = 2
LINE_PARTS = 4  # the line events of one program are split over this many work items
B_CAP = {"quick": 2, "thorough": 3}  # branch visits 0..cap-1 per (k, stage); all of them for the RICH programs


# ---------------------------------------------------------------------------------------
# items


def _chunks(n, size):
    k = max(1, (n + size - 1) // size)
    return k


def _items(tier):
    from mc import c12_programs as P
    from mc import c12_arrays as A

    items = []
    # numba-compiled kernels first: their first call per array signature JIT-compiles
    for fn in ("hafnian", "loop_hafnian", "permanent"):
        items.append(("arr", fn))
    size = 12 if tier == "quick" else 24
    for sim in P.SIM_ORDER:
        nb = len(P.bodies(tier, sim))
        k = _chunks(nb, size)
        for c in range(k):
            items.append(("prog", sim, c, k))
    for sim in P.SIM_ORDER:
        for body in P.line_bodies(tier, sim):
            for part in range(LINE_PARTS):
                items.append(("line", sim, list(body), "execute", part, LINE_PARTS))
        if tier == "quick":
            if sim == "PureFock":
                items.append(("lineops", sim, list(P.RICH[0]), list(P.OTHER_OPS)))
        else:
            for body in P.RICH:
                items.append(("lineops", sim, list(body), list(P.OTHER_OPS)))
                for op in ("execute_instructions", "execute_initial_state", "simulate"):
                    items.append(("lineops", sim, list(body), [op]))
    for fn in A.FUNCTIONS:
        if ("arr", fn) not in items:
            items.append(("arr", fn))
    return items


def run(ctx, builddir):
    from mc import core

    items = _items(ctx.tier)
    only = getattr(ctx, "only", None)
    if only:
        items = [it for it in items if only in (it[0], it[1]) or only == "%s:%s" % (it[0], it[1])]
    ctx.rule = (
        "programs = prefix + every sequence over the adaptive alphabet {BS, PSs(str param), MZ(str+callable params), "
        "Kc(str condition), PSl(lambda condition), Iall('all modes', callable matrix), Iarr(ndarray param), "
        "M(mid-circuit measurement on modes (3,1) of 4 => later modes are REMAPPED), B1}: quick = every sequence over "
        "{PSs,MZ,Iall,M} up to depth 2 plus four RICH depth-4 programs (Fock simulator: the RICH programs only); thorough = "
        "depth <= 2 over all nine, depth 3 over eight, all depth-4 placements of M among {PSs,MZ,Iall,Kc}; on "
        "PureFock/Fock/Gaussian/Passive simulators; "
        "x construction variant {with-block, instruction list, nested registration} x operation x fault point "
        "(none | every (position, stage, branch visit) | every API-layer line event).  A case is distinct by "
        "(simulator, body, variant, operation, fault point); non-trivial = every case (each one runs the real "
        "implementation and both oracles).  Array part: function x size x dtype x layout assignment."
    )
    ctx.assume(
        "the harness owns the randomness: the shared Config.rng (and Config._random where present) and the global "
        "`random` module are reset to fixed states before every execution; their internal state is excluded from the "
        "snapshot (sharing is deliberate)"
    )
    ctx.assume(
        "random.getstate() is observed around every operation and reported as counters (random_state_changed:<op>); "
        "the statement does not list the global random state among the things left unchanged, so a change is not a violation"
    )
    ctx.assume(
        "line-level fault model: an exception raised by the statement about to run; events on `try:` headers and "
        "(dynamically) inside `finally:` / `except` bodies of the API layer -- i.e. inside the undo code itself -- are not "
        "fault points"
    )
    ctx.assume(
        "params / states / configs are compared by value (arrays: bytes+dtype+shape+strides+flags); identity is only "
        "demanded for the Program.instructions list, its entries, callables and condition objects"
    )
    ctx.assume("re-execution equality tolerance 1e-9 abs+rel on frequencies and state arrays; outcomes exact")
    ctx.assume(
        "branch visits b per (position, stage) are enumerated 0..%d (quick) / 0..%d (thorough), all visits for the "
        "four RICH depth-4 programs" % (B_CAP["quick"] - 1, B_CAP["thorough"] - 1)
    )
    if ctx.tier == "quick":
        ctx.assume(
            "quick tier shrunk to ~3 CPU-minutes: alphabet {PSs,MZ,Iall,M} depth<=2 + 4 RICH programs, line-level faults on one "
            "PureFock program (all operations), arrays up to n=3/4; the thorough tier is a superset"
        )
    core.pmap(ctx, "mc.checks.c12", "work", items, builddir, procs=8 if ctx.tier == "quick" else None)
    c = ctx.counters
    return {
        "evaluations": c.get("cases", 0) + c.get("array_calls", 0),
        "programs": c.get("programs", 0),
        "program_cases": c.get("cases", 0),
        "faulted_runs": c.get("faulted_runs", 0),
        "faults_fired": c.get("faults_fired", 0),
        "stage_fault_cases": c.get("stage_fault_cases", 0),
        "line_fault_cases": c.get("line_fault_cases", 0),
        "line_events_enumerated": c.get("line_events", 0),
        "piquasso_calls": c.get("piquasso_calls", 0),
        "reexecutions_compared": c.get("reexec_compared", 0),
        "natural_failures": c.get("natural_failures", 0),
        "array_calls": c.get("array_calls", 0),
        "unsupported_cells": c.get("array_unsupported", 0),
        "explanation": "evaluations = program cases (one operation on live objects under both oracles) + array-immutability "
        "calls; faulted_runs = cases with an armed fault; faults_fired = those where the fault point was reached; "
        "piquasso_calls = every call into the library (operation, re-executions, fresh references)",
    }


# ---------------------------------------------------------------------------------------
# one program case

_FILES = None


def _files():
    global _FILES
    if _FILES is None:
        from mc import c12_faults as F

        _FILES = F.api_files(extended=True)
    return _FILES


class _State:
    """per-work-item caches / caps"""

    def __init__(self):
        self.fresh = {}
        self.reported = {}


def _call(ctx, env, op):
    from mc import c12_programs as P

    ctx.count("piquasso_calls")
    try:
        return ("ret", P.run_op(env, op))
    except Exception as e:  # noqa: BLE001 - every failure of the library is an outcome
        return ("exc", e)


def _take(env):
    from mc import c12_snapshot as S

    return S.snapshot(
        program=env.program,
        initial_state=env.initial_state,
        config=env.config,
        simulator=env.sim,
        arrays=env.arrays,
    )


def _is_f2(rec):
    return rec[0] == "params" and rec[1].get("became") == "Expression"


def _collect(sigs, recs, phase, stage_class, op, sim, note=""):
    from mc import c12_snapshot as S
    from mc import c12_programs as P

    for rec in recs:
        sub, attrs = rec[0], rec[1]
        sig = {"check": "C12", "sub": "%s_after_%s" % (sub, "fault" if phase == "fault" else "success"), "op_class": P.op_class(op)}
        sig.update(attrs)
        if phase == "fault" and not _is_f2(rec):
            sig["stage"] = stage_class
        if sub in ("initial_state", "config", "simulator_config", "array"):
            sig["simulator"] = sim
        key = json.dumps(sig, sort_keys=True)
        sigs.setdefault(key, (sig, []))[1].append(note + S.describe(rec))


def _fresh_fp(ctx, st, case, rop):
    """fingerprint of `rop` on objects freshly rebuilt from the template (same fault
    structure, disarmed); computed twice on first use (determinism self-check)."""
    from mc import core
    from mc import c12_programs as P
    from mc import c12_faults as F

    fault = case.get("fault")
    struct = None
    if fault and fault.get("kind") == "stage":
        struct = {"kind": "stage", "k": fault["k"], "stage": fault["stage"], "b": None}
    split = rop == "execute_initial_state"
    if struct is not None and (case["op"] == "execute_initial_state") != split:
        struct = None  # k indexes a different list; the disarmed probe is semantically the original
    key = (case["sim"], tuple(case["body"]), rop, json.dumps(struct, sort_keys=True))
    fp = st.fresh.get(key)
    if fp is not None:
        return fp
    cat = P.catalogue(ctx.seed)
    tpl = P.template(case["sim"], case["body"], cat)
    fps = []
    for _ in range(2):
        env = P.build(tpl, cat, struct, "with", split, seed=ctx.seed)
        P.restore_rng(env)
        fps.append(P.fingerprint(_call(ctx, env, rop)))
        F.reset_probes()
    d = P.compare_fp(fps[0], fps[1], tol=0.0)
    if d is not None:
        raise core.HarnessError("HARNESS-NONDETERMINISM C12 fresh reference of %s/%s differs between two builds: %s" % (case["sim"], case["body"], d))
    st.fresh[key] = fps[0]
    return fps[0]


def _exec_case(ctx, st, case):
    """Run one case; returns {"fired", "status", "sigs": {key: (sig, [details])}, "loc"}."""
    from mc import c12_programs as P
    from mc import c12_faults as F
    from mc import c12_snapshot as S

    cat = P.catalogue(ctx.seed)
    sim, body, op = case["sim"], case["body"], case["op"]
    variant = case.get("variant", "with")
    fault = case.get("fault")
    tpl = P.template(sim, body, cat)
    split = op in P.SPLIT_OPS
    F.reset_probes()
    env = P.build(tpl, cat, fault, variant, split, seed=ctx.seed)
    sigs = {}
    before = _take(env)
    P.restore_rng(env)
    r0 = random.getstate()
    loc = None
    if fault and fault["kind"] == "line":
        inj = F.LineInjector(_files(), fail_at=fault["n"])
        with inj:
            outcome = _call(ctx, env, op)
        fired = inj.fired is not None
        loc = inj.fired
        stage_class = "line"
    elif fault:
        outcome = _call(ctx, env, op)
        fired = any(p.fired for p in env.probes)
        stage_class = P.STAGE_CLASS[fault["stage"]]
    else:
        outcome = _call(ctx, env, op)
        fired = False
        stage_class = "natural"
    if random.getstate() != r0:
        ctx.count("random_state_changed:" + op)
    after = _take(env)
    P.disarm(env)
    if fault and not fired:
        # the fault point does not exist in this run (enumeration bound reached)
        F.reset_probes()
        _reset_library_context()
        return {"fired": False, "status": outcome[0], "sigs": {}, "loc": None}
    raised = outcome[0] == "exc"
    if raised and not fired:
        ctx.count("natural_failures")
        stage_class = "natural"
    phase = "fault" if raised else "success"
    recs = S.classify(S.diff(before, after))
    _collect(sigs, recs, phase, stage_class, op, sim)
    semantic = any(not _is_f2(r) for r in recs)
    # --- repeated execution on the SAME objects
    rop = P.reexec_op(op)
    n_re = 2 if (fault is None or (ctx.tier != "quick" and fault.get("b", 1) == 0)) else 1
    prev = after
    fresh = _fresh_fp(ctx, st, case, rop)
    if fault is None and op in P.EXEC_OPS:
        d = P.compare_fp(P.fingerprint(outcome), fresh)
        if d is not None:
            sg = {"check": "C12", "sub": "first_execution_differs_from_fresh", "simulator": sim, "op": op}
            sigs.setdefault(json.dumps(sg, sort_keys=True), (sg, []))[1].append(d)
    for i in range(n_re):
        P.restore_rng(env)
        out_i = _call(ctx, env, rop)
        snap_i = _take(env)
        # deviations from the ORIGINAL objects that this execution introduced (a deviation that
        # merely persists was reported above; one that this run repaired is not a deviation)
        recs_i = S.classify([d for d in S.diff(before, snap_i) if prev.get(d[0]) != snap_i.get(d[0])])
        ph_i = "fault" if out_i[0] == "exc" else "success"
        _collect(sigs, recs_i, ph_i, "natural", rop, sim, note="[execution %d] " % (i + 2))
        semantic = semantic or any(not _is_f2(r) for r in recs_i)
        prev = snap_i
        ctx.count("reexec_compared")
        d = P.compare_fp(P.fingerprint(out_i), fresh)
        if d is not None:
            if semantic:
                # consequence of the snapshot violation already reported for this case
                for key in sigs:
                    sigs[key][1].append("[consequence] execution %d on the same objects: %s" % (i + 2, d))
                ctx.count("reexec_differs_explained_by_snapshot")
            else:
                sg = {
                    "check": "C12",
                    "sub": "reexecution_differs",
                    "simulator": sim,
                    "op_class": P.op_class(op),
                    "after": "fault" if raised else "success",
                }
                if raised:
                    sg["stage"] = stage_class
                sigs.setdefault(json.dumps(sg, sort_keys=True), (sg, []))[1].append("execution %d: %s" % (i + 2, d))
    bad = P.catalogue_intact(cat)
    if bad:
        sg = {"check": "C12", "sub": "array_mutated", "function": "simulation", "argument": "resolved_matrix", "simulator": sim}
        sigs.setdefault(json.dumps(sg, sort_keys=True), (sg, []))[1].append("catalogue arrays returned by a callable parameter were modified: %s" % bad)
        for k in bad:  # repair for the following cases
            cat["arrays"][k].flags.writeable = True
            cat["arrays"][k][...] = cat["pristine"][k]
    F.reset_probes()
    _reset_library_context()
    return {"fired": fired, "status": outcome[0], "sigs": sigs, "loc": loc, "exc": type(outcome[1]).__name__ if raised else None}


def _reset_library_context():
    """A fault injected inside Program.__exit__ leaves the program on piquasso's global
    `with`-stack; drop it so that cases stay independent."""
    from piquasso.core import _context

    del _context.program_stack[:]


def _case_key(case):
    return json.dumps(case, sort_keys=True)


def _run_and_report(ctx, st, case):
    from mc import core

    res = _exec_case(ctx, st, case)
    fault = case.get("fault")
    ctx.count("cases")
    ctx.count("cases_op:" + case["op"])
    if fault:
        ctx.count("faulted_runs")
        if res["fired"]:
            ctx.count("faults_fired")
            ctx.count("fault_fired:" + (fault["stage"] if fault["kind"] == "stage" else "line"))
            if res["status"] == "ret":
                ctx.count("faults_swallowed_by_library")
    if not fault or res["fired"]:
        ctx.note_distinct(_case_key(case))
    if res["sigs"]:
        todo = []
        for key, (sig, details) in sorted(res["sigs"].items()):
            n = st.reported.get(key, 0)
            st.reported[key] = n + 1
            if n < MAX_REPORTS_PER_SIGNATURE_PER_ITEM:
                todo.append((key, sig, details))
            else:
                ctx.count("violations_not_itemised")
        if todo:
            again = _exec_case(ctx, st, case)
            if sorted(again["sigs"]) != sorted(res["sigs"]):
                raise core.HarnessError(
                    "HARNESS-NONDETERMINISM C12 case %s: first run %s, second run %s" % (_case_key(case), sorted(res["sigs"]), sorted(again["sigs"]))
                )
            for key, sig, details in todo:
                msg = "%s %s op=%s variant=%s fault=%s -> %s%s\n%s" % (
                    case["sim"],
                    "-".join(case["body"]) or "empty",
                    case["op"],
                    case.get("variant", "with"),
                    json.dumps(fault, sort_keys=True),
                    "raised " + str(res.get("exc")) if res["status"] == "exc" else "returned",
                    (" at %s:%s (%s)" % tuple(res["loc"])) if res.get("loc") else "",
                    "\n".join(details[:8]),
                )
                ctx.violation(sig, dict(case, kind="program"), msg)
    return res


# ---------------------------------------------------------------------------------------
# work items


def work(ctx, item):
    kind = item[0]
    if kind == "prog":
        _work_prog(ctx, item)
    elif kind == "line":
        _work_line(ctx, item[1], item[2], [item[3]], item[4], item[5])
    elif kind == "lineops":
        _work_line(ctx, item[1], item[2], item[3])
    elif kind == "arr":
        _work_arr(ctx, item[1])
    else:
        raise KeyError(kind)


def _work_prog(ctx, item):
    from mc import c12_programs as P

    _, sim, c, k = item
    st = _State()
    cat = P.catalogue(ctx.seed)
    allb = P.bodies(ctx.tier, sim)
    mine = [b for i, b in enumerate(allb) if i % k == c]
    bcap = B_CAP[ctx.tier]
    for body in mine:
        ctx.count("programs")
        rich = body in P.RICH
        tpl = P.template(sim, body, cat)
        # fault-free: every operation, every construction variant
        for variant in ("with", "list", "nested"):
            _run_and_report(ctx, st, {"sim": sim, "body": body, "op": "execute", "variant": variant, "fault": None})
        for op in ("execute_instructions", "execute_initial_state", "simulate") + P.OTHER_OPS:
            _run_and_report(ctx, st, {"sim": sim, "body": body, "op": op, "variant": "list" if op == "execute_instructions" else "with", "fault": None})
        # stage faults
        for op in ("execute", "execute_initial_state"):
            specs = tpl["body"] if op == "execute_initial_state" else tpl["prefix"] + tpl["body"]
            if op == "execute_initial_state" and not (rich or (ctx.tier != "quick" and len(body) <= 2)):
                continue
            for kpos, spec in enumerate(specs):
                for stage in P.STAGES:
                    if not P.fault_applicable(spec, stage):
                        ctx.count("stage_inapplicable")
                        continue
                    b = 0
                    while True:
                        case = {
                            "sim": sim,
                            "body": body,
                            "op": op,
                            "variant": "with",
                            "fault": {"kind": "stage", "k": kpos, "stage": stage, "b": b},
                        }
                        res = _run_and_report(ctx, st, case)
                        ctx.count("stage_fault_cases")
                        if not res["fired"]:
                            ctx.count("stage_fault_not_reached")
                            break
                        b += 1
                        if b >= (16 if rich and op == "execute" else (bcap if op == "execute" else 1)):
                            break
        if rich or len(body) <= 1:
            # pq.simulate picks the simulator class itself: only faults that live in the program
            specs = tpl["prefix"] + tpl["body"]
            for kpos, spec in enumerate(specs):
                for stage in ("condition", "param"):
                    if not P.fault_applicable(spec, stage):
                        continue
                    case = {"sim": sim, "body": body, "op": "simulate", "variant": "with", "fault": {"kind": "stage", "k": kpos, "stage": stage, "b": 0}}
                    _run_and_report(ctx, st, case)
                    ctx.count("stage_fault_cases")
    if mine:
        ctx.sample({"kind": "prog", "simulator": sim, "body": mine[-1], "template": P.template(sim, mine[-1], cat)["body"]})


def _work_line(ctx, sim, body, ops, part=0, nparts=1):
    from mc import core
    from mc import c12_programs as P
    from mc import c12_faults as F

    st = _State()
    cat = P.catalogue(ctx.seed)
    tpl = P.template(sim, body, cat)
    for op in ops:
        split = op in P.SPLIT_OPS
        # counting run: the line events of the fault-free operation
        counts = []
        for _ in range(2):
            F.reset_probes()
            env = P.build(tpl, cat, None, "with", split, seed=ctx.seed)
            P.restore_rng(env)
            inj = F.LineInjector(_files(), fail_at=None, record=True)
            with inj:
                _call(ctx, env, op)
            counts.append(list(inj.locs))
        if counts[0] != counts[1]:
            raise core.HarnessError("HARNESS-NONDETERMINISM C12 line events of %s/%s/%s differ between two fault-free runs" % (sim, body, op))
        locs = counts[0]
        if part == 0:
            ctx.count("line_programs")
            ctx.count("line_events", len(locs))
        ctx.counters["max_line_events_per_run"] = max(ctx.counters.get("max_line_events_per_run", 0), len(locs))
        for n in range(1 + part, len(locs) + 1, nparts):
            case = {"sim": sim, "body": body, "op": op, "variant": "with", "fault": {"kind": "line", "n": n}}
            res = _run_and_report(ctx, st, case)
            ctx.count("line_fault_cases")
            if not res["fired"]:
                raise core.HarnessError("HARNESS-NONDETERMINISM C12 line event %d of %d not reached (%s/%s/%s)" % (n, len(locs), sim, body, op))
            if tuple(res["loc"][:2]) != tuple(locs[n - 1]):
                ctx.count("line_event_location_divergence")
        if part == 0:
            ctx.sample({"kind": "line", "simulator": sim, "body": body, "op": op, "line_events": len(locs), "distinct_lines": len(set(locs))})


def _work_arr(ctx, fn):
    from mc import core
    from mc import c12_arrays as A

    reported = {}
    cases = A.cases(fn, ctx.tier)
    if ctx.tier == "quick" and fn in ("hafnian", "loop_hafnian"):
        # every new (dtype, layout, readonly) combination is a separate numba compilation (~15 s cold)
        keep = {"C", "F", "strided", "readonly"}
        cases = [c for c in cases if c["dtype"] == "complex128" and set(c["layouts"]) <= keep and c["layouts"][1:].count("strided") == 0]
    for case in cases:
        status, problems = A.run_case(case, ctx.seed)
        ctx.count("array_calls")
        ctx.count("array_status:" + status.split(":")[0])
        if status.startswith("unsupported"):
            ctx.count("array_unsupported")
        ctx.note_distinct(("arr", fn, case["n"], case["dtype"], tuple(case["layouts"])))
        for sub, arg, detail in problems:
            sig = {"check": "C12", "sub": sub, "function": fn, "argument": arg}
            key = json.dumps(sig, sort_keys=True)
            reported[key] = reported.get(key, 0) + 1
            if reported[key] > MAX_REPORTS_PER_SIGNATURE_PER_ITEM:
                ctx.count("violations_not_itemised")
                continue
            status2, problems2 = A.run_case(case, ctx.seed)
            if sorted(p[:2] for p in problems2) != sorted(p[:2] for p in problems):
                raise core.HarnessError("HARNESS-NONDETERMINISM C12 array case %s" % (case,))
            ctx.violation(sig, dict(case, kind="array"), "%s(n=%d, %s, layouts=%s): %s" % (fn, case["n"], case["dtype"], case["layouts"], detail))
    ctx.sample({"kind": "array", "function": fn, "calls": len(cases)})


# ---------------------------------------------------------------------------------------
# replay


def replay(ctx, case, signature):
    case = dict(case)
    kind = case.pop("kind", "program")
    want = json.dumps(signature, sort_keys=True) if signature else None
    if kind == "array":
        from mc import c12_arrays as A

        status, problems = A.run_case(case, ctx.seed)
        for sub, arg, detail in problems:
            sig = {"check": "C12", "sub": sub, "function": case["fn"], "argument": arg}
            if want is None or json.dumps(sig, sort_keys=True) == want:
                ctx.violation(sig, dict(case, kind="array"), detail)
        return
    st = _State()
    res = _exec_case(ctx, st, case)
    for key, (sig, details) in sorted(res["sigs"].items()):
        if want is None or key == want:
            ctx.violation(sig, dict(case, kind="program"), "\n".join(details[:8]))
