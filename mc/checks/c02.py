"""C02 -- measurement samples follow the Born rule of the measured state.

Probabilistic path exploration (DESIGN 2.6): every sampler is executed through
``simulator.execute(program, shots)`` under a harness-owned RNG (mc/choice.py); every
execution path is enumerated with its exact probability; the sum of path probabilities per
returned sample tuple is the sampler's exact output law, compared with an independent exact
law (mc/refmodel/bornlaw.py, gaussmeas.py, fockdense.py).

Sub-explorations (usable with --only): passive_lossless, passive_loss, passive_postselect,
passive_overlap, fock_pnm, gauss_threshold, gauss_dyne, gauss_pnm, fermionic_pnm,
fock_homodyne.
"""

import itertools
import json
import math

LEVEL = "model_checking"

SUBS = (
    "passive_lossless",
    "passive_loss",
    "passive_postselect",
    "passive_overlap",
    "fock_pnm",
    "gauss_threshold",
    "gauss_dyne",
    "gauss_pnm",
    "fermionic_pnm",
    "fock_homodyne",
)

ATOL = 1e-9


# =======================================================================================
# deterministic "generic" values (VERIF_SEED only changes this catalogue)


def _generic_unitary(d, seed, idx):
    import numpy as np
    from scipy.linalg import expm

    H = np.zeros((d, d), dtype=complex)
    for j in range(d):
        for k in range(d):
            x = 1.0 + 0.37 * seed + 1.3 * j + 2.1 * k + 0.71 * idx
            H[j, k] = math.sin(x) + 1j * math.cos(1.7 * x + 0.3)
    H = (H + H.conj().T) / 2
    return expm(1j * H)


def _c2j(M):
    import numpy as np

    M = np.asarray(M)
    return {"re": M.real.tolist(), "im": (M.imag.tolist() if np.iscomplexobj(M) else np.zeros(M.shape).tolist())}


def _j2c(J):
    import numpy as np

    return np.array(J["re"], dtype=float) + 1j * np.array(J["im"], dtype=float)


def _ordered_subsets(d, include_full_permutations=True):
    out = []
    for k in range(1, d + 1):
        for comb in itertools.combinations(range(d), k):
            perms = list(itertools.permutations(comb))
            if k == d and not include_full_permutations:
                perms = [comb]
            out += perms
    return out


# =======================================================================================
# case generation


def _passive_cases(tier, seed, sub):
    cases = []
    quick = tier == "quick"

    def add(**kw):
        c = dict(
            family="passive", sub=sub, shots=1, loss=None, postselect=None, overlap=None, K=None,
            force_marginal=None,
        )
        c.update(kw)
        cases.append(c)

    if sub == "passive_lossless":
        inputs = {
            2: [[1, 1], [2, 1]],
            3: [[1, 1, 0], [2, 1, 0], [1, 1, 1], [0, 3, 0]],
        }
        if not quick:
            inputs[2] += [[2, 2], [0, 4]]
            inputs[3] += [[2, 0, 2], [1, 2, 1], [0, 1, 3]]
            inputs[4] = [[1, 1, 0, 0], [1, 0, 2, 0], [1, 1, 1, 0], [0, 2, 0, 1]]
        for d, inps in sorted(inputs.items()):
            for ii, inp in enumerate(inps):
                U = _generic_unitary(d, seed, ii)
                subsets = _ordered_subsets(d)
                if d == 4:
                    subsets = [s for s in subsets if len(s) <= 2 or list(s) == sorted(s) or s[0] == max(s)]
                for modes in subsets:
                    full = len(modes) == d
                    for fm in ([None] if full else [True, False]):
                        if quick and d == 3 and sum(inp) == 3 and not full and fm is False and list(modes) != sorted(modes) and ii > 1:
                            continue
                        add(d=d, input=inp, U=_c2j(U), measured=list(modes), force_marginal=fm)
        # independence of shots / per-shot seeds on the smallest cases
        U = _generic_unitary(2, seed, 7)
        add(d=2, input=[1, 1], U=_c2j(U), measured=[0, 1], shots=2)
        add(d=2, input=[2, 0], U=_c2j(U), measured=[1], shots=2, force_marginal=True)
        add(d=2, input=[2, 0], U=_c2j(U), measured=[1], shots=2, force_marginal=False)

    elif sub == "passive_loss":
        ts = [0.8] if quick else [0.8, 0.35]
        inputs = {2: [[1, 1], [2, 1]], 3: [[1, 1, 0], [2, 1, 0]]}
        if not quick:
            inputs[3] += [[1, 1, 1], [0, 3, 0]]
        for d, inps in sorted(inputs.items()):
            for ii, inp in enumerate(inps):
                U = _generic_unitary(d, seed, 10 + ii)
                subsets = [tuple(range(d))] + [s for s in _ordered_subsets(d) if len(s) < d]
                if quick:
                    subsets = [s for s in subsets if len(s) == d or len(s) == 1 or s in ((1, 0), (2, 0))]
                for t in ts:
                    for modes in subsets:
                        full = len(modes) == d
                        for fm in ([None] if full else [True, False]):
                            add(d=d, input=inp, U=_c2j(U), measured=list(modes), force_marginal=fm,
                                loss={"kind": "uniform", "t": t})
                # non-uniform loss: per-mode Loss after the interferometer, and a lossy matrix
                tl = [0.9, 0.6, 0.75, 0.5][:d]
                for modes in subsets:
                    add(d=d, input=inp, U=_c2j(U), measured=list(modes), loss={"kind": "modes", "t": tl})
                if not quick or ii == 0:
                    V = _generic_unitary(d, seed, 20 + ii)
                    import numpy as np

                    A = V @ np.diag([0.95, 0.55, 0.8, 0.3][:d]) @ _generic_unitary(d, seed, 30 + ii)
                    for modes in subsets:
                        add(d=d, input=inp, U=_c2j(U), measured=list(modes), loss={"kind": "matrix", "A": _c2j(A)})
        U = _generic_unitary(2, seed, 17)
        add(d=2, input=[1, 1], U=_c2j(U), measured=[0, 1], shots=2, loss={"kind": "uniform", "t": 0.7})

    elif sub == "passive_postselect":
        Ks = [2, 1] if quick else [3, 2, 1]
        budget = 400 if quick else 5000
        inputs = {2: [[1, 1], [2, 1]], 3: [[1, 1, 0], [2, 1, 0], [1, 1, 1]]}
        if not quick:
            inputs[3] += [[0, 3, 0]]
        for d, inps in sorted(inputs.items()):
            for ii, inp in enumerate(inps):
                n = sum(inp)
                U = _generic_unitary(d, seed, 40 + ii)
                for k in range(1, d):
                    for psm in itertools.combinations(range(d), k):
                        patterns = [c for c in itertools.product(range(n + 1), repeat=k) if sum(c) <= n]
                        if quick:
                            keep = [c for c in patterns if sum(c) in (1, n)][:3] + [(0,) * k]
                            patterns = [c for c in patterns if c in keep]
                        for psc in patterns:
                            rest = d - k
                            msets = [tuple(range(rest))]
                            if rest >= 2:
                                msets += [(0,), (1, 0)] if quick else [s for s in _ordered_subsets(rest) if len(s) < rest or list(s) != sorted(s)]
                            for modes in msets:
                                full = len(modes) == rest
                                for loss in (None, {"kind": "uniform", "t": 0.8}, {"kind": "modes", "t": [0.9, 0.6, 0.75][:d]}):
                                    nonuniform = loss is not None and loss["kind"] == "modes"
                                    for fm in ([None] if (full or nonuniform) else [True, False]):
                                        _add_budgeted(add, budget, Ks, d=d, input=inp, U=_c2j(U), measured=list(modes), force_marginal=fm,
                                                      postselect={"modes": list(psm), "counts": list(psc)}, loss=loss)

    elif sub == "passive_overlap":
        import numpy as np

        xs = [0.0, 0.4, 1.0]
        budget = 700 if quick else 6000
        Ks = [2, 1] if quick else [3, 2, 1]
        inputs = {2: [[1, 1], [2, 1]], 3: [[1, 1, 0], [2, 1, 0], [1, 1, 1]]}
        for d, inps in sorted(inputs.items()):
            for ii, inp in enumerate(inps):
                n = sum(inp)
                U = _generic_unitary(d, seed, 60 + ii)
                for x in xs:
                    msets = [tuple(range(d))] + ([(0,), (d - 1, 0)] if quick else [s for s in _ordered_subsets(d) if len(s) < d])
                    for modes in msets:
                        full = len(modes) == d
                        for loss in (None, {"kind": "uniform", "t": 0.8}, {"kind": "modes", "t": [0.9, 0.6, 0.75][:d]}):
                            nonuniform = loss is not None and loss["kind"] == "modes"
                            if loss is not None and (not full) and quick:
                                continue
                            for fm in ([None] if (full or nonuniform) else [True, False]):
                                _add_budgeted(add, budget, [None], d=d, input=inp, U=_c2j(U), measured=list(modes), force_marginal=fm,
                                              overlap={"kind": "uniform", "x": x}, loss=loss)
                    # uniform overlap with post-selection (F14's sampler)
                    for k in range(1, d):
                        for psm in itertools.combinations(range(d), k):
                            if quick and psm not in ((0,), (d - 1,), (0, 1)):
                                continue
                            patterns = [c for c in itertools.product(range(n + 1), repeat=k) if sum(c) <= n]
                            if quick:
                                patterns = [c for c in patterns if sum(c) in (1, 2)][:3]
                            for psc in patterns:
                                for loss in (None, {"kind": "uniform", "t": 0.8}):
                                    if loss is not None and quick and x != 0.4:
                                        continue
                                    _add_budgeted(add, budget, Ks, d=d, input=inp, U=_c2j(U), measured=list(range(d - k)),
                                                  overlap={"kind": "uniform", "x": x}, loss=loss,
                                                  postselect={"modes": list(psm), "counts": list(psc)})
                # Gram matrices: real symmetric and complex Hermitian (documented G[i,j]=<phi_i|phi_j>)
                for gi, G in enumerate(_gram_catalogue(n, seed)):
                    if quick and gi == 1:
                        continue
                    for loss in (None, {"kind": "modes", "t": [0.9, 0.6, 0.75][:d]}):
                        for ps in (None, {"modes": [0], "counts": [1]}):
                            rest = d - (0 if ps is None else 1)
                            msets = [tuple(range(rest))] + ([(rest - 1,)] if rest > 1 else [])
                            for modes in msets:
                                full = len(modes) == rest
                                for fm in ([None] if (full or loss is not None) else [True, False]):
                                    add(d=d, input=inp, U=_c2j(U), measured=list(modes), loss=loss, postselect=ps, force_marginal=fm,
                                        K=(None if ps is None else 2), overlap={"kind": "gram", "G": _c2j(G), "complex": bool(np.abs(G.imag).max() > 0)})
    return cases


def _est_paths(case):
    """Rough upper estimate of the number of execution paths of a passive case (used only to
    pick the trial bound K and to drop cells that do not fit the tier's budget; dropped cells
    are counted in the evidence)."""
    n = sum(case["input"])
    d = case["d"]
    site = _passive_site(case)
    if site == "generate_marginal_samples":
        per, trials = (n + 1) ** len(case["measured"]), False
    elif site == "generate_lossy_and_partially_distinguishable_samples":
        per, trials = math.comb(n + d, d), False
    elif site == "generate_lossy_samples":
        per, trials = math.factorial(n) * (2 * d) ** n, True
    else:
        per, trials = math.factorial(n) * d ** n, True
        if case["loss"] is not None:
            per *= 2 ** n
        if case["overlap"] is not None and 0.0 < case["overlap"].get("x", 1.0) < 1.0:
            per *= 2 ** n
    if case["postselect"] is not None and trials and case["K"]:
        per = per ** case["K"]
    return per ** case["shots"]


_DROPPED = {}


def _add_budgeted(add, budget, Ks, **kw):
    for K in Ks:
        probe = dict(family="passive", shots=1, loss=None, postselect=None, overlap=None, K=K, force_marginal=None)
        probe.update(kw)
        probe["K"] = K if probe["postselect"] is not None else None
        if _est_paths(probe) <= budget:
            add(**dict(kw, K=probe["K"]))
            return
    _DROPPED["over_budget"] = _DROPPED.get("over_budget", 0) + 1


def _gram_catalogue(n, seed):
    """Gram matrices of n labelled photons: G = C+ C with unit columns."""
    import numpy as np

    out = []
    for variant in range(3):
        C = np.zeros((n, n), dtype=complex)
        for r in range(n):
            for k in range(n):
                x = 0.9 + 0.41 * seed + 1.1 * r + 0.77 * k + 0.5 * variant
                C[r, k] = math.cos(x) + (1j * math.sin(2.3 * x) if variant == 2 else 0.0)
        C = C + 1.5 * np.eye(n)
        C = C / np.linalg.norm(C, axis=0, keepdims=True)
        G = C.conj().T @ C
        if variant < 2:
            G = G.real.astype(complex)
        out.append(G)
    return out


def _all_cases(tier, seed, only=None):
    cases = []
    for sub in SUBS:
        if only and sub != only:
            continue
        if sub.startswith("passive_"):
            cs = _passive_cases(tier, seed, sub)
        else:
            from mc import c02_more

            cs = c02_more.cases(tier, seed, sub)
        for i, c in enumerate(cs):
            c["id"] = "%s#%d" % (sub, i)
        cases += cs
    return cases


# =======================================================================================
# runner interface


def run(ctx, builddir):
    from mc import core

    only = getattr(ctx, "only", None)
    if only and only not in SUBS:
        raise core.HarnessError("unknown sub-exploration %r (choose from %s)" % (only, ", ".join(SUBS)))
    _DROPPED.clear()
    cases = _all_cases(ctx.tier, ctx.seed, only)
    if _DROPPED.get("over_budget"):
        ctx.count("cells_over_path_budget_not_explored", _DROPPED["over_budget"])
        ctx.assume("cells of the feature matrix whose estimated path count exceeds the tier's per-case budget are not explored (counted in cells_over_path_budget_not_explored); the trial bound K is the largest of the tier's list that fits the budget")
    # cost-balanced chunks: sort by family so that a worker JIT-compiles few kernels
    chunks = []
    by_sub = {}
    for c in cases:
        by_sub.setdefault(c["sub"], []).append(c)
    for sub in SUBS:
        cs = by_sub.get(sub, [])
        nchunks = max(1, min(len(cs), 16 if len(cs) >= 64 else 4))
        for k in range(nchunks):
            part = cs[k::nchunks]
            if part:
                chunks.append((sub, part))
    ctx.rule = (
        "one case = one (simulator, program, measured ordered mode tuple, shots) cell of the sampler x feature matrix; "
        "for each case EVERY execution path of simulator.execute under the harness-owned RNG is enumerated by prefix "
        "replay with its exact probability; distinct = distinct case descriptions; non-trivial = at least one choice "
        "point met (asserted) and at least two outcomes in the reference law"
    )
    ctx.assume("law comparison tolerance |sum of path probabilities - exact law| <= 1e-9 per outcome; explored mass = 1 +- 1e-9")
    ctx.assume("post-selected samplers are made finite with Config.max_sample_generation_trials = K; the law is compared conditional on success")
    ctx.assume("generic interferometers = expm(i H(seed)), deterministic functions of VERIF_SEED; NumPy's multivariate_normal is trusted: its recorded arguments are the law")
    _selftest(ctx)
    core.pmap(ctx, "mc.checks.c02", "work", chunks, builddir)
    c = ctx.counters
    return {
        "states": c.get("states", 0),
        "transitions": c.get("transitions", 0),
        "traces_validated_against_impl": c.get("paths", 0),
        "paths": c.get("paths", 0),
        "cases": c.get("cases", 0),
        "distinct_outcomes": c.get("distinct_outcomes", 0),
        "unsupported_cells": c.get("unsupported_cells", 0),
        "max_depth": c.get("max_depth", 0),
        "explanation": "states = distinct choice prefixes (internal nodes + leaves of the choice trees); transitions = "
        "alternatives of all choice points met; traces = complete executions of simulator.execute on the implementation, "
        "each with its exact probability, summed per outcome and compared with the independent exact law",
    }


def _selftest(ctx):
    """Harness self-test (exit 2 on failure, never a violation): the path explorer on a toy
    program with a known law, the UNCAPTURED guard, and the two independent implementations of
    the partial-distinguishability law."""
    import random

    import numpy as np

    from mc import core
    from mc.choice import ChoiceController, SymU
    from mc.refmodel import bornlaw as B

    ctl = ChoiceController()

    def toy():
        u = SymU(ctl, label="toy")
        a = 0 if u < 0.25 else (1 if u < 0.75 else 2)      # 1/4, 1/2, 1/4
        b = ctl.choose([0.0, 0.3, 0.7], label="toy-choice")  # 1 or 2
        v = SymU(ctl, label="toy2")
        c = 1 if 0.9 <= v else 0
        return (a, b, c)

    ex = ctl.explore(toy)
    law = ex.law()
    want = {}
    for a, pa in enumerate((0.25, 0.5, 0.25)):
        for b, pb in ((1, 0.3), (2, 0.7)):
            for c, pc in ((0, 0.9), (1, 0.1)):
                want[(a, b, c)] = pa * pb * pc
    if ex.n_paths != 12 or abs(ex.mass - 1) > 1e-12 or B.compare_laws(law, want)[0] > 1e-12:
        raise core.HarnessError("HARNESS-SELFTEST path explorer: %d paths, mass %r, law %r" % (ex.n_paths, ex.mass, law))
    try:
        ctl.run(toy, prefix=(0, 5))
    except core.HarnessError:
        pass
    else:
        raise core.HarnessError("HARNESS-SELFTEST an out-of-range choice was accepted")

    # UNCAPTURED guard: a seam that bypasses the owned generators must fail loudly
    from mc.choice import owned_randomness

    def bypass():
        try:
            return random.randint(0, 3)
        except Exception:
            return -1  # even if library code swallows the exception ...

    try:
        with owned_randomness(ctl):
            ctl.run(bypass)
    except core.HarnessError as e:
        if "HARNESS-UNCAPTURED" not in str(e):
            raise
    else:
        raise core.HarnessError("HARNESS-SELFTEST the UNCAPTURED guard did not fire")

    # reference models: permutation sum == explicit internal modes, lossy, complex Gram, bunched input
    U = B.unitary_dilation(np.diag([0.9, 0.6]) @ _generic_unitary(2, ctx.seed, 3))
    G = _gram_catalogue(3, ctx.seed)[2]
    l1 = B.permutation_sum_law(U, (2, 1, 0, 0), G)
    l2, total = B.internal_mode_law(U, (2, 1, 0, 0), G)
    if B.compare_laws(l1, l2)[0] > 1e-12 or abs(total - B.input_norm([0, 0, 1], G)) > 1e-12 or abs(sum(l1.values()) - 1) > 1e-12:
        raise core.HarnessError("HARNESS-SELFTEST permutation-sum law != internal-mode law (%g)" % B.compare_laws(l1, l2)[0])
    l3 = B.lossy_law(np.diag([0.9, 0.6]) @ _generic_unitary(2, ctx.seed, 3), (2, 1), B.uniform_gram(3, 0.0))
    l4 = B.classical_law(np.diag([0.9, 0.6]) @ _generic_unitary(2, ctx.seed, 3), (2, 1))
    if B.compare_laws(l3, l4)[0] > 1e-12:
        raise core.HarnessError("HARNESS-SELFTEST overlap-0 law != classical multinomial law")
    ctx.count("selftests", 4)


def work(ctx, item):
    sub, cases = item
    for case in cases:
        check_case(ctx, case)


def replay(ctx, case, signature):
    check_case(ctx, case["case"])


# =======================================================================================
# one case


def check_case(ctx, case):
    if case["family"] == "passive":
        return _check_passive(ctx, case)
    from mc import c02_more

    return c02_more.check_case(ctx, case)


def _sig(case, site, oracle, **extra):
    s = {"check": "C02", "sub": case["sub"], "site": site, "oracle": oracle}
    s.update(extra)
    return s


def explore_case(ctx, case, fn, controller=None, **own):
    """Enumerate every path of fn under owned randomness; returns the Exploration.  Counts
    coverage; asserts capture (>=1 choice point unless allow_deterministic)."""
    from mc import core
    from mc.choice import ChoiceController, owned_randomness

    ctl = controller or ChoiceController(max_paths=own.pop("max_paths", 400000))
    with owned_randomness(ctl, **own):
        ex = ctl.explore(fn)
    if not ex.complete:
        raise core.HarnessError("HARNESS-CAP exploration of case %s was cut (%s, pruned mass %g)" % (case.get("id"), ex.cap_reasons, ex.pruned_mass))
    if getattr(ctx, "_c02_recheck", False):
        # second run of a violating case (determinism discipline): not counted as coverage
        ctx.count("recheck_paths", ex.n_paths)
        return ex
    ctx.count("cases")
    ctx.count("paths", ex.n_paths)
    ctx.count("states", ex.n_states)
    ctx.count("transitions", ex.n_edges)
    ctx.count("choice_points", ex.n_choice_points)
    ctx.counters["max_depth"] = max(ctx.counters.get("max_depth", 0), ex.max_depth)
    ctx.count("paths:" + case["sub"], ex.n_paths)
    ctx.count("cases:" + case["sub"])
    return ex


def _passive_site(case):
    ps = case["postselect"] is not None
    ov = case["overlap"]
    loss = case["loss"]
    nonuniform = loss is not None and loss["kind"] in ("modes", "matrix")
    if case["force_marginal"] is True and not nonuniform:
        return "generate_marginal_samples"
    if ov is not None and (ov["kind"] == "gram" or nonuniform):
        return "generate_lossy_and_partially_distinguishable_samples"
    if nonuniform:
        return "generate_lossy_samples"
    uov = ov is not None and ov["kind"] == "uniform" and ov["x"] != 1.0
    if ps and uov:
        return "_generate_sample_with_postselect_and_uniform_overlap"
    if ps:
        return "_generate_sample_with_postselect"
    if uov:
        return "_generate_sample_with_uniform_overlap"
    return "_generate_sample"


def _passive_features(case):
    loss = case["loss"]
    ov = case["overlap"]
    d_rest = case["d"] - (len(case["postselect"]["modes"]) if case["postselect"] else 0)
    m = case["measured"]
    return {
        "loss": "none" if loss is None else ("uniform" if loss["kind"] == "uniform" else "nonuniform"),
        "postselected": case["postselect"] is not None,
        # uniform overlap 1.0 is stored by piquasso as "indistinguishable"
        "overlap": "none" if (ov is None or (ov["kind"] == "uniform" and ov["x"] == 1.0)) else ov["kind"],
        "measured": "all" if len(m) == d_rest else "subset",
        "order": "ascending" if list(m) == sorted(m) else "permuted",
        "order_site": "passive.simulation_steps.particle_number_measurement",
        # (lead) a complex Gram matrix is its own input class: the known finding F19 (Gram matrix
        # contracted transposed) is invisible for real ones, so it must not share a signature with them
        **({"gram": "complex" if ov.get("complex") else "real"} if (ov is not None and ov["kind"] == "gram") else {}),
    }


def _passive_reference(case):
    """(expected law over sample tuples in program order, success probability of the
    post-selection) -- independent of piquasso."""
    import numpy as np
    from mc.refmodel import bornlaw as B

    d = case["d"]
    T = _j2c(case["U"])
    loss = case["loss"]
    if loss is not None:
        if loss["kind"] == "uniform":
            T = loss["t"] * T
        elif loss["kind"] == "modes":
            T = np.diag(loss["t"]) @ T
        else:
            T = _j2c(loss["A"]) @ T
    inp = case["input"]
    n = sum(inp)
    ov = case["overlap"]
    if ov is None:
        law = B.lossy_law(T, inp)
    elif ov["kind"] == "uniform":
        if ov["x"] == 0.0:
            law = B.classical_law(T, inp)
        else:
            law = B.lossy_law(T, inp, B.uniform_gram(n, ov["x"]))
    else:
        law = B.lossy_law(T, inp, _j2c(ov["G"]))
    succ = 1.0
    if case["postselect"] is not None:
        law, succ = B.postselect(law, case["postselect"]["modes"], case["postselect"]["counts"])
    law = B.marginal(law, case["measured"])
    return law, succ


def _build_passive(case):
    import numpy as np
    import piquasso as pq

    d = case["d"]
    ov = case["overlap"]
    kw = {}
    if case["K"] is not None:
        kw["max_sample_generation_trials"] = case["K"]
    with pq.Program() as program:
        if ov is None:
            pq.Q(all) | pq.NumberState(case["input"])
        elif ov["kind"] == "uniform":
            pq.Q(all) | pq.DistinguishableNumberState(case["input"], particle_overlap=ov["x"])
        else:
            pq.Q(all) | pq.DistinguishableNumberState(case["input"], particle_overlap=_j2c(ov["G"]))
        pq.Q(all) | pq.Interferometer(_j2c(case["U"]))
        loss = case["loss"]
        if loss is not None:
            if loss["kind"] == "uniform":
                pq.Q(all) | pq.UniformLoss(loss["t"])
            elif loss["kind"] == "modes":
                for m, t in enumerate(loss["t"]):
                    pq.Q(m) | pq.Loss(t)
            else:
                pq.Q(all) | pq.LossyInterferometer(_j2c(loss["A"]))
        measured = case["measured"]
        if case["postselect"] is not None:
            pq.Q(*case["postselect"]["modes"]) | pq.PostSelectPhotons(photon_counts=tuple(case["postselect"]["counts"]))
            # case["measured"] indexes the remaining modes; programs use the original labels
            rest = [m for m in range(d) if m not in case["postselect"]["modes"]]
            measured = [rest[m] for m in measured]
        pq.Q(*measured) | pq.ParticleNumberMeasurement()
    simulator = pq.PassiveSimulator(d=d, config=pq.Config(**kw))
    return simulator, program


def _samples_key(result):
    out = []
    for s in result.samples:
        out.append(tuple(int(x) if float(x) == int(x) else float(x) for x in s))
    return tuple(out)


def _product_law(law, shots):
    if shots == 1:
        return {(k,): v for k, v in law.items()}
    out = {}
    for combo in itertools.product(law.items(), repeat=shots):
        p = 1.0
        for _, v in combo:
            p *= v
        out[tuple(k for k, _ in combo)] = p
    return out


def _unsupported(exc):
    return type(exc).__name__ in ("NotImplementedCalculation", "NotImplementedError")


def _check_passive(ctx, case):
    import contextlib

    from mc import core
    from mc.refmodel import bornlaw as B
    import piquasso._simulators.passive.simulation_steps as steps

    site = _passive_site(case)
    feats = _passive_features(case)
    shots = case["shots"]

    def fn():
        simulator, program = _build_passive(case)
        return _samples_key(simulator.execute(program, shots=shots))

    @contextlib.contextmanager
    def forced():
        old = steps.is_direct_marginal_sampling_cheaper
        if case["force_marginal"] is not None:
            val = bool(case["force_marginal"])
            steps.is_direct_marginal_sampling_cheaper = lambda **kw: val
        try:
            yield
        finally:
            steps.is_direct_marginal_sampling_cheaper = old

    expected1, succ = _passive_reference(case)
    if succ <= 1e-12:
        ctx.count("skipped_impossible_postselection")
        return
    expected = _product_law(expected1, shots)

    def one_run():
        with forced():
            return explore_case(ctx, case, fn)

    ex = one_run()
    verdict = _judge_discrete(ctx, case, ex, expected, site, feats, ps_exception="InvalidSimulation" if case["postselect"] else None,
                              n_entries=len(case["measured"]))
    if verdict:
        ctx._c02_recheck = True
        try:
            ex2 = one_run()
        finally:
            ctx._c02_recheck = False
        verdict2 = _judge_discrete(ctx, case, ex2, expected, site, feats, ps_exception="InvalidSimulation" if case["postselect"] else None,
                                   n_entries=len(case["measured"]), report=False)
        if [v[0] for v in verdict] != [v[0] for v in verdict2]:
            raise core.HarnessError("HARNESS-NONDETERMINISM case %s judged %r then %r" % (case["id"], verdict, verdict2))


def _judge_discrete(ctx, case, ex, expected, site, feats, ps_exception=None, n_entries=None, report=True, atol=ATOL, sig_extra=None):
    """Compare the explored law with the expected one.  Returns the list of violations
    [(oracle, message)] (also reported through ctx when report=True)."""
    from mc import core
    from mc.refmodel import bornlaw as B

    viol = []
    sigx = dict(feats)
    if sig_extra:
        sigx.update(sig_extra)
    law = {}
    exc_mass = {}
    unsupported = 0
    for p in ex.paths:
        if p.exception is not None:
            name = type(p.exception).__name__
            if _unsupported(p.exception):
                unsupported += 1
                continue
            exc_mass[name] = exc_mass.get(name, 0.0) + p.prob
            continue
        law[p.result] = law.get(p.result, 0.0) + p.prob
    if unsupported:
        if unsupported != len(ex.paths):
            raise core.HarnessError("case %s: only some paths are unsupported" % case["id"])
        if report:
            ctx.count("unsupported_cells")
        return []
    unexpected = [n for n in exc_mass if n != ps_exception]
    if ex.n_choice_points < 1 and len(expected) > 1 and not unexpected:
        # the reference says the outcome is random but no randomness was requested
        raise core.HarnessError("HARNESS-UNCAPTURED case %s: no choice point met although the law has %d outcomes" % (case["id"], len(expected)))
    if abs(ex.mass - 1.0) > 1e-9:
        viol.append(("mass", "explored probability mass %.15g != 1 (choice probabilities handed to the RNG are not normalised)" % ex.mass))
    fail = 0.0
    for name, m in exc_mass.items():
        if name == ps_exception:
            fail += m
        else:
            first = next(p for p in ex.paths if p.exception is not None and type(p.exception).__name__ == name)
            viol.append(("exception", "sampler raised %s on a path of probability mass %.6g: %r" % (name, m, first.exception)))
    total = sum(law.values())
    if unexpected:
        pass  # the sampler does not work on this input: the conditional law is not judged
    elif total <= 0:
        if not viol:
            viol.append(("law", "no sample was ever returned (failure mass %.6g)" % fail))
    else:
        cond = {k: v / total for k, v in law.items()}
        # shape first: entries per sample
        if n_entries is not None:
            bad = [k for k in cond if any(len(s) != n_entries for s in k)]
            if bad:
                viol.append(("shape", "sample %r has %d entries for %d measured quantities" % (bad[0][0], len(bad[0][0]), n_entries)))
        if not any(v[0] == "shape" for v in viol):
            worst, wk = B.compare_laws(cond, expected)
            if report:
                ctx.extra["max_law_error"] = max(ctx.extra.get("max_law_error", 0.0), worst if worst <= atol else 0.0)
            if worst > atol:
                # is it a pure reordering of the entries?
                hint = ""
                perm = _find_entry_permutation(cond, expected, atol)
                oracle = "law"
                if perm is not None:
                    oracle = "order"
                    hint = " -- the law matches after permuting the sample entries by %r (samples are not in program order)" % (perm,)
                viol.append((oracle, "max |law - exact| = %.3e at outcome %r: got %.12g expected %.12g%s" % (
                    worst, wk, cond.get(wk, 0.0), expected.get(wk, 0.0), hint)))
    if report:
        ctx.count("distinct_outcomes", len(law))
        if len(expected) > 1:
            ctx.note_distinct(json.dumps(_case_key(case), sort_keys=True))
        ctx.sample({"case": _case_key(case), "paths": ex.n_paths, "mass": ex.mass, "outcomes": len(law), "failure_mass": fail})
        for oracle, msg in viol:
            sx = {k: v for k, v in sigx.items() if k not in ("order", "measured", "postselected")}
            st = site
            if oracle == "order":
                # reordering happens after the sampler, in the simulation step that builds the branches
                sx = {"measured": sigx.get("measured")} if "measured" in sigx else {}
                st = sigx.get("order_site", site)
            sx.pop("order_site", None)
            if oracle == "exception":
                sx = {"exception": msg.split("sampler raised ")[1].split(" ")[0] if "sampler raised " in msg else "?"}
            elif st == "generate_marginal_samples" and sx.get("overlap") in ("uniform", "gram"):
                sx["overlap"] = "partially_distinguishable"
            ctx.violation(_sig(case, st, oracle, **sx), {"case": case}, "%s [%s]: %s" % (case["id"], site, msg))
    return viol


def _find_entry_permutation(cond, expected, atol):
    keys = list(expected) + list(cond)
    if not keys:
        return None
    n = len(keys[0][0])
    if n < 2 or n > 4 or any(len(s) != n for k in keys for s in k):
        return None
    for perm in itertools.permutations(range(n)):
        if perm == tuple(range(n)):
            continue
        mapped = {}
        for k, v in cond.items():
            kk = tuple(tuple(s[i] for i in perm) for s in k)
            mapped[kk] = mapped.get(kk, 0.0) + v
        worst = 0.0
        for k in set(mapped) | set(expected):
            worst = max(worst, abs(mapped.get(k, 0.0) - expected.get(k, 0.0)))
        if worst <= atol:
            return perm
    return None


def _case_key(case):
    out = {}
    for k, v in case.items():
        if k in ("U",):
            continue
        if isinstance(v, dict):
            out[k] = {kk: vv for kk, vv in v.items() if kk not in ("A", "G")}
        else:
            out[k] = v
    return out
