"""C07 -- built-in linear gates are physical and act as documented.

Bounded-exhaustive input enumeration against a symplectic reference model
(mc/refmodel/gaussref.py): every gate class of piquasso.instructions.gates that exposes
_get_passive_block/_get_active_block x the 13-point lattice per real parameter (full tensor
grid for two-parameter gates, a named matrix catalogue for matrix-valued gates) x every
ORDERED mode tuple on d <= 3 (quick) / d <= 5 (thorough) x hbar in {0.5, 1, 2, 3.7} x 6 base Gaussian states.

Oracles
  blocks      S_c K S_c^+ = K in the ladder basis; passive block unitary / no active block for
              passive gates; blocks equal the documented S_(c) of the class docstring
  sim         GaussianSimulator result == congruence of (mean, cov) by the harness-embedded S
  disp        Displacement / PositionDisplacement / MomentumDisplacement shift the means by
              sqrt(2 hbar) (Re alpha, Im alpha) and leave the covariance alone
  ident       Fourier == R(pi/2), Beamsplitter5050 == B(pi/4, 0),
              MZ(int, ext) == B(pi/4,pi/2) (R(int)+1) B(pi/4,pi/2) (R(ext)+1),
              S2(z) == B(pi/4,0) [S(-z) x S(z)] B(-pi/4,0), as blocks and as executed programs
  seq         programs of two linear gates + one displacement compose as matrix products
"""

import itertools
import math

import numpy as np

LEVEL = "exploration"

GATES = {
    # name: (arity or None for matrix gates, real parameter names)
    "Phaseshifter": (1, ("phi",)),
    "Fourier": (1, ()),
    "Beamsplitter": (2, ("theta", "phi")),
    "Beamsplitter5050": (2, ()),
    "MachZehnder": (2, ("int_", "ext")),
    "Squeezing": (1, ("r", "phi")),
    "QuadraticPhase": (1, ("s",)),
    "Squeezing2": (2, ("r", "phi")),
    "ControlledX": (2, ("s",)),
    "ControlledZ": (2, ("s",)),
    "Interferometer": (None, ("matrix",)),
    "GaussianTransform": (None, ("passive", "active")),
}
PASSIVE = ("Phaseshifter", "Fourier", "Beamsplitter", "Beamsplitter5050", "MachZehnder", "Interferometer")
DISPLACEMENTS = ("Displacement", "PositionDisplacement", "MomentumDisplacement")
MAX_VIOL_PER_SIG = 2
_CC = {}


def _dmax(tier):
    # quick: every ordered tuple on d <= 3 (all gates are at most 2-mode, so d = 3 already has auxiliary modes and
    # non-ascending, non-adjacent tuples); thorough: d <= 5 (a superset)
    return 3 if tier == "quick" else 5


def _items(tier):
    D = _dmax(tier)
    items = [("selftest",)]
    for g in GATES:
        items.append(("blocks", g))
    for g, (arity, _) in GATES.items():
        if arity is None:
            for d in range(1, D + 1):
                items.append(("matrix", g, d))
        else:
            for d in range(arity, D + 1):
                n = _nchunks(_cost(("sim", g, d, 0, 1), tier))
                items += [("sim", g, d, c, n) for c in range(n)]
    for d in range(1, D + 1):
        n = _nchunks(_cost(("disp", d, 0, 1), tier))
        items += [("disp", d, c, n) for c in range(n)]
    for which in ("Fourier", "Beamsplitter5050", "MachZehnder", "Squeezing2"):
        for d in range(1 if which == "Fourier" else 2, D + 1):
            n = _nchunks(_cost(("ident", which, d, 0, 1), tier))
            items += [("ident", which, d, c, n) for c in range(n)]
    seq_d = (2, 3) if tier == "quick" else (2, 3, 4)
    for d in seq_d:
        n = len(_seq_alphabet(d))
        for first in range(n):
            items.append(("seq", d, first))
    items.sort(key=lambda it: (-_cost(it, tier), str(it)))  # heavy items first: the pool drains evenly
    return items


def _nchunks(cost):
    return max(1, min(13, -(-cost // 12000)))


def _cost(item, tier):
    """rough number of simulator executions of an item (only used to order the work list)"""
    kind = item[0]
    perms = lambda d, k: math.perm(d, k)  # noqa: E731
    if kind == "sim":
        arity, pn = GATES[item[1]]
        return 13 ** len(pn) * perms(item[2], arity) * 24 // item[4]
    if kind == "matrix":
        return sum(6 * min(perms(item[2], k), 24) for k in range(1, item[2] + 1)) * 24
    if kind == "disp":
        return item[1] * 195 * 24 // item[3]
    if kind == "ident":
        arity, pn = GATES[item[1]]
        return 13 ** len(pn) * perms(item[2], arity) * 8 * 5 // item[4]
    if kind == "seq":
        return len(_seq_alphabet(item[1])) * (1 if (tier == "quick" and item[1] >= 3) else 3 * item[1]) * 8 * 3
    return 0


def run(ctx, builddir):
    from mc import core

    items = _items(ctx.tier)
    if getattr(ctx, "only", None):
        # development filter: comma-separated tokens "kind", "gate", "kind:gate", "kind:gate:d", "kind:d" or the full item "kind:gate:d:chunk:nchunks"
        toks = ctx.only.split(",")
        items = [it for it in items if any(t in toks for t in (it[0], str(it[1]) if len(it) > 1 else "", ":".join(map(str, it[:2])), ":".join(map(str, it[:3])), ":".join(map(str, it))))]
    ctx.rule = (
        "every gate class with _get_passive_block x 13-point lattice per real parameter (full grid for 2 parameters; "
        "named matrix catalogue for Interferometer/GaussianTransform) x every ordered mode tuple on d<=%d x hbar in "
        "{0.5,1,2,3.7} x 6 base states, each executed by GaussianSimulator.execute_instructions and compared with the "
        "reference congruence; evaluation = one simulator execution or one block/identity evaluation compared with the "
        "reference; distinct = distinct (gate, parameters, ordered modes, d) keys; non-trivial = the embedded "
        "transformation differs from the identity (or, for sequences, every program)" % _dmax(ctx.tier)
    )
    ctx.assume(
        "a finite lattice stands for all real parameters only under the assumption that block entries are polynomials of "
        "degree <=2 in cos, sin, exp(+-i phi), cosh, sinh, s and that the code does not branch on parameter values (DESIGN C07)"
    )
    ctx.assume(
        "tolerance |a-b| <= 1e-9 + 1e-9*scale, scale = 2d * max|S|^2 * max|cov| (covariances), 2d * max|S| * max|mean| "
        "(means), max|S_c|^2 (symplecticity): the natural magnitude of the summed terms (cosh(7.3)^2 ~ 5e5 on the lattice)"
    )
    ctx.assume("quick tier: d <= 3 (DESIGN asks for d <= 4; shrunk to fit the CPU budget, d = 4 and 5 are in the thorough tier); depth-2 sequences on d = 3 use one displacement slot/mode per gate pair in the quick tier, all 3 slots x all modes in the thorough tier (d <= 4)")
    ctx.assume("reference = mc/refmodel/gaussref.py (documented S_(c) matrices written from the docstrings, no piquasso import)")
    ctx.assume(
        "the matrix printed in the MachZehnder docstring lacks the overall factor 1/2 (it is not unitary as printed); the "
        "documented DECOMPOSITION is the oracle, as in the property statement"
    )
    core.pmap(ctx, "mc.checks.c07", "work", items, builddir)
    c = ctx.counters
    return {
        "evaluations": c.get("sim_executions", 0) + c.get("block_evaluations", 0),
        "simulator_executions": c.get("sim_executions", 0),
        "block_evaluations": c.get("block_evaluations", 0),
        "programs": c.get("programs", 0),
        "gate_classes": len(GATES) + len(DISPLACEMENTS),
        "lattice_points_per_parameter": 13,
        "d_max": _dmax(ctx.tier),
        "explanation": "simulator_executions = GaussianSimulator.execute_instructions calls whose resulting (mean, cov) "
        "was compared with the reference; block_evaluations = _get_passive_block/_get_active_block evaluations compared "
        "with the documented blocks and tested for symplecticity; programs = distinct instruction lists executed",
    }


def work(ctx, item):
    globals()["_w_" + item[0]](ctx, item)


def replay(ctx, case, signature):
    item = tuple(tuple(x) if isinstance(x, list) else x for x in case["item"])
    ctx.replay_filter = case.get("key")
    work(ctx, item)


# ---------------------------------------------------------------------------------------


def _viol(ctx, item, sig, key, msg, recheck=None):
    """report a violation (at most MAX_VIOL_PER_SIG per signature and worker item); `key`
    identifies the single failing case inside the item (used by replay)"""
    from mc import core

    s = {"check": "C07"}
    s.update(sig)
    k = tuple(sorted(s.items()))
    seen = ctx.__dict__.setdefault("_c07_sigcount", {})
    seen[k] = seen.get(k, 0) + 1
    ctx.count("violating_cases")
    if seen[k] > MAX_VIOL_PER_SIG:
        return
    if recheck is not None:
        a, b = recheck(), recheck()
        if not _same(a, b):
            raise core.HarnessError("HARNESS-NONDETERMINISM C07 %s %s" % (item, key))
    ctx.violation(s, {"item": list(item), "key": key}, "%s %s: %s" % (item, key, msg))


def _same(a, b):
    if isinstance(a, (tuple, list)):
        return len(a) == len(b) and all(_same(x, y) for x, y in zip(a, b))
    a, b = np.asarray(a), np.asarray(b)
    # equal up to last-bit noise (LAPACK results depend on buffer alignment); a real nondeterminism is O(1)
    return a.shape == b.shape and bool(np.allclose(a, b, rtol=1e-9, atol=1e-12, equal_nan=True))


def _want(ctx, key):
    """replay filter: the recorded key starts with (or equals) this case's key"""
    f = getattr(ctx, "replay_filter", None)
    if f is None or f == key:
        return True
    return isinstance(f, list) and isinstance(key, list) and f[: len(key)] == key


def _grid(names, c=0, n=1):
    """the full tensor lattice of the named parameters; [c::n] = chunk c of n (work split only)"""
    from mc.c07_gauss import LATTICE

    return [dict(zip(names, vals)) for vals in itertools.product(LATTICE, repeat=len(names))][c::n]


def _code_blocks(name, params, hbar=2.0, seed=0):
    """(P, A) as produced by the gate class under test"""
    import piquasso as pq
    from mc.c07_gauss import resolve_param

    g = getattr(pq, name)(**{k: resolve_param(v, seed) for k, v in params.items()})
    if hbar not in _CC:
        _CC[hbar] = (pq.NumpyConnector(), pq.Config(hbar=hbar))
    conn, cfg = _CC[hbar]
    P = np.asarray(g._get_passive_block(conn, cfg))
    A = np.asarray(g._get_active_block(conn, cfg)) if hasattr(g, "_get_active_block") else None
    return P, A


def _w_selftest(ctx, item):
    from mc import core
    from mc.refmodel import gaussref as R
    import piquasso.instructions.gates as G

    try:
        R.selftest()
    except AssertionError as e:  # pragma: no cover
        raise core.HarnessError("gaussref self-test failed: %r" % (e,))
    # the table must cover every class that exposes _get_passive_block
    found = sorted(
        n
        for n, c in vars(G).items()
        if isinstance(c, type) and hasattr(c, "_get_passive_block") and not n.startswith("_") and c.__module__ == G.__name__
    )
    missing = [n for n in found if n not in GATES]
    ctx.count("gate_classes_found", len(found))
    if missing:
        raise core.HarnessError("C07 gate table does not cover linear gate classes %s" % missing)
    for n in GATES:
        if n not in found:
            raise core.HarnessError("C07 gate table names %s which no longer exposes _get_passive_block" % n)


# ---------------------------------------------------------------------------------------
# blocks


def _matrix_param_sets(name, seed, kmax):
    from mc import c07_gauss as H

    out = []
    for k in range(1, kmax + 1):
        if name == "Interferometer":
            for key in H.unitary_catalogue(k, seed):
                out.append((k, key, {"matrix": {"cat": "U", "k": k, "name": key}}))
        else:
            for key in H.gaussian_transform_catalogue(k, seed):
                out.append(
                    (k, key, {"passive": {"cat": "GT", "k": k, "name": key, "part": 0}, "active": {"cat": "GT", "k": k, "name": key, "part": 1}})
                )
    return out


def _w_blocks(ctx, item):
    from mc import c07_gauss as H
    from mc.refmodel import gaussref as R
    import piquasso.instructions.gates as G

    _, name = item
    arity, pnames = GATES[name]
    cls = getattr(G, name)
    is_passive_class = issubclass(cls, G._PassiveLinearGate)
    if (name in PASSIVE) != is_passive_class:
        _viol(ctx, item, {"sub": "class_kind", "gate": name}, "class", "passive/active class kind differs from the documentation")
    if arity is None:
        cases = [(k, key, {p: H.resolve_param(v, ctx.seed) for p, v in tpl.items()}) for k, key, tpl in _matrix_param_sets(name, ctx.seed, 5)]
    else:
        cases = [(arity, None, p) for p in _grid(pnames)]
    for k, key, params in cases:
        ckey = key if key is not None else [params[p] for p in pnames]
        if arity is None:
            ckey = [k, key]
        if not _want(ctx, ckey):
            continue
        for hbar in (0.5, 2.0):
            P, A = _code_blocks(name, params, hbar)
            ctx.count("block_evaluations")
            Pd, Ad = R.documented_blocks(name, **params)
            if P.shape != (k, k) or (A is not None and A.shape != (k, k)):
                _viol(ctx, item, {"sub": "block_shape", "gate": name}, ckey, "P %s A %s" % (P.shape, None if A is None else A.shape))
                continue
            scale = max(1.0, H.amax(Pd), 0.0 if Ad is None else H.amax(Ad))
            ok, e = H.close(P, Pd, scale)
            if not ok:
                _viol(ctx, item, {"sub": "block_vs_documented", "gate": name, "block": "passive"}, ckey, "err %.3g got %s expected %s" % (e, H.fmt(P), H.fmt(Pd)))
            if name in PASSIVE:
                if A is not None and H.amax(A) > 0:
                    _viol(ctx, item, {"sub": "passive_gate_has_active_block", "gate": name}, ckey, "A = %s" % H.fmt(A))
                ok, e = H.close(P @ P.conj().T, np.identity(k), scale**2)
                if not ok:
                    _viol(ctx, item, {"sub": "passive_block_not_unitary", "gate": name}, ckey, "|P P^+ - 1| = %.3g" % e)
            else:
                if A is None:
                    _viol(ctx, item, {"sub": "active_block_missing", "gate": name}, ckey, "no _get_active_block")
                    continue
                ok, e = H.close(A, Ad, scale)
                if not ok:
                    _viol(ctx, item, {"sub": "block_vs_documented", "gate": name, "block": "active"}, ckey, "err %.3g got %s expected %s" % (e, H.fmt(A), H.fmt(Ad)))
            Sc = R.complex_S(P, A)
            res = R.complex_symplectic_residual(Sc)
            if not (res <= H.ATOL + H.RTOL * scale**2):
                _viol(ctx, item, {"sub": "not_symplectic", "gate": name}, ckey, "|S K S^+ - K| = %.3g (scale %.3g)" % (res, scale**2))
            # the real quadrature form must be real and symplectic as well
            try:
                S = R.real_S_xxpp(P, A)
                res = R.real_symplectic_residual(S)
                if not (res <= H.ATOL + H.RTOL * scale**2):
                    _viol(ctx, item, {"sub": "not_symplectic", "gate": name, "basis": "xxpp"}, ckey, "|S Om S^T - Om| = %.3g" % res)
            except ValueError as ex:
                _viol(ctx, item, {"sub": "not_real_in_quadratures", "gate": name}, ckey, str(ex))
        if H.amax(R.complex_S(Pd, Ad) - np.identity(2 * k)) > 1e-6:
            ctx.note_distinct(("blocks", name, str(ckey)))
    ctx.sample({"kind": "blocks", "gate": name, "cases": len(cases)})


# ---------------------------------------------------------------------------------------
# simulator vs congruence


def _prepare(d, seed):
    """[(hbar, base name, state, mean_xxpp, cov_xxpp)] read back through the getters"""
    from mc import c07_gauss as H

    out = []
    for hbar in H.HBARS:
        for bname, mean, cov in H.base_states(d, seed):
            st = H.make_state(d, hbar, mean, cov)
            out.append((hbar, bname, st, np.array(st.xxpp_mean_vector), np.array(st.xxpp_covariance_matrix), mean * math.sqrt(hbar), cov * hbar))
    return out


def _check_bases(ctx, item, d, prepared):
    from mc import c07_gauss as H

    for hbar, bname, st, m0, c0, mi, ci in prepared:
        ok1, e1 = H.close(m0, mi, H.amax(mi))
        ok2, e2 = H.close(c0, ci, H.amax(ci))
        if not (ok1 and ok2):
            _viol(ctx, item, {"sub": "base_state_roundtrip", "site": "GaussianState.xxpp setters/getters"}, [hbar, bname], "mean err %.3g cov err %.3g" % (e1, e2))


def _compare_run(ctx, item, d, templates, prepared, S, shift_fn, sig, key, note_key):
    """execute `templates` from every prepared (hbar, base) state and compare with
    mean -> S mean + shift(hbar), cov -> S cov S^T"""
    from mc import c07_gauss as H

    smax = H.amax(S)
    bad = None
    for hbar, bname, st, m0, c0, _, _ in prepared:
        def go(hbar=hbar, st=st):
            out = H.run(d, hbar, templates, st, ctx.seed)
            return np.array(out.xxpp_mean_vector), np.array(out.xxpp_covariance_matrix)

        gm, gc = go()
        ctx.count("sim_executions")
        em = S @ m0
        if shift_fn is not None:
            em = em + shift_fn(hbar)
        ec = S @ c0 @ S.T
        okm, e_m = H.close(gm, em, 2 * d * max(1.0, smax) * max(1.0, H.amax(m0), H.amax(em)))
        okc, e_c = H.close(gc, ec, 2 * d * max(1.0, smax) ** 2 * max(1.0, H.amax(c0)))
        if not okm:
            _viol(ctx, item, dict(sig, what="mean"), key + [hbar, bname], "mean err %.3g\n got %s\n exp %s" % (e_m, H.fmt(gm), H.fmt(em)), recheck=go)
            bad = "mean"
        elif not okc:
            _viol(ctx, item, dict(sig, what="cov"), key + [hbar, bname], "cov err %.3g\n got %s\n exp %s" % (e_c, H.fmt(gc), H.fmt(ec)), recheck=go)
            bad = "cov"
    if note_key is not None:
        ctx.note_distinct(note_key)
    return bad is None


def _step_of(name):
    return "passive_linear" if name in PASSIVE else "linear"


def _w_sim(ctx, item):
    from mc import c07_gauss as H
    from mc.refmodel import gaussref as R

    _, name, d, chunk, nchunks = item
    arity, pnames = GATES[name]
    prepared = _prepare(d, ctx.seed)
    _check_bases(ctx, item, d, prepared)
    tuples = H.ordered_tuples(d, arity)
    n = 0
    for params in _grid(pnames, chunk, nchunks):
        P, A = _code_blocks(name, params)
        for modes in tuples:
            key = [[params[p] for p in pnames], list(modes)]
            if not _want(ctx, key):
                continue
            Pf, Af = R.embed(P, A, modes, d)
            S = R.real_S_xxpp(Pf, Af)
            nontrivial = H.amax(S - np.identity(2 * d)) > 1e-6
            sig = {"sub": "sim_vs_congruence", "step": _step_of(name), "aux_modes": d > arity}
            _compare_run(ctx, item, d, [(name, modes, params)], prepared, S, None, sig, key, ("sim", name, str(key), d) if nontrivial else None)
            n += 1
            ctx.count("programs")
    ctx.sample({"kind": "sim", "gate": name, "d": d, "chunk": [chunk, nchunks], "parameter_points": len(_grid(pnames, chunk, nchunks)), "ordered_tuples": [list(t) for t in tuples][:6], "programs": n})


def _w_matrix(ctx, item):
    from mc import c07_gauss as H
    from mc.refmodel import gaussref as R

    _, name, d = item
    prepared = _prepare(d, ctx.seed)
    n = 0
    for k, mkey, tpl in _matrix_param_sets(name, ctx.seed, d):
        params = {p: H.resolve_param(v, ctx.seed) for p, v in tpl.items()}
        P, A = _code_blocks(name, params)
        tuples = H.ordered_tuples(d, k)
        for modes in tuples:
            key = [[k, mkey], list(modes)]
            if not _want(ctx, key):
                continue
            Pf, Af = R.embed(P, A, modes, d)
            S = R.real_S_xxpp(Pf, Af)
            nontrivial = H.amax(S - np.identity(2 * d)) > 1e-6
            sig = {"sub": "sim_vs_congruence", "step": _step_of(name), "aux_modes": d > k, "matrix_gate": name}
            _compare_run(ctx, item, d, [(name, modes, tpl)], prepared, S, None, sig, key, ("matrix", name, str(key), d) if nontrivial else None)
            n += 1
            ctx.count("programs")
    ctx.sample({"kind": "matrix", "gate": name, "d": d, "programs": n})


# ---------------------------------------------------------------------------------------
# displacements


def _w_disp(ctx, item):
    from mc import c07_gauss as H
    from mc.refmodel import gaussref as R

    _, d, chunk, nchunks = item
    prepared = _prepare(d, ctx.seed)
    I = np.identity(2 * d)
    n = 0
    for mode in range(d):
        for r, phi in list(itertools.product(H.LATTICE, repeat=2))[chunk::nchunks]:
            key = ["Displacement", [r, phi], mode]
            if not _want_prefix(ctx, key):
                continue
            alpha = r * complex(math.cos(phi), math.sin(phi))
            _compare_run(
                ctx, item, d, [("Displacement", (mode,), {"r": r, "phi": phi})], prepared, I,
                lambda hbar, a=alpha: R.displacement_shift_xxpp(a, mode, d, hbar),
                {"sub": "displacement_shift", "gate": "Displacement"}, key, ("disp", str(key), d) if abs(alpha) > 1e-6 else None,
            )
            n += 1
        for x in H.LATTICE[chunk::nchunks]:
            for gname, alpha, pname in (("PositionDisplacement", complex(x, 0), "x"), ("MomentumDisplacement", complex(0, x), "p")):
                key = [gname, [x], mode]
                if not _want_prefix(ctx, key):
                    continue
                _compare_run(
                    ctx, item, d, [(gname, (mode,), {pname: x})], prepared, I,
                    lambda hbar, a=alpha: R.displacement_shift_xxpp(a, mode, d, hbar),
                    {"sub": "displacement_shift", "gate": gname}, key, ("disp", str(key), d) if abs(alpha) > 1e-6 else None,
                )
                n += 1
    ctx.count("programs", n)
    ctx.sample({"kind": "disp", "d": d, "programs": n})


def _want_prefix(ctx, key):
    return _want(ctx, key)


# ---------------------------------------------------------------------------------------
# documented identities


def _ident_programs(which, params, modes):
    """(left program, right program) of the documented identity, program order = time order"""
    i = modes[0]
    if which == "Fourier":
        return [("Fourier", (i,), {})], [("Phaseshifter", (i,), {"phi": math.pi / 2})]
    j = modes[1]
    if which == "Beamsplitter5050":
        return [("Beamsplitter5050", (i, j), {})], [("Beamsplitter", (i, j), {"theta": math.pi / 4, "phi": 0.0})]
    if which == "MachZehnder":
        B = ("Beamsplitter", (i, j), {"theta": math.pi / 4, "phi": math.pi / 2})
        # MZ = B (R(int) + 1) B (R(ext) + 1): the rightmost factor acts first
        return (
            [("MachZehnder", (i, j), dict(params))],
            [("Phaseshifter", (i,), {"phi": params["ext"]}), B, ("Phaseshifter", (i,), {"phi": params["int_"]}), B],
        )
    if which == "Squeezing2":
        r, phi = params["r"], params["phi"]
        return (
            [("Squeezing2", (i, j), dict(params))],
            [
                ("Beamsplitter", (i, j), {"theta": -math.pi / 4, "phi": 0.0}),
                ("Squeezing", (i,), {"r": -r, "phi": phi}),
                ("Squeezing", (j,), {"r": r, "phi": phi}),
                ("Beamsplitter", (i, j), {"theta": math.pi / 4, "phi": 0.0}),
            ],
        )
    raise KeyError(which)


def _program_S(templates, d, seed=0):
    """ladder transformation of a program from the CODE's own blocks: product in reverse time order"""
    from mc.refmodel import gaussref as R

    Sc = np.identity(2 * d, dtype=complex)
    for name, modes, params in templates:
        P, A = _code_blocks(name, params, seed=seed)
        Pf, Af = R.embed(P, A, modes, d)
        Sc = R.complex_S(Pf, Af) @ Sc
    return Sc


def _w_ident(ctx, item):
    from mc import c07_gauss as H
    from mc.refmodel import gaussref as R

    _, which, d, chunk, nchunks = item
    arity, pnames = GATES[which]
    prepared = _prepare(d, ctx.seed)
    # the identity programs are executed from 2 base states per hbar (coherent + mixed): the
    # per-gate action on all 6 is covered by the `sim` items
    prepared = [p for p in prepared if p[1] in ("displaced", "mixed_correlated_displaced")]
    n = 0
    for params in _grid(pnames, chunk, nchunks):
        for modes in H.ordered_tuples(d, arity):
            key = [[params[p] for p in pnames], list(modes)]
            if not _want(ctx, key):
                continue
            left, right = _ident_programs(which, params, modes)
            # (1) as ladder transformations built from the code's blocks
            SL, SR = _program_S(left, d), _program_S(right, d)
            ctx.count("block_evaluations", len(left) + len(right))
            scale = max(1.0, H.amax(SL)) * max(1.0, max(H.amax(_program_S([t], d)) for t in right)) ** 2
            ok, e = H.close(SL, SR, scale)
            if not ok:
                _viol(ctx, item, {"sub": "identity_blocks", "identity": which}, key, "|S_left - S_right| = %.3g (scale %.3g)\n left %s\n right %s" % (e, scale, H.fmt(SL[:d, :]), H.fmt(SR[:d, :])))
            # (2) against the independent documented decomposition
            if which == "MachZehnder" and d == 2 and list(modes) == [0, 1]:
                ok, e = H.close(SL[:2, :2], R.documented_blocks("MachZehnder", **params)[0], 1.0)
                if not ok:
                    _viol(ctx, item, {"sub": "identity_reference", "identity": which}, key, "err %.3g" % e)
            if which == "Squeezing2" and d == 2 and list(modes) == [0, 1]:
                Pd, Ad = R.squeezing2_decomposition(params["r"], params["phi"])
                ok1, e1 = H.close(SL[:2, :2], Pd, scale)
                ok2, e2 = H.close(SL[:2, 2:], Ad, scale)
                if not (ok1 and ok2):
                    _viol(ctx, item, {"sub": "identity_reference", "identity": which}, key, "err %.3g %.3g" % (e1, e2))
            # (3) as executed programs: both sides against the same reference congruence
            S = (R.W(d).conj().T @ SR @ R.W(d)).real
            nontrivial = H.amax(S - np.identity(2 * d)) > 1e-6
            for side, prog in (("left", left), ("right", right)):
                _compare_run(
                    ctx, item, d, prog, prepared, S, None,
                    {"sub": "identity_programs", "identity": which, "side": side}, key + [side],
                    ("ident", which, str(key), d) if (nontrivial and side == "left") else None,
                )
                ctx.count("programs")
                n += 1
    ctx.sample({"kind": "ident", "identity": which, "d": d, "programs": n, "example": _ident_programs(which, _grid(pnames)[-1], tuple(range(d - 1, d - 1 - arity, -1)) if d >= arity else (0,))})


# ---------------------------------------------------------------------------------------
# depth-2 sequences


def _seq_alphabet(d):
    """generic-parameter linear gates on every ordered tuple of d modes"""
    out = []
    one = [
        ("Phaseshifter", {"phi": 0.37}),
        ("Fourier", {}),
        ("Squeezing", {"r": 0.23, "phi": 0.81}),
        ("QuadraticPhase", {"s": 0.31}),
    ]
    two = [
        ("Beamsplitter", {"theta": 0.37, "phi": 0.81}),
        ("Beamsplitter5050", {}),
        ("MachZehnder", {"int_": 1.234, "ext": -0.81}),
        ("Squeezing2", {"r": 0.23, "phi": -0.81}),
        ("ControlledX", {"s": 0.31}),
        ("ControlledZ", {"s": -0.27}),
        ("Interferometer", {"matrix": {"cat": "U", "k": 2, "name": "generic_a"}}),
        ("GaussianTransform", {"passive": {"cat": "GT", "k": 2, "name": "bloch_messiah_a", "part": 0}, "active": {"cat": "GT", "k": 2, "name": "bloch_messiah_a", "part": 1}}),
    ]
    for name, p in one:
        for m in range(d):
            out.append((name, (m,), p))
    for name, p in two:
        for t in itertools.permutations(range(d), 2):
            out.append((name, t, p))
    return out


def _w_seq(ctx, item):
    from mc import c07_gauss as H
    from mc.refmodel import gaussref as R

    _, d, first = item
    alpha = _seq_alphabet(d)
    g1 = alpha[first]
    prepared = _prepare(d, ctx.seed)
    prepared = [p for p in prepared if p[1] in ("squeezed_displaced", "mixed_correlated_displaced")]
    if ctx.tier == "quick" or d >= 4:
        prepared = [p for p in prepared if p[1] == "mixed_correlated_displaced"]
    r, phi = 0.4, 0.6
    al = r * complex(math.cos(phi), math.sin(phi))
    Wd = R.W(d)
    n = 0
    for second, g2 in enumerate(alpha):
        S1c, S2c = _program_S([g1], d, ctx.seed), _program_S([g2], d, ctx.seed)
        S1 = (Wd.conj().T @ S1c @ Wd).real
        S2 = (Wd.conj().T @ S2c @ Wd).real
        quick3 = ctx.tier == "quick" and d >= 3  # quick, d = 3: one displacement slot and mode per gate pair (rotating)
        for pos in ((first + second) % 3,) if quick3 else (0, 1, 2):
            dmodes = ((first + 2 * second) % d,) if quick3 else range(d)
            for dm in sorted(set(dmodes)):
                key = [second, pos, dm]
                if not _want(ctx, key):
                    continue
                D = ("Displacement", (dm,), {"r": r, "phi": phi})
                prog = [g1, g2]
                prog.insert(pos, D)
                # mean -> S2 (S1 (mean + b0) + b1) + b2 with the displacement in slot `pos`
                S = S2 @ S1

                def shift(hbar, pos=pos, dm=dm):
                    b = R.displacement_shift_xxpp(al, dm, d, hbar)
                    return S2 @ S1 @ b if pos == 0 else (S2 @ b if pos == 1 else b)

                _compare_run(ctx, item, d, prog, prepared, S, shift, {"sub": "sequence_composition", "aux_modes": d > 2}, key, ("seq", d, first, second, pos, dm))
                ctx.count("programs")
                n += 1
    ctx.sample({"kind": "seq", "d": d, "first": [g1[0], list(g1[1])], "programs": n})
