"""C08 -- every reachable state is a physical quantum state.

Explicit-state breadth-first search over instruction sequences on EACH simulator (GaussianSimulator, PureFockSimulator,
FockSimulator, PassiveSimulator, fermionic GaussianSimulator / PureFockSimulator).  A state is the live piquasso state
reached by a history from a root preparation; a transition applies one action of a finite alphabet through the public path
`Simulator.execute_instructions([instr], initial_state=state)`.  After EVERY transition the physicality invariants of
mc/c08_lib.py are evaluated on the successor (the canonical hash only prunes the frontier):

  Gaussian   sigma real, finite, symmetric (C Hermitian, G symmetric); lambda_min(sigma/hbar + i Omega) >= -1e-9 (xpxp order, Omega =
             direct sum of [[0,1],[-1,0]] -- convention self-tested on the vacuum and on a two-mode squeezed state for every hbar);
             purity in (0, 1+1e-9], = 1 +- 1e-9 and is_pure() on unitary histories from a pure root, is_pure() False on clearly
             mixed states; validate() silent; on new states also every reported probability (fock_probabilities,
             get_particle_detection_probability of every basis vector, threshold probabilities of every click pattern, marginal maps of
             every ordered mode subset) in [-1e-12, 1+1e-12]
  PureFock   norm <= 1+1e-12, |norm' - norm| <= 1e-12 across number-conserving gates, purity == 1, probabilities in range, validate()
             silent on normalised states, marginal interfaces and reduced states physical
  Fock       rho Hermitian, lambda_min >= -1e-9, trace <= 1+1e-9, purity in (0,1], = 1 on number-conserving histories from pure roots
  Passive    probabilities of every interface in range, norm <= 1, preserved by gates, transmission matrix a contraction
  fermionic  covariance real skew with |spec(i Gamma)| <= 1, correlation matrix Hermitian with spectrum in [0,1], Fock norm preserved

and the post-measurement states: shots=None trees of ParticleNumberMeasurement on every ordered mode subset (branch weights are
probabilities, branch states normalised and physical), PostSelectPhotons for every ordered subset and every photon-count vector,
one further gate after the measurement inside the same program (mode remapping), and Gaussian homodyne / heterodyne / general-dyne
conditional states on every ordered proper mode subset for a lattice of outcomes obtained by owning Config.rng.

d = 3 general-dyne box (fam "gd3", both tiers): the BFS boxes of the quick tier produce Gaussian conditional states only below states at depth
<= 1 from product / weakly correlated roots, where the way the per-mode detection covariances of SEVERAL measured modes are assembled cannot show.
This box prepares three histories that entangle all three modes (mc.c08_lib.gd3_histories), and applies every measurement of
mc.c08_lib.gd3_measurements (homodyne angle x detector squeezing lattice, anisotropic / tilted / noisy / isotropic general-dyne covariances,
heterodyne) to EVERY ordered tuple of one or two modes, for every hbar and for Config(validate=True) and Config(validate=False); all invariants
are evaluated on every conditional state (InvalidState raised by the library on these valid programs is reported as `invalid_state_raised`).

Exceptions are not this property's subject: refusals / unsupported cells / crashes are counted, never reported.
"""

import itertools
import json

LEVEL = "model_checking"
MAX_RECORDED_PER_SIG = 2
SIM_CLASS = {"gaussian": "GaussianSimulator", "purefock": "PureFockSimulator", "fock": "FockSimulator", "passive": "PassiveSimulator",
             "fgauss": "fermionic.GaussianSimulator", "ffock": "fermionic.PureFockSimulator"}
HBARS = (0.5, 1.0, 2.0, 3.7)
GD3_HISTORIES = ("sq3bs2", "sq3bs2s2", "th_s2bs")  # mc.c08_lib.gd3_histories


# ---------------------------------------------------------------------------------------
# bounds


def _boxes(tier):
    """list of dicts: fam, kind, d, cutoff, hbar, roots (names or 'all'), depth, level (alphabet tier), full (depth up to which the
    expensive probability interfaces are evaluated on new states), meas (depth up to which measurement trees are grown), post
    (apply one more gate after the measurement), chunks (split of the first level)"""
    B = []

    def box(**kw):
        kw.setdefault("level", "quick")
        kw.setdefault("roots", "all")
        kw.setdefault("post", False)
        kw.setdefault("chunks", 1)
        B.append(kw)

    if tier == "quick":
        # sized for <= ~4 CPU-minutes in total: all four hbar values and all cutoffs 1..5 appear, but depth >= 2 only in a few boxes
        for i, h in enumerate(HBARS):
            c = (3, 2, 4, 5)[i]
            box(fam="bfs", kind="gaussian", d=1, cutoff=c, hbar=h, depth=3 if i == 0 else 2, full=2, meas=0)
            if i == 3:
                box(fam="bfs", kind="gaussian", d=2, cutoff=3, hbar=h, depth=2, full=1, meas=1, chunks=2)
            else:
                box(fam="bfs", kind="gaussian", d=2, cutoff=c, hbar=h, depth=1, full=1, meas=1)
            box(fam="bfs", kind="gaussian", d=3, cutoff=(2, 1, 2, 2)[i], hbar=h, depth=1, full=1 if i % 2 == 0 else 0, meas=0,
                roots=["vac", "mixed"] if i % 2 else ["thermal", "mixed"])
        for kind in ("purefock", "fock", "passive"):
            for c in (1, 2, 3, 4, 5):
                h = HBARS[c % 4]
                box(fam="bfs", kind=kind, d=1, cutoff=c, hbar=h, depth=2, full=2, meas=1, post=False)
                if c == 3 and kind != "fock":
                    box(fam="bfs", kind=kind, d=2, cutoff=c, hbar=h, depth=2, full=1, meas=1, post=True, roots=["n11", "sup"])
                    box(fam="bfs", kind=kind, d=2, cutoff=c, hbar=h, depth=1, full=1, meas=1, post=False, roots=["n00", "n10", "n02"])
                else:
                    box(fam="bfs", kind=kind, d=2, cutoff=c, hbar=h, depth=1, full=1, meas=1, post=(c <= 2), roots="all" if c <= 3 else "vac+1")
                if c <= 4:
                    box(fam="bfs", kind=kind, d=3, cutoff=c, hbar=h, depth=1, full=1 if c <= 2 else 0, meas=0, post=False, roots="vac+1")
        box(fam="passive_loss", d=2, depth=2, levels=("small", "tiny"))
        box(fam="passive_loss", d=3, depth=1, levels=("tiny",))
        for d in (1, 2):
            box(fam="fermi", d=d, depth=2, meas=1)
        box(fam="fermi", d=3, depth=1, meas=1)
        for h in HBARS:
            for v in (True, False):
                for hn in GD3_HISTORIES:
                    box(fam="gd3", kind="gaussian", d=3, cutoff=2, hbar=h, validate=v, hist=hn)
    else:
        for i, h in enumerate(HBARS):
            for c in (1, 2, 3, 4, 5):
                box(fam="bfs", kind="gaussian", d=1, cutoff=c, hbar=h, depth=3 if c == 2 else 2, full=2, meas=0, level="thorough")
            for c in (2, 3, 5):
                box(fam="bfs", kind="gaussian", d=2, cutoff=c, hbar=h, depth=2, full=1 if c < 5 else 0, meas=1, level="thorough", chunks=4)
            if i % 2 == 0:
                box(fam="bfs", kind="gaussian", d=3, cutoff=(3, 2, 4, 3)[i], hbar=h, depth=2, full=1, meas=1, level="quick", chunks=12)
            else:
                box(fam="bfs", kind="gaussian", d=3, cutoff=(3, 2, 4, 3)[i], hbar=h, depth=1, full=1, meas=1, level="thorough", chunks=2)
            box(fam="bfs", kind="gaussian", d=4, cutoff=2, hbar=h, depth=1, full=1 if i % 2 else 0, meas=0, level="quick", roots=["vac", "mixed"], chunks=2)
        for kind in ("purefock", "fock", "passive"):
            for c in (1, 2, 3, 4, 5):
                h = HBARS[c % 4]
                box(fam="bfs", kind=kind, d=1, cutoff=c, hbar=h, depth=3, full=3, meas=1, post=True, level="thorough")
                box(fam="bfs", kind=kind, d=1, cutoff=c, hbar=HBARS[(c + 2) % 4], depth=2, full=2, meas=1, post=False, level="thorough")
                box(fam="bfs", kind=kind, d=2, cutoff=c, hbar=h, depth=2 if c <= 3 else 1, full=1, meas=1, post=(c <= 3), level="thorough" if c <= 2 else "quick", chunks=2)
                if c <= 2:
                    box(fam="bfs", kind=kind, d=3, cutoff=c, hbar=h, depth=2, full=1, meas=1, post=True, roots="vac+1", chunks=4)
                elif c == 3:
                    box(fam="bfs", kind=kind, d=3, cutoff=c, hbar=h, depth=1, full=1, meas=1, post=False)
                else:
                    box(fam="bfs", kind=kind, d=3, cutoff=c, hbar=h, depth=1, full=1, meas=0, post=False, roots="vac+1")
                if c <= 3:
                    box(fam="bfs", kind=kind, d=4, cutoff=c, hbar=h, depth=1, full=0, meas=0, roots="vac+1")
        box(fam="passive_loss", d=2, depth=2, levels=("mid", "small"))
        box(fam="passive_loss", d=3, depth=2, levels=("small", "tiny"))
        box(fam="passive_loss", d=4, depth=1, levels=("small",))
        for d in (1, 2, 3):
            box(fam="fermi", d=d, depth=3 if d <= 2 else 2, meas=2 if d <= 2 else 1)
        box(fam="fermi", d=4, depth=1, meas=1)
        box(fam="fermi", d=5, depth=1, meas=0)
        for h in HBARS:
            for v in (True, False):
                for hn in GD3_HISTORIES:
                    box(fam="gd3", kind="gaussian", d=3, cutoff=3, hbar=h, validate=v, hist=hn, level="thorough")
    return B


def _root_names(bx, seed):
    from mc import c08_lib as K

    if bx["kind"] == "gaussian":
        names = list(K.gaussian_roots(bx["d"], seed))
    else:
        names = list(K.fock_roots(bx["kind"], bx["d"], bx["cutoff"], 2))
    sel = bx["roots"]
    if sel == "all":
        return names
    if sel == "vac+1":
        keep = [n for n in names if n.startswith("n") and sum(int(x) for x in n[1:]) <= 1][:2] + [n for n in names if n in ("sup", "mix")]
        return keep or names[:1]
    return [n for n in names if n in sel]


def _items(tier, seed):
    items = []
    for bi, bx in enumerate(_boxes(tier)):
        if bx["fam"] == "bfs":
            for rn in _root_names(bx, seed):
                for ch in range(bx["chunks"]):
                    it = dict(bx)
                    it.update(root=rn, chunk=ch, bi=bi)
                    items.append(it)
        elif bx["fam"] == "gd3":
            it = dict(bx)
            it.update(bi=bi)
            items.append(it)
        elif bx["fam"] == "passive_loss":
            for oi in range(_n_passive_occs(bx["d"])):
                it = dict(bx)
                it.update(bi=bi, occ_index=oi)
                items.append(it)
        elif bx["fam"] == "fermi":
            d = bx["d"]
            for occ in itertools.product((0, 1), repeat=d):
                for cutoff in sorted({d + 1, sum(occ) + 1}):
                    it = dict(bx)
                    it.update(root=list(occ), cutoff=cutoff, bi=bi)
                    items.append(it)
    return items


def _passive_occs(d):
    from mc.refmodel import passiveref as R

    occs = []
    for n in range(1, 4):
        occs.extend(R.sector(d, n))
    if d >= 3:
        occs = [o for o in occs if sum(o) >= 2 and max(o) <= 2][:6]
    return occs


def _n_passive_occs(d):
    return len(_passive_occs(d))


def _cost(it):
    from math import comb

    if it["fam"] == "bfs":
        d, c = it["d"], it["cutoff"]
        dim = 1 if it["kind"] == "gaussian" else comb(d + c - 1, d)
        n = {1: 14, 2: 50, 3: 110, 4: 300}.get(d, 300)
        return (n ** it["depth"]) / it["chunks"] * (1 + 0.05 * dim) + 200 * dim * it.get("meas", 0)
    if it["fam"] == "fermi":
        return 40 ** it["depth"] * it["d"]
    if it["fam"] == "gd3":
        return 2500
    return 3000


# ---------------------------------------------------------------------------------------
# run


def run(ctx, builddir):
    from mc import core
    from mc import c08_lib as K

    K.predicate_selftest()
    items = _items(ctx.tier, ctx.seed)
    only = getattr(ctx, "only", None)
    if only:  # development filter: comma separated tokens: gaussian / purefock / fock / passive / passive_loss / fermi, d2, c3
        toks = only.split(",")
        for t in toks:
            if t in ("gaussian", "purefock", "fock", "passive"):
                items = [it for it in items if it.get("kind") == t]
            elif t in ("passive_loss", "fermi", "bfs", "gd3"):
                items = [it for it in items if it["fam"] == t]
            elif t.startswith("d"):
                items = [it for it in items if it["d"] == int(t[1:])]
            elif t.startswith("c"):
                items = [it for it in items if it.get("cutoff") == int(t[1:])]
            elif t.startswith("D"):
                for it in items:
                    if "depth" in it:
                        it["depth"] = min(it["depth"], int(t[1:]))
        ctx.exhaustive = False
    items.sort(key=lambda it: -_cost(it))
    ctx.rule = (
        "per box (simulator, d, cutoff, hbar, depth): every root of the box (Gaussian: vacuum, thermal, generic mixed covariance + mean; "
        "Fock family: vacuum, every number state with <= 2 photons below the cutoff, one superposition / mixture) and every instruction "
        "sequence up to the box depth over the full alphabet (mc.lockstep.alphabet: every gate kind on every ORDERED mode tuple, plus "
        "channels, SNAP, CubicPhase, losses; fermionic: the alphabet of C17 from all 2^d number states); in every new state up to the "
        "box's measurement depth every measurement of the lattice (ordered mode subsets x outcomes / photon counts); a case = one "
        "state reached by an executed transition or one post-measurement branch state; d=3 general-dyne box: 3 entangling histories x 4 hbar x validate on/off "
        "x every ordered 1- and 2-mode tuple x every measurement of the general-dyne lattice x 3 (thorough: 4) lattice outcomes; distinct = canonical hash of the state "
        "(rounded 1e-9) + configuration; every state is non-trivial (all invariants of its class are evaluated on it)"
    )
    ctx.assume("uncertainty relation tested as lambda_min(sigma_xpxp/hbar + i*Omega) >= -1e-9 * max(1, max|sigma|/hbar) with Omega = direct sum of [[0,1],[-1,0]] "
               "(the library's symplectic_form); vacuum saturates it (self-test for hbar in 0.5, 2, 3.7)")
    ctx.assume("DeterministicGaussianChannel lattice: only (X, Y) valid under BOTH the documented condition Y + i Om >= i X Om X^T and the condition "
               "the library's validation actually tests (Y - i Om - i X Om X^T >= 0, a sign error: documented-valid channels such as pure loss are "
               "refused -- counted as refused_documented_valid_channel, a C13 matter)")
    ctx.assume("homodyne / heterodyne / general-dyne outcomes: Config.rng of the simulator is replaced by a lattice generator (mean + sqrt(hbar) * "
               "{0, 2.5, -7, 40 e_0} pattern, shots = number of lattice points); the branch frequencies 1/shots are not interpreted")
    ctx.assume("d=3 general-dyne box (both tiers): from the vacuum / a thermal state, three histories that entangle all three modes (a squeezer on every mode + beamsplitters "
               "0-1, 1-2; the same + Squeezing2(2,0) + a displacement; thermal + Squeezing2 + beamsplitters), then every measurement of mc.c08_lib.gd3_measurements "
               "(homodyne angles x detector squeezings, anisotropic / tilted / noisy / isotropic general-dyne covariances, heterodyne) on EVERY ordered tuple of one or "
               "two modes, for hbar in {0.5, 1, 2, 3.7} and Config(validate=True) as well as Config(validate=False); invariants on every conditional state")
    ctx.assume("purity = 1 and is_pure() are demanded only on histories of unitary gates from a pure root (Gaussian) resp. number-conserving gates from a pure "
               "root (mixed Fock representation, where truncation makes active gates non-unitary); post-measurement states: range only")
    ctx.assume("PassiveState: norm / probability sums are allowed 1e-11 (permanent-based tables), validate() is only demanded on lossless, not "
               "post-selected states (validate() documents that it rejects a non-unitary transmission matrix)")
    ctx.assume("fermionic Gaussian probabilities are sqrt(det(.)): upper range tolerance 1e-8, sum 1e-6 (see C17)")
    if ctx.tier == "quick":
        ctx.assume("quick tier is sized for <= ~4 CPU-minutes: all hbar in {0.5, 1, 2, 3.7} and all cutoffs 1..5 occur, depth 3 only at d=1, depth 2 at d<=2 in a few boxes, "
                   "d=3 at depth 1, fermionic d<=3; the thorough tier (measured 54 CPU-minutes) carries the deeper boxes, d=4 and fermionic d=4,5")
    ctx.assume("exceptions (unsupported cells, refusals, crashes such as PureFockSimulator after an Attenuator) are counted and not reported: C01 / C13 own them")
    core.pmap(ctx, "mc.checks.c08", "work", items, builddir)
    c = ctx.counters
    if not only:
        for k in ("gaussian", "purefock", "fock", "passive", "fgauss", "ffock"):
            if c.get("states_checked/" + k, 0) < 10:
                raise core.HarnessError("HARNESS-VACUOUS C08: fewer than 10 states checked on %s" % k)
        if c.get("branch_states_checked", 0) < 10:
            raise core.HarnessError("HARNESS-VACUOUS C08: no post-measurement branch states were checked")
        if c.get("gd3/branch_states_2_modes_measured_anisotropic", 0) < 100:
            raise core.HarnessError("HARNESS-VACUOUS C08: the d=3 general-dyne box checked fewer than 100 conditional states of two-mode anisotropic measurements")
    boxes = {}
    for it in items:
        if it["fam"] == "bfs":
            k = "%s d=%d cutoff=%d hbar=%g depth=%d alphabet=%s full<=%d meas<=%d post=%s" % (it["kind"], it["d"], it["cutoff"], it["hbar"], it["depth"], it["level"], it["full"], it["meas"], it["post"])
            boxes.setdefault(k, set()).add(it["root"])
        elif it["fam"] == "fermi":
            boxes.setdefault("fermionic d=%d depth=%d meas<=%d" % (it["d"], it["depth"], it["meas"]), set()).add("".join(map(str, it["root"])))
        elif it["fam"] == "gd3":
            boxes.setdefault("gaussian general-dyne d=3 cutoff=%d hbar=%g validate=%s lattice=%s" % (it["cutoff"], it["hbar"], it["validate"], it["level"]), set()).add(it["hist"])
        else:
            boxes.setdefault("passive_loss d=%d levels=%s" % (it["d"], list(it["levels"])), set()).add("c05-roots")
    return {
        "states": max(1, len(ctx.distinct)),
        "transitions": c.get("transitions", 0),
        "traces_validated_against_impl": c.get("states_checked", 0),
        "max_depth": c.get("max_depth", 0),
        "branch_states_checked": c.get("branch_states_checked", 0),
        "measurement_trees": c.get("measurement_trees", 0),
        "unsupported_cells": c.get("cells/unsupported", 0),
        "refused_cells": c.get("cells/refused", 0),
        "crash_cells_not_reported_here": c.get("cells/crash", 0),
        "states_checked_per_simulator": {k.split("/", 1)[1]: v for k, v in c.items() if k.startswith("states_checked/")},
        "boxes": {k: sorted(v) for k, v in sorted(boxes.items())},
        "explanation": "state = distinct canonical state (rounded moments / amplitudes / density matrix + class, d, cutoff, hbar) reached by an "
        "executed transition or as a post-measurement branch, merged over workers by hash; transition = one instruction (gate, channel, "
        "measurement with one outcome / photon-count vector) applied to a live state through execute_instructions; "
        "traces_validated_against_impl = successor and branch states on which the invariants were evaluated (every transition that "
        "returned a state); crash / refused / unsupported cells are transitions that raised and are not this property's subject",
    }


# ---------------------------------------------------------------------------------------
# reporting


class _Rep:
    def __init__(self, ctx, base, replaying=False):
        self.ctx, self.base, self.replaying = ctx, dict(base), replaying
        self.n = ctx.__dict__.setdefault("_c08_sig_seen", {})

    def report(self, findings, state, after_cls, case_extra):
        """findings: raw (sub, observable, message) of one state"""
        from mc import core
        from mc import c08_lib as K

        if not findings:
            return
        kind = self.base["kind"]
        for sub, obs, msg in findings:
            if sub == "probability_interface_raises":
                # an interface of a reachable state that raises is a crash, not an unphysical value: counted, not reported here
                self.ctx.count("interface_crash_cells")
                self.ctx.count("interface_crash/%s/%s/%s" % (type(state).__name__, obs, msg.split(" raised ")[-1].split(":")[0]))
                continue
            sig = {"check": "C08", "sub": sub, "observable": obs, "simulator": SIM_CLASS[kind], "state": type(state).__name__,
                   "after": K.gate_class(after_cls)}
            if sub == "validate_raises":
                # the defect is in the validator, not in the instruction that produced the state
                reason = msg.split("raised on ")[-1].split(": ", 1)[-1]
                sig = {"check": "C08", "sub": sub, "observable": "validate", "state": "FockState" if obs.startswith("reduced()") else type(state).__name__,
                       "reason": "".join(ch for ch in reason.split(".")[0].lower() if ch.isalpha() or ch == " ").strip().replace(" ", "_")[:60]}
            elif kind == "gaussian":
                sig["hbar_class"] = "hbar=2" if float(self.base["hbar"]) == 2.0 else "hbar!=2"
                if case_extra.get("measure") and not case_extra.get("post"):
                    sig["measurement"] = case_extra["measure"][0]
                    sig["measured_modes"] = "1" if len(case_extra["measure"][1]) == 1 else ">=2"
            elif type(state).__name__ == "PassiveState":
                # the defect sits in the probability routine selected by the configuration, not in the last instruction
                sig.pop("after")
                sig.update(K.passive_input_class(state))
            case = dict(self.base)
            case.update(case_extra)
            text = "%s: %s [%s]" % (SIM_CLASS[kind], msg, _describe(case))
            if self.replaying:
                self.ctx.violation(sig, case, text)
                continue
            k = json.dumps(sig, sort_keys=True)
            self.n[k] = self.n.get(k, 0) + 1
            self.ctx.count("violating_states")
            if self.n[k] > MAX_RECORDED_PER_SIG:
                continue
            probe = core.Check(self.ctx.prop, self.ctx.tier, self.ctx.seed, self.ctx.level)
            _replay_case(probe, core.jsonable(case))
            if not any(v.signature == sig for v in probe.violations):
                raise core.HarnessError("HARNESS-NONDETERMINISM C08: %s not reproduced on re-execution of %s" % (k, json.dumps(core.jsonable(case))[:800]))
            self.ctx.violation(sig, case, text)


def _describe(case):
    h = ["%s%s" % (t[0], tuple(t[1])) if isinstance(t, (list, tuple)) else "%s%s" % (t.get("g"), tuple(t.get("modes", ()))) for t in case.get("history", [])]
    s = "d=%s cutoff=%s hbar=%s root=%s history=%s" % (case.get("d"), case.get("cutoff"), case.get("hbar"), case.get("root"), h)
    if case.get("action"):
        t = case["action"]
        s += " action=%s%s" % ((t[0], tuple(t[1])) if isinstance(t, (list, tuple)) else (t.get("g"), tuple(t.get("modes", ()))))
    for k in ("measure", "post"):
        if case.get(k):
            t = case[k]
            s += " %s=%s%s%s" % (k, t[0], tuple(t[1]), json.dumps(t[2]) if k == "measure" and t[2] else "")
    if case.get("outcome") is not None:
        s += " outcome=%s" % (case["outcome"],)
    return s


# ---------------------------------------------------------------------------------------
# bosonic BFS


def _canon(state):
    import hashlib
    import numpy as np
    from mc import lockstep as L

    if "fermionic" not in type(state).__module__:
        return L.canon(state)
    h = hashlib.blake2b(digest_size=12)
    h.update(("%s/%s/%d" % (type(state).__module__, type(state).__name__, state.d)).encode())
    arr = np.asarray(state.covariance_matrix) if type(state).__name__ == "GaussianState" else np.asarray(state.state_vector)
    parts = (arr.real, arr.imag) if arr.dtype.kind == "c" else (arr,)
    for p in parts:
        h.update(np.round(np.asarray(p, dtype=float) * 1e9).astype(np.int64).tobytes())
    return h.digest()


def _env(kind, d, cutoff, hbar, validate=None):
    """simulator with a harness-owned rng"""
    import piquasso as pq
    from mc import lockstep as L
    from mc import c08_lib as K

    sim = L.make_simulator(kind, d, cutoff, hbar)
    if validate is not None and not validate:
        sim = type(sim)(d=d, config=pq.Config(cutoff=int(cutoff), hbar=float(hbar), validate=False))
    if kind == "gaussian":
        sim.config.rng = K.LatticeRng(hbar)
    return sim


def _actions(kind, d, cutoff, level, seed):
    from mc import lockstep as L
    from mc import c08_lib as K

    acts = list(L.alphabet(kind, d, level, seed))
    refused = []
    if kind == "gaussian":
        extra, refused = K.gaussian_channels(d, level, seed)
        acts += extra + refused
    elif kind in ("purefock", "fock"):
        acts += K.fock_extras(kind, d, cutoff, level, seed)
    elif kind == "passive":
        acts += K.passive_extras(d, level, seed)
    return acts, [json.dumps(K.tjson(t), sort_keys=True) for t in refused]


def _root(kind, d, cutoff, seed, name):
    from mc import c08_lib as K

    if kind == "gaussian":
        templates, pure = K.gaussian_roots(d, seed)[name]
    else:
        templates, pure, _ = K.fock_roots(kind, d, cutoff, 2)[name]
    return templates, pure


def _flags_after(flags, cls):
    """flags = (unitary_only, conserving_only)"""
    from mc import c08_lib as K

    return (flags[0] and K.is_unitary_gate(cls), flags[1] and cls in K.NUMBER_CONSERVING)


def _pure_expected(kind, state, root_pure, flags):
    name = type(state).__name__
    if not root_pure:
        return False
    if name == "GaussianState":
        return flags[0]
    if name == "FockState":
        return flags[1]
    return None


def _count_failure(ctx, f, t, refused_known):
    from mc import c08_lib as K

    ctx.count("cells/" + f.cls)
    if f.cls == "refused" and json.dumps(K.tjson(t), sort_keys=True) in refused_known:
        ctx.count("refused_documented_valid_channel")
    elif f.cls != "unsupported":
        ctx.count("cells/%s/%s/%s" % (f.cls, t[0], f.exc_type))


def _work_bfs(ctx, it):
    from mc import core
    from mc import lockstep as L
    from mc import c08_lib as K

    kind, d, cutoff, hbar, seed = it["kind"], it["d"], it["cutoff"], it["hbar"], ctx.seed
    sim = _env(kind, d, cutoff, hbar)
    root_t, root_pure = _root(kind, d, cutoff, seed, it["root"])
    actions, refused_known = _actions(kind, d, cutoff, it["level"], seed)
    base = {"fam": "bfs", "kind": kind, "d": d, "cutoff": cutoff, "hbar": hbar, "seed": seed, "root": it["root"], "level": it["level"]}
    rep = _Rep(ctx, base)
    stats = {}
    try:
        root = K.execute(sim, None, root_t, seed).state
    except core.HarnessError:
        raise
    except Exception as e:
        ctx.count("cells/root_refused/%s" % type(e).__name__)
        return
    flags0 = (True, True)
    seen = {_canon(root)}
    chunk, chunks = it["chunk"], it["chunks"]
    if chunk == 0:
        ctx.note_distinct(_canon(root) + repr((kind, d, cutoff, hbar)).encode())
        f = K.state_findings(root, pure_expected=_pure_expected(kind, root, root_pure, flags0), full=True, stats=stats)
        ctx.count("states_checked")
        ctx.count("states_checked/" + kind)
        rep.report(f, root, root_t[-1][0], {"history": [], "action": None})
        if it["meas"] >= 0 and not f:
            _measure(ctx, rep, sim, kind, root, (), it, stats)
    frontier = [(root, (), flags0)]
    for level in range(1, it["depth"] + 1):
        nxt = []
        for st, hist, fl in frontier:
            pn = K.state_norm(st)
            for ai, a in enumerate(actions):
                if level == 1 and ai % chunks != chunk:
                    continue
                child = K.try_step(sim, st, a, seed)
                ctx.count("transitions")
                ctx.counters["max_depth"] = max(ctx.counters.get("max_depth", 0), level)
                if isinstance(child, L.Failure):
                    _count_failure(ctx, child, a, refused_known)
                    if child.exc_type == "InvalidState" and isinstance(st, sim._state_class):
                        # the library's own validator rejects the state that this instruction computed from a valid state
                        rep.report([("invalid_state_raised", "execute_instructions", "the instruction raised InvalidState: %s" % child.message.split("\n")[0][:160])],
                                   st, a[0], {"history": [K.tjson(t) for t in hist], "action": K.tjson(a)})
                    continue
                fl2 = _flags_after(fl, a[0])
                key = _canon(child)
                new = key not in seen
                same_class = isinstance(child, sim._state_class)
                f = K.state_findings(child, pure_expected=_pure_expected(kind, child, root_pure, fl2), parent_norm=pn if type(child) is type(st) else None,
                                     conserving=a[0] in K.NUMBER_CONSERVING, full=(new and level <= it["full"]), stats=stats)
                ctx.count("states_checked")
                ctx.count("states_checked/" + kind)
                ctx.count("after/" + K.gate_class(a[0]))
                rep.report(f, child, a[0], {"history": [K.tjson(t) for t in hist], "action": K.tjson(a)})
                if not new:
                    continue
                seen.add(key)
                ctx.note_distinct(key + repr((kind, d, cutoff, hbar, fl2)).encode())
                if f:
                    continue
                if not same_class:
                    ctx.count("not_expanded_state_class_changed")
                    continue
                if level <= it["meas"]:
                    _measure(ctx, rep, sim, kind, child, hist + (a,), it, stats)
                if level < it["depth"]:
                    nxt.append((child, hist + (a,), fl2))
                if len(ctx.samples) < ctx.max_samples and level >= 2 and kind in ("gaussian", "fock") and a[0] in ("Attenuator", "DeterministicGaussianChannel"):
                    ctx.sample({"simulator": SIM_CLASS[kind], "d": d, "cutoff": cutoff, "hbar": hbar, "root": it["root"],
                                "history": [K.short(t) for t in hist + (a,)], "purity": float(child.get_purity())})
        frontier = nxt
    for k, v in stats.items():
        kk = ("max_" if k.startswith("max_") else "") + "stat/%s/%s" % (kind, k)
        if k.startswith("min_"):
            ctx.extra["max_neg_" + kk] = max(ctx.extra.get("max_neg_" + kk, 0.0), -v)
        elif k.startswith("max_"):
            ctx.extra[kk] = max(ctx.extra.get(kk, -1.0), v)
        else:
            ctx.count(kk, v)


# ---------------------------------------------------------------------------------------
# measurement trees


def _gauss_measurements(d, level):
    out = [("HomodyneMeasurement", {"phi": 0.3}), ("HeterodyneMeasurement", {}),
           ("GeneraldyneMeasurement", {"detection_covariance": [[2.0, 0.3], [0.3, 0.545]]})]
    if level == "thorough":
        out += [("HomodyneMeasurement", {"phi": -1.2, "z": 0.01}), ("GeneraldyneMeasurement", {"detection_covariance": [[1.5, 0.0], [0.0, 1.5]]})]
    return out


def _measure(ctx, rep, sim, kind, st, hist, it, stats):
    """grow the measurement lattice below one state and check every branch state"""
    from mc import lockstep as L
    from mc import c08_lib as K

    seed = ctx.seed
    d = st.d
    hist_j = [K.tjson(t) for t in hist]
    if kind == "gaussian":
        shots = len(K.LatticeRng.OFFSETS) if it["level"] == "thorough" else 3
        for M in K.ordered_subsets(d, 1, d - 1):
            for cls, params in _gauss_measurements(d, it["level"]):
                t = (cls, M, params)
                ctx.count("measurement_trees")
                _eval_measure(ctx, rep, sim, kind, st, hist_j, t, shots, stats)
        return
    if kind in ("purefock", "fock", "passive"):
        cutoff = int(st._config.cutoff)
        for M in K.ordered_subsets(d, 1, d):
            t = ("ParticleNumberMeasurement", M, {})
            ctx.count("measurement_trees")
            outcomes = _eval_measure(ctx, rep, sim, kind, st, hist_j, t, None, stats)
            if it["post"] and outcomes and kind in ("purefock", "passive") and len(M) < d:
                _post_gates(ctx, rep, sim, kind, st, hist_j, t, it, stats)
        if kind in ("purefock", "passive"):
            nmax = cutoff - 1
            for M in K.ordered_subsets(d, 1, d - 1 if kind == "passive" else d):
                for pc in L.fock_basis(len(M), nmax + 1):
                    t = ("PostSelectPhotons", M, {"photon_counts": [int(x) for x in pc]})
                    ctx.count("measurement_trees")
                    ok = _eval_measure(ctx, rep, sim, kind, st, hist_j, t, None, stats)
                    if it["post"] and ok and len(M) < d and (sum(pc) <= 1 or it["level"] == "thorough"):
                        _post_gates(ctx, rep, sim, kind, st, hist_j, t, it, stats)


def _branches(sim, st, templates, seed, shots):
    from mc import c08_lib as K

    res = K.execute(sim, st, templates, seed, shots=shots)
    return list(res.branches)


def _eval_measure(ctx, rep, sim, kind, st, hist_j, t, shots, stats, post=None, collect=None, full_branches=None):
    """execute [measurement (, post gate)] on st and check weights and branch states.  Returns the list of outcomes (None on failure).
    full_branches: None = the probability interfaces of every branch state are evaluated, k = only of the first k branches."""
    import numpy as np
    from mc import lockstep as L
    from mc import c08_lib as K

    templates = [t] + ([post] if post is not None else [])
    ctx.count("transitions")
    try:
        branches = _branches(sim, st, templates, ctx.seed, shots)
    except Exception as e:
        f = L.Failure(e)
        ctx.count("cells/" + f.cls)
        if f.cls != "unsupported":
            ctx.count("cells/%s/%s/%s" % (f.cls, (post or t)[0], f.exc_type))
        if f.exc_type == "InvalidState":
            # the library's own validator rejects the post-measurement state it computed from a valid state
            rep.report([("invalid_state_raised", "execute_instructions", "the measurement raised InvalidState: %s" % f.message.split("\n")[0][:160])], st,
                       (post or t)[0], {"history": hist_j, "action": None, "measure": K.tjson(t), "post": K.tjson(post) if post is not None else None, "outcome": None})
        return None
    extra = {"history": hist_j, "action": None, "measure": K.tjson(t), "post": K.tjson(post) if post is not None else None}
    is_pnm = t[0] == "ParticleNumberMeasurement"
    if shots is None:
        w = np.array([float(b.frequency) for b in branches])
        f = []
        K._rng_ok(w, "branch weights", f, sum_hi=1 + K.TOL)
        f = [("branch_weight_range", "Result.branches.frequency", m) for _, _, m in f]
        if f:
            rep.report(f, st, t[0], dict(extra, outcome=None))
    outcomes = []
    parent = collect or {}
    for bi, b in enumerate(branches):
        outcome = [float(x) for x in b.outcome]
        outcomes.append(tuple(outcome))
        if b.state is None:
            ctx.count("branches_without_state")
            continue
        ctx.count("branch_states_checked")
        ctx.count("states_checked")
        ctx.count("states_checked/" + kind)
        ctx.note_distinct(_canon(b.state) + repr((kind, "branch", rep.base["hbar"], int(getattr(b.state._config, "cutoff", 0)))).encode() if b.state.d else repr(("d0", outcome)))
        kw = {"full": post is None and b.state.d >= 1 and (full_branches is None or bi < full_branches), "stats": stats}
        if is_pnm and kind != "passive" and shots is None:
            kw["relax"] = 1.0 / max(min(1.0, float(b.frequency)), 1e-8)
        if post is None:
            kw["normalised_expected"] = is_pnm and kind != "passive"
        else:
            kw["parent_norm"] = parent.get(tuple(outcome))
            kw["conserving"] = post[0] in K.NUMBER_CONSERVING
        f = K.state_findings(b.state, **kw) if b.state.d >= 1 else _d0_findings(b.state)
        rep.report(f, b.state, post[0] if post is not None else t[0], dict(extra, outcome=outcome, branch=bi))
        if collect is not None and post is None:
            collect[tuple(outcome)] = K.state_norm(b.state)
    return outcomes


def _d0_findings(state):
    """a state on zero modes: only its norm is left"""
    from mc import c08_lib as K

    n = K.state_norm(state)
    if n is not None and n > 1 + K.TOL:
        return [("norm_exceeds_one", "norm", "zero-mode branch state has norm %.12g" % n)]
    return []


def _post_gates(ctx, rep, sim, kind, st, hist_j, t, it, stats):
    """[measurement, gate] in ONE program: the gate addresses the remaining modes by their original labels"""
    from mc import lockstep as L
    from mc import c08_lib as K

    d = st.d
    rest = [m for m in range(d) if m not in t[1]]
    # parent norms per outcome from the measurement alone
    norms = {}
    try:
        for b in _branches(sim, st, [t], ctx.seed, None):
            if b.state is not None:
                norms[tuple(float(x) for x in b.outcome)] = K.state_norm(b.state)
    except Exception:
        return
    k = len(rest)
    sub = [a for a in L.alphabet(kind, k, "quick", ctx.seed) if a[1]]
    for a in sub:
        if it["level"] != "thorough" and a[0] not in ("Beamsplitter", "Phaseshifter", "Squeezing", "Displacement", "Kerr", "CrossKerr", "Interferometer", "Attenuator"):
            continue
        post = (a[0], tuple(rest[m] for m in a[1]), a[2])
        _eval_measure(ctx, rep, sim, kind, st, hist_j, t, None, stats, post=post, collect=norms)


# ---------------------------------------------------------------------------------------
# d = 3 Gaussian general-dyne box: entangled three-mode states, every ordered one- and two-mode measurement


def _work_gd3(ctx, it):
    from mc import core
    from mc import c08_lib as K

    kind, d, cutoff, hbar, seed = "gaussian", 3, it["cutoff"], it["hbar"], ctx.seed
    root_name, hist = K.gd3_histories(seed)[it["hist"]]
    sim = _env(kind, d, cutoff, hbar, it["validate"])
    if bool(sim.config.validate) != bool(it["validate"]):
        raise core.HarnessError("C08 gd3: Config.validate of the simulator is %r, wanted %r" % (sim.config.validate, it["validate"]))
    root_t, root_pure = _root(kind, d, cutoff, seed, root_name)
    base = {"fam": "bfs", "kind": kind, "d": d, "cutoff": cutoff, "hbar": hbar, "seed": seed, "root": root_name, "level": it["level"], "validate": bool(it["validate"])}
    rep = _Rep(ctx, base)
    stats = {}
    st = K.execute(sim, None, root_t, seed).state
    flags = (True, True)
    done = ()
    for t in hist:
        child = K.try_step(sim, st, t, seed)
        ctx.count("transitions")
        if not isinstance(child, sim._state_class):
            raise core.HarnessError("C08 gd3: the history step %s did not return a state: %r" % (K.short(t), child))
        flags = _flags_after(flags, t[0])
        f = K.state_findings(child, pure_expected=_pure_expected(kind, child, root_pure, flags), full=False, stats=stats)
        ctx.count("states_checked")
        ctx.count("states_checked/" + kind)
        rep.report(f, child, t[0], {"history": [K.tjson(x) for x in done], "action": K.tjson(t)})
        if f:
            return
        st, done = child, done + (t,)
    ctx.counters["max_depth"] = max(ctx.counters.get("max_depth", 0), len(hist))
    ctx.note_distinct(_canon(st) + repr((kind, d, cutoff, hbar, "gd3")).encode())
    # the three modes must really be entangled / correlated pairwise: otherwise the box would be vacuous
    import numpy as np

    cov = np.asarray(st.xpxp_covariance_matrix) / hbar
    for a, b in ((0, 1), (0, 2), (1, 2)):
        if np.abs(cov[2 * a:2 * a + 2, 2 * b:2 * b + 2]).max() < 0.05:
            raise core.HarnessError("HARNESS-VACUOUS C08 gd3: modes %d and %d of history %s are (almost) uncorrelated" % (a, b, it["hist"]))
    hist_j = [K.tjson(t) for t in done]
    shots = len(K.LatticeRng.OFFSETS) if it["level"] == "thorough" else 3
    for M in K.ordered_subsets(d, 1, d - 1):
        for cls, params in K.gd3_measurements(it["level"]):
            t = (cls, M, params)
            ctx.count("measurement_trees")
            n0 = ctx.counters.get("branch_states_checked", 0)
            # the reported probabilities of a conditional state: on the first lattice outcome, in the validate=False runs (the validate=True runs
            # execute the same mathematics and add the library's own validation of the conditional state)
            _eval_measure(ctx, rep, sim, kind, st, hist_j, t, shots, stats, full_branches=0 if it["validate"] else 1)
            iso = cls == "HeterodyneMeasurement" or (cls == "GeneraldyneMeasurement" and params["detection_covariance"][0][0] == params["detection_covariance"][1][1]
                                                     and params["detection_covariance"][0][1] == 0.0)
            ctx.count("gd3/branch_states_%d_modes_measured_%s" % (len(M), "isotropic" if iso else "anisotropic"), ctx.counters.get("branch_states_checked", 0) - n0)
    if len(ctx.samples) < ctx.max_samples and it["hist"] == "sq3bs2s2" and not it["validate"]:
        ctx.sample({"simulator": SIM_CLASS[kind], "box": "gd3", "d": d, "hbar": hbar, "validate": False, "root": root_name, "history": [K.short(t) for t in done],
                    "measured": "every ordered 1- and 2-mode tuple x %d measurements x %d outcomes" % (len(K.gd3_measurements(it["level"])), shots)})
    for k, v in stats.items():
        kk = ("max_" if k.startswith("max_") else "") + "stat/gd3/%s" % k
        if k.startswith("min_"):
            ctx.extra["max_neg_" + kk] = max(ctx.extra.get("max_neg_" + kk, 0.0), -v)
        elif k.startswith("max_"):
            ctx.extra[kk] = max(ctx.extra.get(kk, -1.0), v)


# ---------------------------------------------------------------------------------------
# passive states with losses, post-selections, distinguishability: the program space of C05


def _work_passive_loss(ctx, it):
    import piquasso as pq
    from mc import core
    from mc import c08_lib as K

    try:
        from mc.checks import c05
        cat = c05._cat(ctx.seed)
    except Exception as e:  # pragma: no cover
        raise core.HarnessError("C08: cannot reuse the passive program space of mc.checks.c05: %r" % (e,))
    d = it["d"]
    base = {"fam": "passive_loss", "kind": "passive", "d": d, "cutoff": None, "hbar": 2.0, "seed": ctx.seed, "root": None}
    rep = _Rep(ctx, base)
    stats = {}
    seen = set()
    for occ in [tuple(_passive_occs(d)[it["occ_index"]])]:
        n = sum(occ)
        which = ("ind", "ov0.4", "g:cplx2") if n >= 2 else ("ind",)
        for tag, ov in c05._variants(cat, n, which):
            prog = c05._root_program(cat, d, occ, tag, ov, "U")
            model = c05.Model(d)
            for st in prog:
                model.apply(st)
            frontier = [(prog, model)]
            for depth, level in enumerate([None] + list(it["levels"])):
                nxt = []
                for prog0, m0 in frontier:
                    acts = [None] if level is None else c05.alphabet(cat, m0, level)
                    for act in acts:
                        prog1 = prog0 + ([act] if act is not None else [])
                        m1 = m0.copy()
                        if act is not None:
                            m1.apply(act)
                            ctx.count("transitions")
                        try:
                            sim = pq.PassiveSimulator(d=d)
                            state = sim.execute_instructions([c05._instruction(pq, s) for s in prog1], shots=None).state
                        except Exception:
                            ctx.count("cells/refused")
                            continue
                        key = c05._canon(state, m1)
                        new = key not in seen
                        f = K.passive_findings(state, full=new, stats=stats)
                        ctx.count("states_checked")
                        ctx.count("states_checked/passive")
                        ctx.counters["max_depth"] = max(ctx.counters.get("max_depth", 0), depth)
                        if m1.post:
                            ctx.count("branch_states_checked")
                        rep.report(f, state, prog1[-1]["cls"], {"program": prog1, "history": [[s["cls"], s["modes"], {}] for s in prog1]})
                        if new:
                            seen.add(key)
                            ctx.note_distinct(key)
                            if not f and depth < len(it["levels"]):
                                nxt.append((prog1, m1))
                frontier = nxt
    for k, v in stats.items():
        if k.startswith("unsupported/"):
            ctx.count("cells/unsupported", v)


# ---------------------------------------------------------------------------------------
# fermionic simulators (alphabet and execution helpers of C17)


def _work_fermi(ctx, it):
    import piquasso as pq
    from mc import core
    from mc import c08_lib as K

    try:
        from mc.checks import c17
    except Exception as e:  # pragma: no cover
        raise core.HarnessError("C08: cannot import mc.checks.c17: %r" % (e,))
    d, cutoff, occ = it["d"], it["cutoff"], tuple(it["root"])
    full_cut = cutoff == d + 1
    acts = c17.alphabet(d, ctx.tier, ctx.seed)
    gs, fs = c17._sims(d, cutoff)
    stats = {}
    for kind, sim in (("fgauss", gs), ("ffock", fs)):
        if kind == "fgauss" and not full_cut:
            continue
        base = {"fam": "fermi", "kind": kind, "d": d, "cutoff": cutoff, "hbar": 2.0, "seed": ctx.seed, "root": list(occ), "tier": ctx.tier}
        rep = _Rep(ctx, base)
        try:
            root = sim.execute_instructions([pq.NumberState(occ)]).state
        except Exception:
            ctx.count("cells/root_refused")
            continue
        f = K.state_findings(root, full=True, stats=stats)
        ctx.count("states_checked")
        ctx.count("states_checked/" + kind)
        ctx.note_distinct(_canon(root) + repr((kind, cutoff)).encode())
        rep.report(f, root, "NumberState", {"history": [], "action": None})
        if f:
            continue
        seen = {_canon(root)}
        frontier = [(root, ())]
        if kind == "ffock" and it["meas"] >= 0:
            _fermi_measure(ctx, rep, sim, root, (), acts, stats)
        for level in range(1, it["depth"] + 1):
            nxt = []
            for st, hist in frontier:
                pn = K.state_norm(st)
                for a in acts:
                    if not full_cut and not c17._lowcut_ok(a):
                        continue
                    if kind == "ffock" and a["g"] == "GH":
                        continue
                    child, err = c17._apply(sim, st, a)
                    ctx.count("transitions")
                    ctx.counters["max_depth"] = max(ctx.counters.get("max_depth", 0), level)
                    if child is None:
                        ctx.count("cells/" + ("unsupported" if err[0] == "refusal" else "crash"))
                        if type(err[1]).__name__ == "InvalidState":
                            rep.report([("invalid_state_raised", "execute_instructions", "the instruction raised InvalidState: %s" % str(err[1]).split("\n")[0][:160])],
                                       st, c17.CLS[a["g"]], {"history": c17._case(d, cutoff, occ, [acts[i] for i in hist])["path"], "action": c17._case(d, cutoff, occ, [], action=a)["action"]})
                        continue
                    key = _canon(child)
                    new = key not in seen
                    # every fermionic gate is unitary on the full 2^d space (cutoff d+1); below it only passive gates run
                    f = K.state_findings(child, parent_norm=pn, conserving=True, full=new, stats=stats)
                    ctx.count("states_checked")
                    ctx.count("states_checked/" + kind)
                    rep.report(f, child, c17.CLS[a["g"]], {"history": [c17._case(d, cutoff, occ, [acts[i] for i in hist])["path"]][0], "action": c17._case(d, cutoff, occ, [], action=a)["action"]})
                    if not new:
                        continue
                    seen.add(key)
                    ctx.note_distinct(key + repr((kind, cutoff)).encode())
                    if f:
                        continue
                    if kind == "ffock" and level <= it["meas"]:
                        _fermi_measure(ctx, rep, sim, child, hist + (a["i"],), acts, stats)
                    if level < it["depth"]:
                        nxt.append((child, hist + (a["i"],)))
            frontier = nxt


def _fermi_measure(ctx, rep, sim, st, hist, acts, stats):
    import numpy as np
    import piquasso as pq
    from mc import c08_lib as K
    from mc.checks import c17

    d = st.d
    cutoff = rep.base["cutoff"]
    occ = rep.base["root"]
    path = c17._case(d, cutoff, occ, [acts[i] for i in hist])["path"]
    for M in K.ordered_subsets(d, 1, d):
        ctx.count("measurement_trees")
        ctx.count("transitions")
        try:
            res = sim.execute_instructions([pq.ParticleNumberMeasurement().on_modes(*M)], initial_state=st, shots=None)
        except Exception:
            ctx.count("cells/unsupported")
            continue
        extra = {"history": path, "action": None, "measure": ["ParticleNumberMeasurement", list(M), {}]}
        w = np.array([float(b.frequency) for b in res.branches])
        f = []
        K._rng_ok(w, "branch weights", f, sum_hi=1 + K.TOL)
        if f:
            rep.report([("branch_weight_range", "Result.branches.frequency", m) for _, _, m in f], st, "ParticleNumberMeasurement", dict(extra, outcome=None))
        for bi, b in enumerate(res.branches):
            if b.state is None:
                continue
            ctx.count("branch_states_checked")
            ctx.count("states_checked")
            ctx.count("states_checked/ffock")
            if b.state.d >= 1:
                f = K.fermi_fock_findings(b.state, normalised_expected=True, full=False, stats=stats)
                ctx.note_distinct(_canon(b.state) + b"fbranch")
            else:
                f = _d0_findings(b.state)
            rep.report(f, b.state, "ParticleNumberMeasurement", dict(extra, outcome=[int(x) for x in b.outcome], branch=bi))


# ---------------------------------------------------------------------------------------
# work / replay


def work(ctx, item):
    import time

    t0 = time.process_time()
    try:
        _work(ctx, item)
    finally:
        ctx.extra["timing_cpu_ms_in_workers"] = ctx.extra.get("timing_cpu_ms_in_workers", 0) + int(1000 * (time.process_time() - t0))


def _work(ctx, item):
    if item["fam"] == "bfs":
        _work_bfs(ctx, item)
    elif item["fam"] == "passive_loss":
        _work_passive_loss(ctx, item)
    elif item["fam"] == "gd3":
        _work_gd3(ctx, item)
    else:
        _work_fermi(ctx, item)


def _replay_case(ctx, case):
    """re-execute one recorded case from its root without the explorer and evaluate the same invariants"""
    import piquasso as pq
    from mc import core
    from mc import lockstep as L
    from mc import c08_lib as K

    fam, kind, d = case["fam"], case["kind"], case["d"]
    seed = case.get("seed", ctx.seed)
    ctx.seed = seed
    base = {k: case.get(k) for k in ("fam", "kind", "d", "cutoff", "hbar", "seed", "root", "level", "tier")}
    if case.get("validate") is not None:
        base["validate"] = bool(case["validate"])
    rep = _Rep(ctx, base, replaying=True)
    if fam == "passive_loss":
        from mc.checks import c05

        prog = case["program"]
        sim = pq.PassiveSimulator(d=d)
        state = sim.execute_instructions([c05._instruction(pq, s) for s in prog], shots=None).state
        rep.report(K.passive_findings(state, full=True), state, prog[-1]["cls"], {"program": prog, "history": case.get("history", [])})
        return
    if fam == "fermi":
        from mc.checks import c17

        gs, fs = c17._sims(d, case["cutoff"])
        sim = gs if kind == "fgauss" else fs
        st = sim.execute_instructions([pq.NumberState(tuple(case["root"]))]).state
        for a in case["history"]:
            st, err = c17._apply(sim, st, c17._decode_action(a))
            if st is None:
                raise core.HarnessError("C08 replay: fermionic prefix could not be rebuilt")
        extra = {"history": case["history"], "action": case.get("action")}
        if case.get("measure"):
            M = tuple(case["measure"][1])
            res = sim.execute_instructions([pq.ParticleNumberMeasurement().on_modes(*M)], initial_state=st, shots=None)
            extra["measure"] = case["measure"]
            for bi, b in enumerate(res.branches):
                if case.get("outcome") is not None and [int(x) for x in b.outcome] != [int(x) for x in case["outcome"]]:
                    continue
                f = K.fermi_fock_findings(b.state, normalised_expected=True) if b.state.d >= 1 else _d0_findings(b.state)
                rep.report(f, b.state, "ParticleNumberMeasurement", dict(extra, outcome=case.get("outcome"), branch=bi))
            return
        if case.get("action") is None:
            rep.report(K.state_findings(st, full=True), st, "NumberState", extra)
            return
        pn = K.state_norm(st)
        a = c17._decode_action(case["action"])
        child, err = c17._apply(sim, st, a)
        if child is not None:
            rep.report(K.state_findings(child, parent_norm=pn, conserving=True, full=True), child, c17.CLS[a["g"]], extra)
        elif type(err[1]).__name__ == "InvalidState":
            rep.report([("invalid_state_raised", "execute_instructions", "the instruction raised InvalidState: %s" % str(err[1]).split("\n")[0][:160])], st, c17.CLS[a["g"]], extra)
        return
    cutoff, hbar = case["cutoff"], case["hbar"]
    sim = _env(kind, d, cutoff, hbar, case.get("validate"))
    root_t, root_pure = _root(kind, d, cutoff, seed, case["root"])
    st = K.execute(sim, None, root_t, seed).state
    flags = (True, True)
    hist = [K.as_t(t) for t in case.get("history", [])]
    for t in hist:
        st = K.execute(sim, st, [t], seed).state
        flags = _flags_after(flags, t[0])
    last_cls = hist[-1][0] if hist else root_t[-1][0]
    if case.get("action") is not None:
        a = K.as_t(case["action"])
        pn = K.state_norm(st)
        child = K.try_step(sim, st, a, seed)
        if isinstance(child, L.Failure):
            if child.exc_type == "InvalidState":
                rep.report([("invalid_state_raised", "execute_instructions", "the instruction raised InvalidState: %s" % child.message.split("\n")[0][:160])],
                           st, a[0], {"history": case["history"], "action": case["action"]})
            return
        fl2 = _flags_after(flags, a[0])
        f = K.state_findings(child, pure_expected=_pure_expected(kind, child, root_pure, fl2), parent_norm=pn if type(child) is type(st) else None,
                             conserving=a[0] in K.NUMBER_CONSERVING, full=True)
        rep.report(f, child, a[0], {"history": case["history"], "action": case["action"]})
        return
    if not case.get("measure"):
        f = K.state_findings(st, pure_expected=_pure_expected(kind, st, root_pure, flags), full=True)
        rep.report(f, st, last_cls, {"history": case.get("history", []), "action": None})
        return
    t = K.as_t(case["measure"])
    post = K.as_t(case["post"]) if case.get("post") else None
    shots = None
    if kind == "gaussian":
        shots = len(K.LatticeRng.OFFSETS) if case.get("level") == "thorough" else 3
    norms = {}
    if post is not None:
        for b in _branches(sim, st, [t], seed, shots):
            if b.state is not None:
                norms[tuple(float(x) for x in b.outcome)] = K.state_norm(b.state)
    sub = core.Check(ctx.prop, ctx.tier, seed, ctx.level)
    rep2 = _Rep(sub, base, replaying=True)
    _eval_measure(sub, rep2, sim, kind, st, case.get("history", []), t, shots, {}, post=post, collect=norms if post is not None else None)
    for v in sub.violations:
        if case.get("outcome") is None or v.case.get("outcome") is None or list(v.case.get("outcome")) == list(case["outcome"]):
            ctx.violation(v.signature, v.case, v.message)


def replay(ctx, case, signature):
    _replay_case(ctx, case)
    same = [v for v in ctx.violations if v.signature == signature]
    if same:
        ctx.violations[:] = same
