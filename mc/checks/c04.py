"""C04 -- matrix-function kernels equal their combinatorial definitions.

Bounded-exhaustive input enumeration (DESIGN "### C04"): every pair of multiplicity
vectors up to a total on small shapes x a matrix alphabet of exactly representable
Gaussian rationals x dtype x memory layout x entry point, each executed on the real
kernels (rebuilt pybind modules, numba hafnians, JAX extension) and compared with the
exact reference values of mc/refmodel/kernels.py; the same vectors run through standalone
drivers that #include the repository's src/*.cpp unmodified under ASan/UBSan.

Sub-explorations (item[0], usable with --only):
  perm       permanent / permanent_laplace values through the pybind module
  perm_san   the same kernels in the sanitizer driver (forced job counts)
  haf        hafnian / loop hafnian (numba)
  hafb       batched (loop) hafnians: every base occupation vector (photons already in the batched
             last mode included) x every cutoff <= 8, each entry vs the exact reference of the
             un-batched reduction and vs the library's own un-batched function
  jaxhaf     piquasso/_math/jax/hafnian.py
  tor        torontonian / loop torontonian values + sanitizer driver
  pf         Pfaffian values + sanitizer driver
  variants   dtype x memory layout x entry point on a fixed set of inputs
"""

import itertools
import math
import os
import sys
from fractions import Fraction

LEVEL = "exploration"

EPS64 = 2.0**-53
EPS32 = 2.0**-24
GLYNN_K = 256.0  # allowance GLYNN_K * unit roundoff * (sum of |addends| of the Glynn formula)

_REPORT_CAP = 2  # violations forwarded per (item, signature); the rest are only counted


# =======================================================================================
# run / items
# =======================================================================================


def _tier(ctx):
    q = ctx.tier == "quick"
    return {
        "q": q,
        "a2_T": 10 if q else 40,
        "a2_T32": 6 if q else 10,
        "s2_T": 20 if q else 40,
        "s2_T32": 10,
        "band": (21, 40) if q else None,  # high-multiplicity band (rows exhaustive, few cols) on top of s2_T
        "s3_T": 8 if q else 14,
        "s3_T32": 5 if q else 8,
        "kk_all": {4: 4, 5: 3, 6: 3, 7: 2, 8: 2} if q else {4: 8, 5: 6, 6: 5, 7: 4, 8: 4},
        "kk_T": 5 if q else 8,
        "rect": {(1, 1): 40, (1, 2): 20 if q else 40, (2, 1): 20 if q else 40, (1, 3): 8 if q else 14, (3, 1): 8 if q else 14,
                 (2, 3): 6 if q else 10, (3, 2): 6 if q else 10, (2, 4): 4 if q else 7, (4, 2): 4 if q else 7},
        "lap": {(2, 2): 12 if q else 36, (3, 3): 5 if q else 9, (2, 3): 4 if q else 8, (3, 2): 4 if q else 8, (4, 4): 3 if q else 5, (1, 1): 36,
                (1, 2): 10 if q else 34, (2, 1): 10 if q else 34},
        "lap_band": (33, 36) if q else None,
        "san": {(2, 2): 16 if q else 40, (3, 3): 8 if q else 12, (4, 4): 4 if q else 6, (1, 1): 40, (2, 3): 5 if q else 8, (3, 2): 5 if q else 8, (5, 5): 3 if q else 5},
        "san_band": (17, 40) if q else None,
        "san_hw": (1, 3) if q else (1, 2, 3, 16),
        "haf_T": {1: 8, 2: 8, 3: 7, 4: 6} if q else {1: 12, 2: 10, 3: 10, 4: 10, 5: 8, 6: 6},
        # batched variants: EVERY base occupation vector (last entry zero or not) up to the total, every cutoff
        "hafb_T": {1: 6, 2: 6, 3: 5, 4: 5} if q else {1: 10, 2: 8, 3: 8, 4: 7, 5: 6, 6: 6},
        "hafb_cutoffs": tuple(range(1, 9)),
        "jaxhaf_T": 3 if q else 6,
        "tor_n": 5 if q else 6,
        "pf_n": 8,
    }


def _items(ctx):
    from mc import c04_inputs as IN

    t = _tier(ctx)
    items = []
    # --- permanent values -------------------------------------------------------------
    for name, _ in IN.alpha2():
        items.append(("perm", "permanent", 2, 2, name, 0, t["a2_T"], "all", t["a2_T32"], 0, 1))
    for name, _ in IN.perm_matrices(ctx.seed, 2, 2, ctx.tier):
        items.append(("perm", "permanent", 2, 2, name, 0, t["s2_T"], "all", t["s2_T32"], 0, 1))
        if t["band"]:
            items.append(("perm", "permanent", 2, 2, name, t["band"][0], t["band"][1], "few", 0, 0, 1))
    for name, _ in IN.perm_matrices(ctx.seed, 3, 3, ctx.tier):
        n = 1 if t["q"] else 3
        for c in range(n):
            items.append(("perm", "permanent", 3, 3, name, 0, t["s3_T"], "all", t["s3_T32"], c, n))
    for k in range(4, 9):
        for name, _ in IN.perm_matrices(ctx.seed, k, k, ctx.tier):
            ta = t["kk_all"][k]
            nch = 1 if t["q"] else (2 if k <= 5 else 4)
            for c in range(nch):
                items.append(("perm", "permanent", k, k, name, 0, ta, "all", min(ta, 6), c, nch))
            nch = (1 if k < 7 else 2) if t["q"] else (2 if k < 6 else (6 if k < 8 else 12))
            for c in range(nch if ta < t["kk_T"] else 0):
                items.append(("perm", "permanent", k, k, name, ta + 1, t["kk_T"], "reps", 0, c, nch))
    for (k, l), T in sorted(t["rect"].items()):
        for name, _ in IN.perm_matrices(ctx.seed, k, l, ctx.tier):
            items.append(("perm", "permanent", k, l, name, 0, T, "all", min(T, 8), 0, 1))
    # --- Laplace variant values -------------------------------------------------------
    for (k, l), T in sorted(t["lap"].items()):
        mats = IN.perm_matrices(ctx.seed, k, l, ctx.tier)
        if (k, l) == (2, 2):
            mats = mats + [m for m in IN.alpha2() if m[0] in ("a2_1111", "a2_1ii1", "a2_1001", "a2_1i00", "a2_01i1")]
        for name, _ in mats:
            items.append(("perm", "permanent_laplace", k, l, name, 0, T, "all", min(T, 8), 0, 1))
            if (k, l) == (2, 2) and t["lap_band"]:
                items.append(("perm", "permanent_laplace", k, l, name, t["lap_band"][0], t["lap_band"][1], "few", 0, 0, 1))
    # --- sanitizer driver: permanent --------------------------------------------------
    for kernel in ("permanent", "permanent_laplace"):
        for (k, l), T in sorted(t["san"].items()):
            if kernel == "permanent_laplace":
                T = min(T, 36 if (k, l) in ((2, 2), (1, 1)) else T)
            nch = 1
            if (k, l) == (2, 2):
                nch = 2 if t["q"] else 8
            if (k, l) in ((3, 3), (5, 5), (4, 4)):
                nch = 2 if t["q"] else 8
            for c in range(nch):
                items.append(("perm_san", kernel, k, l, 0, T, "all", c, nch))
            if (k, l) == (2, 2) and t["san_band"]:
                lo, hi = t["san_band"]
                if kernel == "permanent_laplace":
                    hi = 36
                items.append(("perm_san", kernel, k, l, lo, hi, "few", 0, 1))
    # --- hafnians -----------------------------------------------------------------------
    for m, T in sorted(t["haf_T"].items()):
        for name, _ in IN.haf_matrices(ctx.seed, m, ctx.tier):
            items.append(("haf", m, name, T))
    for m, T in sorted(t["hafb_T"].items()):
        nch = 1 if (t["q"] or m <= 3) else (2 if m == 4 else 4)
        for name, _ in IN.haf_matrices(ctx.seed, m, ctx.tier):
            for c in range(nch):
                items.append(("hafb", m, name, T, c, nch))
    items.append(("jaxhaf", t["jaxhaf_T"]))
    # --- torontonian ---------------------------------------------------------------------
    for n in range(0, t["tor_n"] + 1):
        items.append(("tor", n))
    # --- Pfaffian ------------------------------------------------------------------------
    for n in range(0, t["pf_n"] + 1):
        items.append(("pf", n, "structured"))
    items.append(("pf", 4, "all3"))
    for c in range(4):
        items.append(("pf", 6, "all01", c, 4))
    # --- dtype x layout x entry point ---------------------------------------------------
    for which in ("permanent", "hafnian", "torontonian", "pfaffian", "jaxperm"):
        items.append(("variants", which))
    # --- (lead) homogeneity under power-of-two scaling: matrices of very small / very large norm ----
    for m in (2, 3, 4):
        items.append(("hafscale", m))
    return items


def _cost(item):
    """Rough relative cost, to start the heavy items first."""
    if item[0] == "perm":
        _, kernel, k, l, name, lo, hi, mode, _, _, nch = item
        return (hi**(k + l - 2) if mode == "all" else hi**(k - 1) * 40) / nch * (2 if kernel == "permanent_laplace" else 1)
    if item[0] == "perm_san":
        _, kernel, k, l, lo, hi, mode, _, nch = item
        return 4 * hi**(k + l - 2) / nch
    if item[0] == "jaxhaf":
        return 1e9
    if item[0] == "variants":
        return 5e8
    if item[0] == "haf":
        return item[3]**item[1] * 300
    if item[0] == "hafb":
        return item[3]**item[1] * 8000 / item[5]
    if item[0] == "tor":
        return 4.0**item[1] * 5000
    return 1e5


def run(ctx, builddir):
    from concurrent.futures import ThreadPoolExecutor

    from mc import c04_native as N
    from mc import core
    from mc.refmodel import kernels as K

    n_self = K.self_test()
    ctx.count("reference_self_test_cases", n_self)
    only = getattr(ctx, "only", None)
    # build the sanitizer drivers once, in the parent (cached by source hash)
    names = ["perm_driver", "tor_driver", "pf_driver"]
    if only:
        names = [n for n in names if {"perm_driver": "perm", "tor_driver": "tor", "pf_driver": "pf"}[n] in only or "variants" in only]
    with ThreadPoolExecutor(6) as ex:
        list(ex.map(lambda a: N.build_driver(a[0], builddir, sweep=a[1]), [(n, sw) for n in names for sw in (False, True)]))

    items = _items(ctx)
    if only:
        # development filter: comma separated prefixes of "/".join(item), e.g. "tor,perm/permanent/3/3,variants/jaxperm"
        pref = [o.strip() for o in only.split(",") if o.strip()]
        items = [it for it in items if any(("/".join(str(x) for x in it) + "/").startswith(o.rstrip("/") + "/") for o in pref)]
    items.sort(key=lambda it: -_cost(it))
    ctx.rule = (
        "bounded-exhaustive: every pair (rows, cols) of multiplicity vectors with equal totals up to the tier bound per shape "
        "(all pairs on 1x1..4x4 and small totals; for larger k x k and the high-multiplicity band every ROW vector x representative column "
        "vectors), crossed with a matrix alphabet of exactly representable entries (all 81 2x2 matrices over {0,1,i}, structured families, "
        "seed-derived generic Gaussian rationals p/16+iq/16); every reduction vector up to a total for the (loop) hafnian; for the batched "
        "variants every base occupation vector up to a total on 1..4 (thorough: 1..6) modes -- zero AND non-zero last (batched) entry -- x every "
        "cutoff 1..8 x the symmetric-matrix alphabet (x the diagonal vectors for the loop variant), each returned entry k against the exact "
        "reference of the un-batched reduction occ + k*e_last and against the library's own un-batched function; structured + generic positive-definite inputs for the (loop) torontonian on n<=5(6) modes; every antisymmetric 4x4 matrix "
        "over {-1,0,1}, every 6x6 over {0,1} above the diagonal, structured/generic n<=8 for the Pfaffian; dtype x layout x entry point on a "
        "fixed input set.  A case = one kernel call compared with the exact reference; distinct = distinct (kernel, shape, rows, cols / "
        "reduction / matrix) keys; non-trivial = total >= 1 (a reference value had to be computed)."
    )
    ctx.assume("reference values: exact Gaussian-integer / Fraction arithmetic in mc/refmodel/kernels.py (contingency tables, matchings, subset sums); its routes are cross-checked against Ryser / permutations / pairings at start-up")
    ctx.assume("float64 tolerance |got-ref| <= 1e-9 + 1e-9*scale (permanent: 1e-9*scale, no absolute term), scale = the same defining sum over |entries| (perm|A|, haf|A|, sum of |subset terms|, sum over matchings of |products|)")
    ctx.assume("permanent only: a case failing the above is still accepted if |got-ref| <= %g*u*S, S = sum of the absolute values of the addends of the Glynn/BBFG formula the documentation says is implemented (u = unit roundoff); measured worst case on the unchanged tree is ~3*u*S" % GLYNN_K)
    ctx.assume("float32 overloads: 5e-4*(1+scale) (permanent: 5e-4*scale + the same Glynn allowance with u=2^-24), compared only for totals <= 10 where float32 does not overflow")
    ctx.assume("pool workers run with OMP_THREAD_LIMIT=1: the native permanent's job partition min(4*hardware_concurrency, idx_max) is unchanged, the jobs run on one thread (thread orders are C11's subject); hardware_concurrency()=%d on this machine, the sanitizer driver forces other values" % (os.cpu_count() or 0))
    ctx.assume("Laplace variant: semantics taken from the only caller (passive/sampling.py:_calculate_pmf): sum(cols)=sum(rows)+1, entry l = perm(A; rows, cols-e_l); entries with cols[l]=0 are undefined and not compared")
    ctx.assume("batched hafnians: output[k] = (loop) hafnian with the LAST occupation number raised by k (base + k, k < cutoff), as tests/_math/test_hafnian.py states it "
               "(occupation_numbers + k*mask); compared for EVERY base vector, whether its last entry is 0 (the only use inside the library: "
               "gaussian/simulation_steps.py:_generate_sample) or not; the entry is also compared with the library's own un-batched function at twice the tolerance")
    ctx.assume("batched sub-exploration only: a reduction whose defining sum is EMPTY (scale 0, exact value 0: e.g. odd total with an all-zero diagonal) and whose total "
               "exceeds %d is compared with 1e-9*(1+S1), S1 = sum_i occ_i*S(occ-e_i) = the |products| of the matchings that leave one vertex unmatched, instead of the bare "
               "absolute 1e-9: the power-trace formula produces this zero by cancelling addends of that size (measured residue 1e-10 at total 11, 4e-9 at 13, 3e-8 at 15 next to "
               "even-total values of 1e5..1e9); every other entry, and every empty-sum entry up to total %d, keeps the default tolerance" % (EMPTY_SUM_TOTAL, EMPTY_SUM_TOTAL))
    ctx.assume("sanitizer drivers: -O1 -g -fsanitize=address,undefined -fno-sanitize-recover=undefined, ASAN_OPTIONS=detect_leaks=0 (leaks are outside the property's wording); the sweeps run a recover-mode build of the same drivers (one report per faulting source location per process) and every vector with a report or a wrong value is re-executed alone under the strict build before it is reported")
    if any(it[0] in ("haf", "hafb", "variants") for it in items):
        # one process fills numba's on-disk cache for every (function, array layout) signature the
        # sweep uses, so that 16 workers do not compile the same parallel kernels concurrently
        core.pmap(ctx, "mc.checks.c04", "work", [("warm",)], builddir, procs=1, env={"OMP_THREAD_LIMIT": "1"})
    core.pmap(ctx, "mc.checks.c04", "work", items, builddir, env={"OMP_THREAD_LIMIT": "1"})
    c = ctx.counters
    if c.get("sanitizer_vectors_skipped_after_repeated_driver_deaths"):
        ctx.exhaustive = False
    return {
        "evaluations": c.get("kernel_calls_compared", 0) + c.get("sanitizer_executions", 0),
        "explanation": "evaluations = kernel calls whose result was compared with the exact reference (pybind / numba / JAX entry points) "
        "plus executions of the same inputs in the sanitizer drivers",
        "items": len(items),
        "bounds": {k: (v if not isinstance(v, dict) else {str(kk): vv for kk, vv in v.items()}) for k, v in _tier(ctx).items() if k != "q"},
    }


# =======================================================================================
# common helpers
# =======================================================================================


class _Reporter:
    """Caps the number of violations forwarded per signature inside one work item and
    enforces the run-twice rule through the replay path."""

    def __init__(self, ctx):
        self.ctx = ctx
        self.seen = {}

    def report(self, case, presig=None):
        """``presig``: a cheap prediction of the signature (e.g. the parsed sanitizer report);
        once _REPORT_CAP cases with that prediction were confirmed and forwarded, further ones
        are only counted (no re-execution)."""
        import json

        from mc import core

        self.ctx.count("violating_cases")
        if presig is not None:
            pkey = "pre:" + json.dumps(presig, sort_keys=True)
            if self.seen.get(pkey, 0) >= _REPORT_CAP:
                self.ctx.count("violating_cases_not_forwarded_(same_signature)")
                return
            self.seen[pkey] = self.seen.get(pkey, 0) + 1
        res = evaluate_case(case)
        if res is None:
            raise core.HarnessError(
                "HARNESS-NONDETERMINISM C04: case violated inside the sweep but passes when re-executed alone: %s" % json.dumps(core.jsonable(case))[:600]
            )
        sig, msg = res
        key = json.dumps(sig, sort_keys=True)
        n = self.seen.get(key, 0)
        self.seen[key] = n + 1
        if n < _REPORT_CAP:
            self.ctx.violation(sig, case, msg)
        else:
            self.ctx.count("violating_cases_not_forwarded_(same_signature)")


def _err(a, b):
    """|a - b| that cannot raise (inf / nan results of a kernel must become a mismatch)."""
    try:
        d = abs(a - b)
    except OverflowError:
        return math.inf
    return d if d == d else math.inf


def _family_class(family):
    """Coarse, stable input class of the non-permanent kernels: seed-derived generic inputs,
    exhaustively enumerated small-alphabet inputs, or the hand-written structured families
    (zero / identity / zero pivots / block / chain ...)."""
    if family == "generic":
        return "generic"
    if family.startswith("all_over"):
        return "small_alphabet"
    return "structured"


def _cfloat(fr):
    return complex(float(fr[0]), float(fr[1]))


def _g_to_c(g, d):
    if d == 1:
        try:
            return complex(float(g[0]), float(g[1]))
        except OverflowError:
            return complex(math.inf, math.inf)
    return complex(float(Fraction(g[0], d)), float(Fraction(g[1], d)))


def _native(name):
    """The freshly built pybind module (preloaded by build.install_native)."""
    full = "piquasso._math." + name
    mod = sys.modules.get(full)
    if mod is None or not getattr(mod, "__verif_built__", False):
        from mc import build

        build.install_native()
        mod = sys.modules[full]
    return mod


def _np_complex(mat, dtype):
    import numpy as np
    from mc.refmodel import kernels as K

    return np.array(K.matrix_to_complex(mat), dtype=np.complex128).astype(np.complex64 if dtype == "float32" else np.complex128).reshape(
        len(mat[0]), len(mat[0][0]) if mat[0] else 0
    )


def _garbage(shape, dtype):
    import numpy as np

    g = np.empty(shape, dtype=dtype)
    g[...] = 7.5 if g.dtype.kind != "c" else 7.5 - 3.25j
    return g


def with_layout(a, layout):
    """An array with the same logical content as ``a`` and the requested memory layout."""
    import numpy as np

    a = np.array(a)
    if layout == "C":
        out = np.ascontiguousarray(a)
    elif layout == "F":
        out = np.asfortranarray(a) if a.ndim == 2 else np.ascontiguousarray(a)
    elif layout == "step2":
        big = _garbage(tuple(2 * s for s in a.shape), a.dtype) if a.dtype.kind in "fc" else np.full(tuple(2 * s for s in a.shape), 5, dtype=a.dtype)
        sl = tuple(slice(None, None, 2) for _ in a.shape)
        big[sl] = a
        out = big[sl]
    elif layout == "neg":
        sl = tuple(slice(None, None, -1) for _ in a.shape)
        out = np.ascontiguousarray(a[sl])[sl]
    elif layout == "offset":
        big = _garbage(tuple(s + 3 for s in a.shape), a.dtype) if a.dtype.kind in "fc" else np.full(tuple(s + 3 for s in a.shape), 5, dtype=a.dtype)
        sl = tuple(slice(1, 1 + s) for s in a.shape)
        big[sl] = a
        out = big[sl]
    elif layout == "readonly":
        out = np.ascontiguousarray(a).copy()
        out.setflags(write=False)
    else:
        raise ValueError(layout)
    assert out.shape == a.shape and np.array_equal(out, a)
    return out


# =======================================================================================
# single-case evaluation (used to confirm a violation and by replay)
# =======================================================================================


def evaluate_case(case):
    """Re-execute one recorded case.  Returns None if it passes, else (signature, message)."""
    return globals()["_eval_" + case["kind"]](case)


def replay(ctx, case, signature):
    if "kind" not in case and "item" in case:
        # a process_crash recorded by core.pmap: the whole work item killed its worker twice
        from mc import build, c04_child

        item = case["item"]
        exported, crash = c04_child.run_contained("item", ctx.tier, ctx.seed, build.ensure_built(), item)
        if crash is not None:
            ctx.violation(signature, case, "work item %r still kills the process (exit status %s): %s" % (item, crash.get("returncode"), crash.get("stderr_tail", "")[-300:]))
        return
    if case.get("contained"):
        from mc import build, c04_child

        bd = build.ensure_built()
        if case.get("kind") == "crash_item":
            exported, crash = c04_child.run_contained("item", ctx.tier, ctx.seed, bd, case["item"])
        else:
            plain = {k: v for k, v in case.items() if k != "contained"}
            exported, crash = c04_child.run_contained("case", ctx.tier, ctx.seed, bd, plain)
        if crash is not None:
            _crash_violation(ctx, crash, case)
        elif exported is not None:
            for sig, c, msg in exported["violations"]:
                ctx.violation(sig, c, msg)
        return
    if case.get("kind") == "hafscale":
        _work_hafscale(ctx, ("hafscale", case["m"]))
        return
    res = evaluate_case(case)
    if res is not None:
        res2 = evaluate_case(case)
        from mc import core

        if res2 is None or res2[0] != res[0]:
            raise core.HarnessError("HARNESS-NONDETERMINISM C04 replay: two executions disagree")
        ctx.violation(res[0], case, res[1])


# ---- permanent ----------------------------------------------------------------------------


def _perm_reference(mat, kernel, rows, cols):
    """(reference list of complex or None, scale list) for permanent / Laplace."""
    from mc.refmodel import kernels as K

    num, den = mat
    tab = K.PermanentTables(num)
    tabf = K.PermanentTablesFloat(K.matrix_abs_float(mat))
    d = den ** sum(rows)
    if kernel == "permanent":
        return [_g_to_c(tab.value(rows, cols), d)], [tabf.value(rows, cols)]
    refs, scales = [], []
    for l, c in enumerate(cols):
        if c == 0:
            refs.append(None)
            scales.append(None)
            continue
        cl = list(cols)
        cl[l] -= 1
        refs.append(_g_to_c(tab.value(rows, cl), d))
        scales.append(tabf.value(rows, cl))
    return refs, scales


def _perm_tolerance(dtype, scale):
    """Purely relative to perm|A| (no absolute term: the entries of the generic matrices are
    < 1 in modulus and high-multiplicity permanents are tiny); what rounding adds beyond that
    is covered by the Glynn allowance."""
    return (5e-4 if dtype == "float32" else 1e-9) * scale


def _perm_glynn_allowance(mat, dtype, rows, cols):
    from mc.refmodel import kernels as K

    s = K.glynn_scale(K.matrix_to_complex(mat), rows, cols)
    return GLYNN_K * (EPS32 if dtype == "float32" else EPS64) * s


def _perm_compare(mat, kernel, dtype, rows, cols, got):
    """None if ok else a message.  ``got``: list of complex (length 1 for the permanent)."""
    refs, scales = _perm_reference(mat, kernel, rows, cols)
    if kernel == "permanent_laplace":
        if sum(rows) == 0 and len(got) == 1 and len(refs) != 1:
            # early return of the kernel for an empty row total: one entry, the permanent of
            # the empty matrix; only meaningful for the single column that holds the photon
            return None if abs(got[0] - 1.0) <= 1e-9 else "Laplace variant with empty rows returned %r, expected [1]" % (got,)
        if len(got) != len(refs):
            return "Laplace variant returned %d entries for %d columns" % (len(got), len(refs))
    worst = None
    for l, (g, r, s) in enumerate(zip(got, refs, scales)):
        if r is None:
            continue
        err = _err(g, r)
        tol = _perm_tolerance(dtype, s)
        if not err <= tol:
            cl = list(cols)
            if kernel == "permanent_laplace":
                cl[l] -= 1
            allow = _perm_glynn_allowance(mat, dtype, rows, cl)
            if not err <= tol + allow:
                worst = "entry %d: got %r, exact %r, |diff| %.3g > tol %.3g (scale perm|A| = %.6g, Glynn allowance %.3g)" % (l, g, r, err, tol, s, allow)
                break
    return worst


def _perm_call(entry, A, rows, cols, kernel):
    """Call one entry point; returns a list of complex."""
    import numpy as np

    if entry == "pybind":
        mod = _native("permanent")
        out = getattr(mod, kernel)(A, rows, cols)
    elif entry == "NumpyConnector":
        import piquasso as pq

        conn = pq.NumpyConnector()
        out = (conn.permanent if kernel == "permanent" else conn.permanent_laplace)(A, rows, cols)
    elif entry in ("jax_eager", "jax_jit", "JaxConnector"):
        import jax
        import jax.numpy as jnp
        from mc import c04_child

        c04_child.trace(_TRACE.get("case"))
        jax.config.update("jax_enable_x64", True)
        from piquasso.jax_extensions import perm

        if entry == "JaxConnector":
            import piquasso as pq

            out = pq.JaxConnector().permanent(jnp.asarray(A), np.asarray(rows), np.asarray(cols))
        else:
            f = perm if entry == "jax_eager" else _jitted_perm()
            out = f(jnp.asarray(A, dtype=jnp.complex128), jnp.asarray(np.asarray(rows), dtype=jnp.uint64), jnp.asarray(np.asarray(cols), dtype=jnp.uint64))
        out = np.asarray(out)
    else:
        raise ValueError(entry)
    out = np.asarray(out)
    return [complex(x) for x in out.reshape(-1)]


_JIT = {}
_TRACE = {}


def _jitted_perm():
    if "perm" not in _JIT:
        import jax
        from piquasso.jax_extensions import perm

        _JIT["perm"] = jax.jit(perm)
    return _JIT["perm"]


def _eval_perm(case):
    import numpy as np
    from mc import c04_inputs as IN

    mat = (case["matrix"]["num"], case["matrix"]["den"])
    mat = ([[tuple(e) for e in row] for row in mat[0]], mat[1])
    kernel, dtype = case["kernel"], case["dtype"]
    rows, cols = tuple(case["rows"]), tuple(case["cols"])
    entry, layout = case.get("entry", "pybind"), case.get("layout", "C")
    idt = case.get("index_dtype", "int64")
    _TRACE["case"] = case

    def call(entry, layout, dtype, idt):
        A = with_layout(_np_complex(mat, dtype), layout)
        if idt == "list":
            r, c = list(rows), list(cols)
        else:
            r = with_layout(np.array(rows, dtype=idt), layout if layout in ("step2", "neg", "readonly") else "C")
            c = with_layout(np.array(cols, dtype=idt), layout if layout in ("step2", "neg", "readonly") else "C")
        return _perm_call(entry, A, r, c, kernel)

    got = call(entry, layout, dtype, idt)
    msg = _perm_compare(mat, kernel, dtype, rows, cols, got)
    if msg is None:
        return None
    sig = {"check": "C04", "sub": "value", "kernel": kernel, "input_class": IN.weight_class(rows)}
    baseline = (entry, layout, dtype, idt) == ("pybind", "C", "float64", "int64")
    if not baseline:
        def fails(e, lay, dt, it):
            try:
                return _perm_compare(mat, kernel, dt, rows, cols, call(e, lay, dt, it)) is not None
            except (TypeError, NotImplementedError):
                return False

        if not fails("pybind", "C", "float64", "int64"):
            # the plain float64 / contiguous / pybind call is right: a variant factor is at fault.
            # Name the factors that fail on their own; if none does, name all non-default ones.
            alone = {}
            if entry != "pybind" and fails(entry, "C", "float64", "int64"):
                alone["entry"] = entry
            if layout != "C" and fails("pybind", layout, "float64", "int64"):
                alone["layout"] = layout
            if idt != "int64" and fails("pybind", "C", "float64", idt):
                alone["index_dtype"] = idt
            if dtype != "float64" and fails("pybind", "C", dtype, "int64"):
                alone["dtype"] = dtype
            if not alone:
                if entry != "pybind":
                    alone["entry"] = entry
                if layout != "C":
                    alone["layout"] = layout
                if idt != "int64":
                    alone["index_dtype"] = idt
                if dtype != "float64":
                    alone["dtype"] = dtype
            sig.update(alone)
    return sig, "%s(%s, rows=%s, cols=%s) [%s, %s, %s]: %s" % (kernel, case.get("matrix_name", "?"), rows, cols, entry, layout, dtype, msg)


def _eval_perm_san(case):
    from mc import build, c04_native as N

    mat = ([[tuple(e) for e in row] for row in case["matrix"]["num"]], case["matrix"]["den"])
    from mc.refmodel import kernels as K

    exe = N.build_driver("perm_driver", build.ensure_built())
    vec = N.perm_vector(case["kernel"], case["dtype"], case["hw"], K.matrix_to_complex(mat), case["rows"], case["cols"])
    (r,) = N.run_vectors(exe, [vec])
    return _san_result("perm", case["kernel"], r, lambda vals: _perm_compare(
        mat, case["kernel"], case["dtype"], tuple(case["rows"]), tuple(case["cols"]), [complex(vals[2 * i], vals[2 * i + 1]) for i in range(len(vals) // 2)]
    ), case, weight=True)


def _san_result(family, kernel, r, compare, case, weight=False):
    """Classify one DriverRun: sanitizer report / crash / value mismatch / ok."""
    from mc import c04_inputs as IN

    if r.report is not None:
        sig = {"check": "C04", "sub": "sanitizer", "kernel": kernel, "tool": r.report["tool"], "kind": r.report["kind"], "where": r.report["where"]}
        if r.report["where"].startswith("torontonian_common."):
            sig["kernel"] = "torontonian+loop_torontonian"  # helper shared by both kernels
        import re

        first = next((l for l in r.report_text.splitlines() if "runtime error" in l or "ERROR:" in l), "")
        access = next((l.strip() for l in r.report_text.splitlines() if l.startswith(("READ of size", "WRITE of size"))), "")
        first = re.sub(r"==\d+==", "", first)
        first = re.sub(r" on address .*$", "", first)
        access = re.sub(r" at 0x[0-9a-f]+.*$", "", access)
        return sig, "%s under the sanitizer driver: %s at %s -- %s %s" % (kernel, r.report["kind"], r.report["where"], first.strip()[:300], access)
    if r.crashed is not None and r.values is None:
        sig = {"check": "C04", "sub": "sanitizer", "kernel": kernel, "tool": "crash", "kind": "exit-%s" % r.crashed, "where": "unknown"}
        return sig, "%s driver died without a sanitizer report: %s" % (kernel, r.report_text[-400:])
    if r.error is not None:
        sig = {"check": "C04", "sub": "driver_exception", "kernel": kernel}
        return sig, "%s threw in the driver: %s" % (kernel, r.error)
    msg = compare(r.values)
    if msg is None:
        return None
    sig = {"check": "C04", "sub": "value", "kernel": kernel}
    if weight:
        sig["input_class"] = IN.weight_class(case["rows"])
    else:
        sig["input_class"] = _family_class(case.get("family", "?"))
    return sig, "%s in the native driver (hw=%s, %s): %s" % (kernel, case.get("hw"), case.get("dtype"), msg)


# ---- hafnians -------------------------------------------------------------------------------


EMPTY_SUM_TOTAL = 10  # see _empty_sum_scale


def _empty_sum_scale(absA, absD, o):
    """Scale used by the batched sub-exploration (hafb) for an entry whose DEFINING SUM IS EMPTY
    (scale 0: no (loop-)perfect matching with a non-zero weight exists, e.g. an odd total
    without loops; the exact value is 0) when the total exceeds EMPTY_SUM_TOTAL: the sum of
    |products| over the matchings that leave exactly one vertex unmatched,
    S1 = sum_i occ_i * S(occ - e_i).  The power-trace formula obtains such a zero by cancelling
    addends of that magnitude (measured residue on the unchanged tree: 1e-10 at total 11,
    4e-9 at 13, 3e-8 at 15, 4e-6 at 17 next to even-total values of 1e5..1e9), so the fixed
    absolute term 1e-9 alone is not 'floating-point accuracy' there."""
    from mc.refmodel import kernels as K

    o = tuple(int(x) for x in o)
    return sum(n * K.matchings_abs_float(absA, absD, o[:i] + (n - 1,) + o[i + 1:]) for i, n in enumerate(o) if n)


def _haf_reference(mat, diag, kernel, occ, cutoff, rule=None):
    """([refs], [scales]).  rule="hafb": see _empty_sum_scale."""
    from mc.refmodel import kernels as K

    absA = K.matrix_abs_float(mat)
    absD = None if diag is None else [math.hypot(e[0], e[1]) / diag[1] for e in diag[0]]
    loop = kernel.startswith("loop")
    occs = [tuple(occ)]
    if kernel.endswith("batch"):
        occs = [tuple(occ[:-1]) + (occ[-1] + i,) for i in range(cutoff)]
    refs, scales = [], []
    for o in occs:
        if loop:
            refs.append(_cfloat(K.loop_hafnian_exact(mat, diag, o)))
            scales.append(K.matchings_abs_float(absA, absD, o))
        else:
            refs.append(_cfloat(K.hafnian_exact(mat, o)))
            scales.append(K.matchings_abs_float(absA, None, o))
        if rule == "hafb" and scales[-1] == 0.0 and sum(o) > EMPTY_SUM_TOTAL:
            scales[-1] = _empty_sum_scale(absA, absD if loop else None, o)
    return refs, scales


def _haf_call(entry, kernel, A, D, occ, cutoff):
    import numpy as np

    if entry == "numba":
        from piquasso._math import hafnian as H

        if kernel == "hafnian":
            out = H.hafnian_with_reduction(A, occ)
        elif kernel == "loop_hafnian":
            out = H.loop_hafnian_with_reduction(A, D, occ)
        elif kernel == "hafnian_batch":
            out = H.hafnian_with_reduction_batch(A, occ, cutoff)
        else:
            out = H.loop_hafnian_with_reduction_batch(A, D, occ, cutoff)
    elif entry == "NumpyConnector":
        import piquasso as pq

        conn = pq.NumpyConnector()
        if kernel == "hafnian":
            out = conn.hafnian(A, occ)
        elif kernel == "loop_hafnian":
            out = conn.loop_hafnian(A, D, occ)
        elif kernel == "loop_hafnian_batch":
            out = conn.loop_hafnian_batch(A, D, occ, cutoff)
        else:
            raise ValueError(kernel)
    elif entry in ("jax", "JaxConnector"):
        import jax
        import jax.numpy as jnp

        jax.config.update("jax_enable_x64", True)
        if entry == "jax":
            from piquasso._math.jax.hafnian import loop_hafnian_with_reduction as f
        else:
            import piquasso as pq

            f = pq.JaxConnector().loop_hafnian
        out = f(jnp.asarray(A), jnp.asarray(D), np.asarray(occ))
    else:
        raise ValueError(entry)
    return [complex(x) for x in np.asarray(out).reshape(-1)]


def _haf_compare(refs, scales, got):
    if len(got) != len(refs):
        return "returned %d entries, expected %d" % (len(got), len(refs))
    for i, (g, r, s) in enumerate(zip(got, refs, scales)):
        err = _err(g, r)
        tol = 1e-9 + 1e-9 * s
        if not err <= tol:
            return "entry %d: got %r, exact %r, |diff| %.3g > tol %.3g (scale %.6g)" % (i, g, r, err, tol, s)
    return None


def _eval_haf(case):
    import numpy as np
    from mc.refmodel import kernels as K

    mat = ([[tuple(e) for e in row] for row in case["matrix"]["num"]], case["matrix"]["den"])
    diag = None
    if case.get("diag") is not None:
        diag = ([tuple(e) for e in case["diag"]["num"]], case["diag"]["den"])
    kernel, occ, cutoff = case["kernel"], tuple(case["occ"]), case.get("cutoff")
    entry, layout = case.get("entry", "numba"), case.get("layout", "C")

    def call(entry, layout):
        A = with_layout(np.array(K.matrix_to_complex(mat), dtype=np.complex128).reshape(len(mat[0]), len(mat[0])), layout)
        D = None
        if diag is not None:
            D = with_layout(np.array([complex(Fraction(e[0], diag[1]), Fraction(e[1], diag[1])) for e in diag[0]], dtype=np.complex128), layout if layout != "F" else "C")
        o = with_layout(np.array(occ, dtype=np.int64), layout if layout not in ("F",) else "C")
        return _haf_call(entry, kernel, A, D, o, cutoff)

    refs, scales = _haf_reference(mat, diag, kernel, occ, cutoff, rule=case.get("tol_rule"))
    batch = kernel.endswith("batch")

    def unbatched():
        """What the library's own un-batched function returns for the reductions occ + k*e_last."""
        A = np.array(K.matrix_to_complex(mat), dtype=np.complex128).reshape(len(mat[0]), len(mat[0]))
        D = None if diag is None else np.array([complex(Fraction(e[0], diag[1]), Fraction(e[1], diag[1])) for e in diag[0]], dtype=np.complex128)
        out = []
        for k in range(cutoff):
            o = np.array(occ[:-1] + (occ[-1] + k,), dtype=np.int64)
            out += _haf_call("numba", kernel[: -len("_batch")], A, D, o, None)
        return out

    def compare(got):
        """(message or None, sub): vs the exact reference, then (batched only) vs the library's un-batched values."""
        msg = _haf_compare(refs, scales, got)
        if msg is not None or not batch:
            return msg, "value"
        msg = _haf_compare(unbatched(), [2 * s + 1 for s in scales], got)
        return (None if msg is None else "vs the library's un-batched function: " + msg), "batch_vs_unbatched"

    try:
        msg, sub = compare(call(entry, layout))
    except (TypeError, NotImplementedError):
        raise  # a refusal of the argument types / an unsupported cell: the caller's business
    except Exception as e:  # noqa: BLE001 -- a valid reduction must not make the kernel raise
        if not batch:
            raise
        sig = {"check": "C04", "sub": "exception", "kernel": kernel, "exception": type(e).__name__,
               "input_class": "last_occupation_nonzero" if occ[-1] != 0 else ("generic" if case.get("family", "?") == "generic" else "structured")}
        return sig, "%s(%s, diag=%s, occ=%s, cutoff=%s) [%s, %s] raised %s: %s" % (
            kernel, case.get("matrix_name"), case.get("diag_name"), occ, cutoff, entry, layout, type(e).__name__, str(e)[:300])
    if msg is None:
        return None
    if batch and sub == "value":
        msg += "; the library's own un-batched function returns %r for the same reductions" % (unbatched(),)
    got_now = call(entry, layout)
    finite = all(math.isfinite(g.real) and math.isfinite(g.imag) for g in got_now)
    sig = {"check": "C04", "sub": sub if finite else "nonfinite", "kernel": kernel,
           "input_class": "generic" if case.get("family", "?") == "generic" else "structured"}
    if batch and occ[-1] != 0:
        # photons already present in the batched (last) mode: a class of its own (the library's
        # callers and tests never pass it), whatever the matrix family / cutoff
        sig["input_class"] = "last_occupation_nonzero"
    if entry in ("jax", "JaxConnector"):
        sig["kernel"] = "jax_loop_hafnian"
        if entry == "JaxConnector" and _haf_compare(refs, scales, call("jax", "C")) is None:
            sig["entry"] = entry
    elif (entry, layout) != ("numba", "C"):
        if _haf_compare(refs, scales, call("numba", "C")) is None:
            if entry != "numba":
                sig["entry"] = entry
            if layout != "C":
                sig["layout"] = layout
    if batch and occ[-1] == 0:
        sig["cutoff_class"] = "cutoff<=2" if cutoff <= 2 else "cutoff>=3"
    return sig, "%s(%s, diag=%s, occ=%s, cutoff=%s) [%s, %s]: %s" % (kernel, case.get("matrix_name"), case.get("diag_name"), occ, cutoff, entry, layout, msg)


# ---- torontonian ----------------------------------------------------------------------------


def _tor_reference(case):
    from mc.refmodel import kernels as K

    num, den = case["matrix"]["num"], case["matrix"]["den"]
    A = [[Fraction(x, den) for x in row] for row in num]
    y = None
    if case["kernel"] == "loop_torontonian":
        y = [Fraction(x, case["disp"]["den"]) for x in case["disp"]["num"]]
    return K.torontonian_ref(A, y)


def _tor_arrays(case, dtype, layout):
    import numpy as np

    num, den = case["matrix"]["num"], case["matrix"]["den"]
    dim = len(num)
    npd = np.float32 if dtype == "float32" else np.float64
    A = with_layout(np.array([[x / den for x in row] for row in num], dtype=np.float64).reshape(dim, dim).astype(npd), layout)
    y = None
    if case["kernel"] == "loop_torontonian":
        y = with_layout(np.array([x / case["disp"]["den"] for x in case["disp"]["num"]], dtype=np.float64).astype(npd), layout if layout != "F" else "C")
    return A, y


def _tor_tol(dtype, scale):
    return 5e-4 * (1.0 + scale) if dtype == "float32" else 1e-9 + 1e-9 * scale


def _eval_tor(case):
    mod = _native("torontonian")
    dtype, layout = case.get("dtype", "float64"), case.get("layout", "C")
    ref, scale = _tor_reference(case)

    def call(dtype, layout):
        A, y = _tor_arrays(case, dtype, layout)
        return float(mod.torontonian(A)) if case["kernel"] == "torontonian" else float(mod.loop_torontonian(A, y))

    got = call(dtype, layout)
    if abs(got - ref) <= _tor_tol(dtype, scale):
        return None
    sig = {"check": "C04", "sub": "value", "kernel": case["kernel"], "input_class": _family_class(case.get("family", "?"))}
    if (dtype, layout) != ("float64", "C") and abs(call("float64", "C") - ref) <= _tor_tol("float64", scale):
        if layout != "C":
            sig["layout"] = layout
        if dtype != "float64":
            sig["dtype"] = dtype
    return sig, "%s(%s%s, n=%d) [%s, %s]: got %r, reference %r, |diff| %.3g > tol %.3g (scale %.6g)" % (
        case["kernel"], case.get("matrix_name"), "" if case["kernel"] == "torontonian" else ", " + str(case.get("disp_name")), len(case["matrix"]["num"]) // 2,
        dtype, layout, got, ref, abs(got - ref), _tor_tol(dtype, scale), scale)


def _eval_tor_san(case):
    from mc import build, c04_native as N

    exe = N.build_driver("tor_driver", build.ensure_built())
    den = case["matrix"]["den"]
    A = [[x / den for x in row] for row in case["matrix"]["num"]]
    y = None
    if case["kernel"] == "loop_torontonian":
        y = [x / case["disp"]["den"] for x in case["disp"]["num"]]
    (r,) = N.run_vectors(exe, [N.tor_vector(case["kernel"], case["dtype"], A, y)])
    ref, scale = _tor_reference(case)

    def compare(vals):
        if abs(vals[0] - ref) <= _tor_tol(case["dtype"], scale):
            return None
        return "got %r, reference %r (scale %.6g)" % (vals[0], ref, scale)

    return _san_result("tor", case["kernel"], r, compare, case)


# ---- Pfaffian -------------------------------------------------------------------------------


def _pf_reference(case):
    from mc.refmodel import kernels as K

    den = case["matrix"]["den"]
    rows = [[Fraction(x, den) for x in row] for row in case["matrix"]["num"]]
    return float(K.pfaffian_exact(rows)), K.pfaffian_abs_scale(rows)


def _pf_tol(dtype, scale):
    return 5e-4 * (1.0 + scale) if dtype == "float32" else 1e-9 + 1e-9 * scale


def _pf_array(case, dtype, layout):
    import numpy as np

    num, den = case["matrix"]["num"], case["matrix"]["den"]
    n = len(num)
    npd = np.float32 if dtype == "float32" else np.float64
    return with_layout(np.array([[x / den for x in row] for row in num], dtype=np.float64).reshape(n, n).astype(npd), layout)


def _eval_pf(case):
    dtype, layout, entry = case.get("dtype", "float64"), case.get("layout", "C"), case.get("entry", "pybind")
    ref, scale = _pf_reference(case)

    def call(entry, dtype, layout):
        A = _pf_array(case, dtype, layout)
        if entry == "pybind":
            return float(_native("pfaffian").pfaffian(A))
        import piquasso as pq

        return float(pq.NumpyConnector().pfaffian(A))

    got = call(entry, dtype, layout)
    if abs(got - ref) <= _pf_tol(dtype, scale):
        return None
    sig = {"check": "C04", "sub": "value", "kernel": "pfaffian", "input_class": _family_class(case.get("family", "?"))}
    if (entry, dtype, layout) != ("pybind", "float64", "C") and abs(call("pybind", "float64", "C") - ref) <= _pf_tol("float64", scale):
        if entry != "pybind":
            sig["entry"] = entry
        if layout != "C":
            sig["layout"] = layout
        if dtype != "float64":
            sig["dtype"] = dtype
    return sig, "pfaffian(%s, n=%d) [%s, %s, %s]: got %r, exact %r, |diff| %.3g > tol %.3g (scale %.6g)" % (
        case.get("matrix_name"), len(case["matrix"]["num"]), entry, dtype, layout, got, ref, abs(got - ref), _pf_tol(dtype, scale), scale)


def _eval_pf_san(case):
    from mc import build, c04_native as N

    exe = N.build_driver("pf_driver", build.ensure_built())
    den = case["matrix"]["den"]
    A = [[x / den for x in row] for row in case["matrix"]["num"]]
    (r,) = N.run_vectors(exe, [N.pf_vector(case["dtype"], A)])
    ref, scale = _pf_reference(case)

    def compare(vals):
        if abs(vals[0] - ref) <= _pf_tol(case["dtype"], scale):
            return None
        return "got %r, exact %r (scale %.6g)" % (vals[0], ref, scale)

    return _san_result("pf", "pfaffian", r, compare, case)


# =======================================================================================
# work items
# =======================================================================================


def _is_contained(item):
    """Items that call the XLA FFI handler (a C++ exception there is std::terminate) run in a
    child process, see mc/c04_child.py."""
    return item[0] == "jaxhaf" or (item[0] == "variants" and item[1] == "jaxperm")


def work(ctx, item):
    if _is_contained(item):
        _work_contained(ctx, item)
    else:
        work_uncontained(ctx, item)


def work_uncontained(ctx, item):
    globals()["_work_" + item[0]](ctx, item)


def _crash_violation(ctx, crash, fallback):
    case = dict(crash.get("last_case") or fallback)
    case["contained"] = True
    kernel = case.get("kernel", "?")
    if case.get("kind") == "haf" and case.get("entry") in ("jax", "JaxConnector"):
        kernel = "jax_loop_hafnian"
    sig = {"check": "C04", "sub": "crash", "kernel": kernel, "entry": case.get("entry", "?")}
    tail = [l for l in crash.get("stderr_tail", "").splitlines() if l.strip()][-3:]
    ctx.violation(sig, case, "the process died (exit status %s) inside %s via %s on rows=%s cols=%s occ=%s: %s" % (
        crash.get("returncode"), case.get("kernel"), case.get("entry"), case.get("rows"), case.get("cols"), case.get("occ"), " | ".join(tail)[:600]))


def _work_contained(ctx, item):
    from mc import build, c04_child, core

    bd = build.ensure_built()
    exported, crash = c04_child.run_contained("item", ctx.tier, ctx.seed, bd, list(item))
    if exported is not None:
        ctx.merge(exported)
        return
    exported2, crash2 = c04_child.run_contained("item", ctx.tier, ctx.seed, bd, list(item))
    if crash2 is None or (crash2.get("last_case") or {}).get("rows") != (crash.get("last_case") or {}).get("rows"):
        raise core.HarnessError("HARNESS-NONDETERMINISM C04: contained item %r died once (%s) but not reproducibly" % (item, crash))
    ctx.count("contained_items_died")
    _crash_violation(ctx, crash, {"kind": "crash_item", "item": list(item)})


def _work_hafscale(ctx, item):
    """Matrix entries of the other hafnian items are of order one, so the internal rescaling of the
    numba hafnians (`_scale_matrix`: the matrix is normalised and the result compensated) is only ever
    exercised near scale 1.  Metamorphic oracle, exact in binary floating point: for s = 2**e,
    haf(s*A; occ) == s**(T/2) * haf(A; occ) for even total T (power-of-two scaling commutes with every
    rounding), checked RELATIVELY (1e-9) against the library's own value at s = 1 -- which the `haf`
    items compare with the exact reference -- for every occupation vector up to total 6 and e in
    {-60, -40, -30, -20, 20, 40}; likewise every entry of the batched variant."""
    import itertools

    import numpy as np
    from mc import c04_inputs as IN
    from piquasso._math.hafnian import hafnian_with_reduction, hafnian_with_reduction_batch

    _, m = item
    mats = [x for x in IN.haf_matrices(ctx.seed, m, ctx.tier) if x[0] in ("generic0", "rank1", "offdiag", "ones")]
    T = 6 if ctx.tier == "quick" else 8
    exps = (-60, -40, -30, -20, 20, 40)
    for name, (num, den) in mats:
        A = np.array([[complex(a[0], a[1]) for a in row] for row in num], dtype=complex) / den
        for occ in itertools.product(range(T + 1), repeat=m):
            tot = sum(occ)
            if tot == 0 or tot > T or tot % 2:
                continue
            o = np.array(occ, dtype=np.int64)
            base = complex(hafnian_with_reduction(A.copy(), o))
            base_b = np.asarray(hafnian_with_reduction_batch(A.copy(), o, 3), dtype=complex)
            # natural rounding scale: the same sums over |entries| (no cancellation), so that an exact zero
            # that comes out as 1e-16 at s = 1 is not compared relatively with its own rounding noise
            absA = np.abs(A).astype(complex)
            amax = float(np.abs(A).max())

            def _matchings(t):  # (t-1)!!, the number of perfect matchings on t vertices
                r = 1.0
                while t > 1:
                    r *= t - 1
                    t -= 2
                return r

            # ... plus the crude bound max|a|^(T/2) (T-1)!!, the scale of the intermediate sums when the
            # reduced matrix has structural zeros (exact value 0, nat = 0, result = rounding noise)
            nat = abs(complex(hafnian_with_reduction(absA.copy(), o))) + amax ** (tot // 2) * _matchings(tot)
            nat_b = np.abs(np.asarray(hafnian_with_reduction_batch(absA.copy(), o, 3), dtype=complex)) + np.array(
                [amax ** ((tot + k + 1) // 2) * _matchings(tot + k + (tot + k) % 2) for k in range(3)]
            )
            for e in exps:
                s = 2.0**e
                got = complex(hafnian_with_reduction((A * s).copy(), o))
                exp = base * s ** (tot // 2)
                ctx.count("kernel_calls_compared")
                ctx.note_distinct(("hafscale", m, name, occ, e))
                if not (abs(got - exp) <= 1e-9 * nat * s ** (tot // 2)) and not (exp == 0 and got == 0):
                    ctx.violation(
                        {"check": "C04", "sub": "value", "kernel": "hafnian", "input_class": "matrix_norm_far_from_one", "oracle": "homogeneity"},
                        {"kind": "hafscale", "m": m, "matrix_name": name, "occ": list(occ), "exp2": e},
                        "hafnian_with_reduction(2**%d * %s, occ=%s) = %r, expected 2**(%d*%d) * %r = %r" % (e, name, occ, got, e, tot // 2, base, exp),
                    )
                gb = np.asarray(hafnian_with_reduction_batch((A * s).copy(), o, 3), dtype=complex)
                for k in range(len(gb)):
                    tk = tot + k
                    if tk % 2:
                        continue
                    ek = base_b[k] * s ** (tk // 2)
                    ctx.count("kernel_calls_compared")
                    if not (abs(gb[k] - ek) <= 1e-9 * nat_b[k] * s ** (tk // 2)) and not (ek == 0 and gb[k] == 0):
                        ctx.violation(
                            {"check": "C04", "sub": "value", "kernel": "hafnian_batch", "input_class": "matrix_norm_far_from_one", "oracle": "homogeneity"},
                            {"kind": "hafscale", "m": m, "matrix_name": name, "occ": list(occ), "exp2": e, "entry": k},
                            "hafnian_with_reduction_batch(2**%d * %s, occ=%s)[%d] = %r, expected %r" % (e, name, occ, k, gb[k], ek),
                        )
    ctx.sample({"kind": "hafscale", "m": m, "scales": ["2**%d" % e for e in exps]})


def _work_warm(ctx, item):
    mat = ([[(1, 0), (0, 1)], [(0, 1), (2, 0)]], 2)
    dv = ([(1, 0), (0, 1)], 2)
    for kernel in ("hafnian", "loop_hafnian", "hafnian_batch", "loop_hafnian_batch"):
        for layout in ("C", "F", "step2", "readonly"):
            case = {"kind": "haf", "kernel": kernel, "entry": "numba", "layout": layout, "matrix_name": "warm", "family": "warm", "matrix": _mjson(mat),
                    "diag_name": "warm", "diag": _vjson(dv) if kernel.startswith("loop") else None, "occ": [1, 0], "cutoff": 3 if kernel.endswith("batch") else None}
            try:
                evaluate_case(case)
            except (TypeError, NotImplementedError):
                pass
    ctx.count("numba_warmup_calls", 16)


def _pairs(kernel, k, l, lo, hi, mode, chunk, nchunks):
    """Enumerate (rows, cols): rows over all compositions of T (T = lo..hi) into k parts
    (those whose index % nchunks == chunk), cols over all compositions / representatives of
    T (permanent) or T+1 (Laplace variant) into l parts."""
    from mc import c04_inputs as IN

    extra = 1 if kernel == "permanent_laplace" else 0
    for T in range(lo, hi + 1):
        if mode == "all":
            cols_list = list(IN.compositions(T + extra, l))
        elif mode == "reps":
            cols_list = IN.representative_cols(T + extra, l)
        else:
            cols_list = IN.few_cols(T + extra, l)
        for idx, rows in enumerate(IN.compositions(T, k)):
            if idx % nchunks != chunk:
                continue
            for cols in cols_list:
                yield rows, cols


def _work_perm(ctx, item):
    import numpy as np
    from mc import c04_inputs as IN
    from mc.refmodel import kernels as K

    _, kernel, k, l, name, lo, hi, mode, t32, chunk, nchunks = item
    mat = IN.find_perm_matrix(ctx.seed, k, l, name)
    num, den = mat
    tab = K.PermanentTables(num)
    tabf = K.PermanentTablesFloat(K.matrix_abs_float(mat))
    cm = K.matrix_to_complex(mat)
    A64 = np.array(cm, dtype=np.complex128).reshape(k, l)
    A32 = A64.astype(np.complex64)
    fn = getattr(_native("permanent"), kernel)
    rep = _Reporter(ctx)
    lap = kernel == "permanent_laplace"
    n_calls = n_glynn = n_undefined = 0
    worst_ratio = 0.0
    worst_units = 0.0
    sampled = False
    matrix_json = {"num": [[list(e) for e in row] for row in num], "den": den}
    for rows, cols in _pairs(kernel, k, l, lo, hi, mode, chunk, nchunks):
        T = sum(rows)
        d = den**T
        if lap:
            refs, scales = [], []
            for j, c in enumerate(cols):
                if c == 0:
                    refs.append(None)
                    scales.append(None)
                    n_undefined += 1
                else:
                    cl = cols[:j] + (c - 1,) + cols[j + 1 :]
                    refs.append(_g_to_c(tab.value(rows, cl), d))
                    scales.append(tabf.value(rows, cl))
        else:
            refs = [_g_to_c(tab.value(rows, cols), d)]
            scales = [tabf.value(rows, cols)]
        ra = np.array(rows, dtype=np.int64)
        ca = np.array(cols, dtype=np.int64)
        if T >= 1:
            ctx.note_distinct("%s|%d|%d|%s|%s" % (kernel, k, l, rows, cols))
        for dtype in ("float64", "float32") if T <= t32 else ("float64",):
            out = np.asarray(fn(A32 if dtype == "float32" else A64, ra, ca)).reshape(-1)
            n_calls += 1
            bad = False
            if lap and len(out) != len(refs):
                bad = not (T == 0 and len(out) == 1 and abs(complex(out[0]) - 1.0) <= 1e-9)
                if not bad:
                    ctx.count("laplace_empty_rows_single_entry")
                    continue
            if not bad:
                for j, r in enumerate(refs):
                    if r is None:
                        continue
                    err = _err(complex(out[j]), r)
                    s = scales[j]
                    tol = (5e-4 if dtype == "float32" else 1e-9) * s
                    if dtype == "float64" and s > 0 and err / s > worst_ratio and err <= tol:
                        worst_ratio = err / s
                    if not err <= tol:
                        cl = cols[:j] + (cols[j] - 1,) + cols[j + 1 :] if lap else cols
                        allow = GLYNN_K * (EPS32 if dtype == "float32" else EPS64) * K.glynn_scale(cm, rows, cl)
                        if err <= tol + allow:
                            n_glynn += 1
                            if allow > 0:
                                worst_units = max(worst_units, GLYNN_K * (err - tol) / allow)
                        else:
                            bad = True
                            break
            if bad:
                rep.report({"kind": "perm", "kernel": kernel, "entry": "pybind", "layout": "C", "dtype": dtype, "matrix_name": name,
                            "matrix": matrix_json, "rows": list(rows), "cols": list(cols)}, presig=(kernel, dtype, IN.weight_class(rows)))
        if not sampled and T >= 3:
            sampled = True
            ctx.sample({"kernel": kernel, "matrix": name, "entries": matrix_json, "rows": list(rows), "cols": list(cols),
                        "exact": [None if r is None else [r.real, r.imag] for r in refs]})
    ctx.count("kernel_calls_compared", n_calls)
    ctx.count("perm_accepted_by_glynn_allowance", n_glynn)
    if n_undefined:
        ctx.count("laplace_entries_undefined_cols0", n_undefined)
    # largest excess over 1e-9*perm|A| that the Glynn allowance had to absorb, in units of u*S (allowed: GLYNN_K)
    ctx.extra["max_glynn_allowance_used_milliunits"] = int(worst_units * 1000)


def _work_perm_san(ctx, item):
    from mc import build, c04_inputs as IN, c04_native as N
    from mc.refmodel import kernels as K

    _, kernel, k, l, lo, hi, mode, chunk, nchunks = item
    t = _tier(ctx)
    exe = N.build_driver("perm_driver", build.ensure_built(), sweep=True)
    mat = IN.generic(ctx.seed, k, l, 0)
    num, den = mat
    cm = K.matrix_to_complex(mat)
    tab = K.PermanentTables(num)
    tabf = K.PermanentTablesFloat(K.matrix_abs_float(mat))
    matrix_json = {"num": [[list(e) for e in row] for row in num], "den": den}
    rep = _Reporter(ctx)
    meta, vecs = [], []
    for rows, cols in _pairs(kernel, k, l, lo, hi, mode, chunk, nchunks):
        T = sum(rows)
        for hw in t["san_hw"]:
            dts = ("float64", "float32") if (T <= 8 and hw == t["san_hw"][0]) else ("float64",)
            for dtype in dts:
                meta.append((rows, cols, hw, dtype))
                vecs.append(N.perm_vector(kernel, dtype, hw, cm, rows, cols))
    B = 2000
    n_reports = n_exec = 0
    for s in range(0, len(vecs), B):
        runs = N.run_vectors(exe, vecs[s : s + B])
        for (rows, cols, hw, dtype), r in zip(meta[s : s + B], runs):
            if r.skipped:
                ctx.count("sanitizer_vectors_skipped_after_repeated_driver_deaths")
                continue
            n_exec += 1
            ctx.note_distinct("san|%s|%d|%d|%s|%s" % (kernel, k, l, rows, cols))
            bad = r.report is not None or r.error is not None or r.values is None
            if r.report is not None:
                n_reports += 1
            if not bad:
                got = [complex(r.values[2 * i], r.values[2 * i + 1]) for i in range(len(r.values) // 2)]
                bad = _fast_perm_mismatch(kernel, dtype, rows, cols, got, tab, tabf, den, cm)
            if bad:
                presig = (kernel, r.report["kind"], r.report["where"]) if r.report is not None else (kernel, "value-or-crash", dtype, IN.weight_class(rows))
                rep.report({"kind": "perm_san", "kernel": kernel, "dtype": dtype, "hw": hw, "matrix_name": "generic0", "matrix": matrix_json,
                            "rows": list(rows), "cols": list(cols)}, presig=presig)
    ctx.count("sanitizer_executions", n_exec)
    ctx.count("sanitizer_reports", n_reports)
    if vecs:
        ctx.sample({"driver": "perm_driver", "kernel": kernel, "shape": [k, l], "forced_hw": list(t["san_hw"]), "vectors": len(vecs), "last": {"rows": list(meta[-1][0]), "cols": list(meta[-1][1])}})


def _fast_perm_mismatch(kernel, dtype, rows, cols, got, tab, tabf, den, cm):
    from mc.refmodel import kernels as K

    d = den ** sum(rows)
    if kernel == "permanent":
        targets = [(0, cols)]
        if len(got) != 1:
            return True
    else:
        if sum(rows) == 0 and len(got) == 1:
            return not abs(got[0] - 1.0) <= 1e-9
        if len(got) != len(cols):
            return True
        targets = [(j, cols[:j] + (c - 1,) + cols[j + 1 :]) for j, c in enumerate(cols) if c > 0]
    for j, cl in targets:
        ref = _g_to_c(tab.value(rows, cl), d)
        s = tabf.value(rows, cl)
        err = _err(got[j], ref)
        tol = (5e-4 if dtype == "float32" else 1e-9) * s
        if not err <= tol:
            allow = GLYNN_K * (EPS32 if dtype == "float32" else EPS64) * K.glynn_scale(cm, rows, cl)
            if not err <= tol + allow:
                return True
    return False


# ---- hafnian work ---------------------------------------------------------------------------


def _mjson(mat):
    return {"num": [[list(e) for e in row] for row in mat[0]], "den": mat[1]}


def _vjson(vec):
    return {"num": [list(e) for e in vec[0]], "den": vec[1]}


def _work_haf(ctx, item):
    import numpy as np
    from mc import c04_inputs as IN
    from mc.refmodel import kernels as K
    from piquasso._math import hafnian as H

    _, m, name, Tmax = item
    t = _tier(ctx)
    mat = dict(IN.haf_matrices(ctx.seed, m, ctx.tier))[name]
    num, den = mat
    A = np.array(K.matrix_to_complex(mat), dtype=np.complex128).reshape(m, m)
    absA = K.matrix_abs_float(mat)
    plain = K.Matchings(num)
    diags = IN.haf_diagonals(ctx.seed, m, ctx.tier)
    rep = _Reporter(ctx)
    n_calls = 0
    loopers = []
    for dname, dv in diags:
        fr = K._FracMatchings(
            [[(Fraction(e[0], den), Fraction(e[1], den)) for e in row] for row in num],
            [(Fraction(e[0], dv[1]), Fraction(e[1], dv[1])) for e in dv[0]],
        )
        D = np.array([complex(Fraction(e[0], dv[1]), Fraction(e[1], dv[1])) for e in dv[0]], dtype=np.complex128)
        absD = [abs(x) for x in D]
        loopers.append((dname, dv, fr, D, absD))

    def ref_plain(o):
        n = sum(o)
        if n % 2:
            return 0j
        g = plain.value(o)
        return _g_to_c(g, den ** (n // 2))

    def check(kernel, got, refs, scales, occ, dname, dv, cutoff):
        nonlocal n_calls
        n_calls += 1
        if _haf_compare(refs, scales, got) is not None:
            rep.report({"kind": "haf", "kernel": kernel, "entry": "numba", "layout": "C", "matrix_name": name, "family": name.rstrip("0123456789"),
                        "matrix": _mjson(mat), "diag_name": dname, "diag": None if dv is None else _vjson(dv), "occ": list(occ), "cutoff": cutoff})

    sampled = False
    for T in range(0, Tmax + 1):
        for occ in IN.compositions(T, m):
            o = np.array(occ, dtype=np.int64)
            if T >= 1:
                ctx.note_distinct("haf|%d|%s|%s" % (m, name, occ))
            r = ref_plain(occ)
            s = K.matchings_abs_float(absA, None, occ)
            check("hafnian", [complex(H.hafnian_with_reduction(A, o))], [r], [s], occ, None, None, None)
            for dname, dv, fr, D, absD in loopers:
                rl = _cfloat(fr.value(occ))
                sl = K.matchings_abs_float(absA, absD, occ)
                check("loop_hafnian", [complex(H.loop_hafnian_with_reduction(A, D, o))], [rl], [sl], occ, dname, dv, None)
            # (the batched variants have their own sub-exploration, _work_hafb)
            if not sampled and T >= 4:
                sampled = True
                ctx.sample({"kernel": "hafnian", "matrix": name, "entries": _mjson(mat), "occ": list(occ), "exact": [r.real, r.imag]})
    ctx.count("kernel_calls_compared", n_calls)


def _last_class(occ):
    return "last_occupation_nonzero" if occ[-1] != 0 else "last_occupation_zero"


def _work_hafb(ctx, item):
    """Batched variants.  hafnian_with_reduction_batch(A, occ, cutoff)[k] (and the loop variant)
    is the (loop) hafnian reduced by occ + k*e_last, k = 0..cutoff-1 (tests/_math/test_hafnian.py
    states exactly this; the Gaussian particle-number sampler only ever passes occ[-1] == 0).
    Every base vector ``occ`` with total <= Tmax -- last entry zero or NOT -- x every cutoff of
    the tier; every returned entry is compared (a) with the exact matchings reference of the
    un-batched reduction and (b) with what the library's own un-batched function returns for
    that reduction (which is itself compared with the reference, once per distinct reduction)."""
    import numpy as np
    from mc import c04_inputs as IN
    from mc.refmodel import kernels as K
    from piquasso._math import hafnian as H

    _, m, name, Tmax, chunk, nchunks = item
    t = _tier(ctx)
    mat = dict(IN.haf_matrices(ctx.seed, m, ctx.tier))[name]
    num, den = mat
    fam = name.rstrip("0123456789")
    A = np.array(K.matrix_to_complex(mat), dtype=np.complex128).reshape(m, m)
    absA = K.matrix_abs_float(mat)
    plain = K.Matchings(num)
    rep = _Reporter(ctx)

    def ref_plain(o):
        n = sum(o)
        if n % 2:
            return 0j
        return _g_to_c(plain.value(o), den ** (n // 2))

    # one "target" = (variant, reduction): exact value, scale, the library's un-batched value
    variants = [(None, None, None, None)]  # plain hafnian
    for dname, dv in IN.haf_diagonals(ctx.seed, m, ctx.tier):
        fr = K._FracMatchings(
            [[(Fraction(e[0], den), Fraction(e[1], den)) for e in row] for row in num],
            [(Fraction(e[0], dv[1]), Fraction(e[1], dv[1])) for e in dv[0]],
        )
        D = np.array([complex(Fraction(e[0], dv[1]), Fraction(e[1], dv[1])) for e in dv[0]], dtype=np.complex128)
        variants.append((dname, dv, fr, D))
    targets = [dict() for _ in variants]
    n_calls = n_entries = n_unb = n_nonzero = n_empty = 0
    worst = worst_unb = 0.0

    def target(vi, o):
        nonlocal n_calls, n_unb, n_empty, worst_unb
        hit = targets[vi].get(o)
        if hit is not None:
            return hit
        dname, dv, fr, D = variants[vi]
        oa = np.array(o, dtype=np.int64)
        if fr is None:
            r = ref_plain(o)
            absD = None
            u = complex(H.hafnian_with_reduction(A, oa))
            kernel = "hafnian"
        else:
            r = _cfloat(fr.value(o))
            absD = [abs(x) for x in D]
            u = complex(H.loop_hafnian_with_reduction(A, D, oa))
            kernel = "loop_hafnian"
        s = K.matchings_abs_float(absA, absD, o)
        if s == 0.0 and sum(o) > EMPTY_SUM_TOTAL:
            s = _empty_sum_scale(absA, absD, o)
            n_empty += 1
        n_calls += 1
        n_unb += 1
        eu = _err(u, r)
        if eu <= 1e-9 + 1e-9 * s:
            worst_unb = max(worst_unb, eu / (1e-9 + 1e-9 * s))
        if _haf_compare([r], [s], [u]) is not None:
            rep.report({"kind": "haf", "kernel": kernel, "entry": "numba", "layout": "C", "matrix_name": name, "family": fam, "matrix": _mjson(mat),
                        "diag_name": dname, "diag": None if dv is None else _vjson(dv), "occ": list(o), "cutoff": None, "tol_rule": "hafb"}, presig=(kernel, fam))
        hit = targets[vi][o] = (r, s, u)
        return hit

    sampled = False
    idx = -1
    for T in range(0, Tmax + 1):
        for occ in IN.compositions(T, m):
            idx += 1
            if idx % nchunks != chunk:
                continue
            for cutoff in t["hafb_cutoffs"]:
                occs = [occ[:-1] + (occ[-1] + i,) for i in range(cutoff)]
                ctx.note_distinct("hafb|%d|%s|%s|%d" % (m, name, occ, cutoff))
                for vi, (dname, dv, fr, D) in enumerate(variants):
                    o = np.array(occ, dtype=np.int64)  # fresh: a kernel that writes into its argument must not poison the next call
                    kernel = "hafnian_batch" if fr is None else "loop_hafnian_batch"
                    try:
                        if fr is None:
                            out = H.hafnian_with_reduction_batch(A, o, cutoff)
                        else:
                            out = H.loop_hafnian_with_reduction_batch(A, D, o, cutoff)
                        got = [complex(x) for x in np.asarray(out).reshape(-1)]
                    except Exception:  # noqa: BLE001 -- confirmed (and classified) by _eval_haf through rep.report
                        got = None
                    n_calls += 1
                    n_nonzero += occ[-1] != 0
                    bad = got is None or len(got) != cutoff
                    if not bad:
                        for g, x in zip(got, occs):
                            r, s, u = target(vi, x)
                            tol = 1e-9 + 1e-9 * s
                            e = _err(g, r)
                            n_entries += 1
                            if e <= tol:
                                worst = max(worst, e / tol)
                            if not (e <= tol and _err(g, u) <= 2 * tol):
                                bad = True
                                break
                    if bad:
                        rep.report({"kind": "haf", "kernel": kernel, "entry": "numba", "layout": "C", "matrix_name": name, "family": fam, "matrix": _mjson(mat),
                                    "diag_name": dname, "diag": None if dv is None else _vjson(dv), "occ": list(occ), "cutoff": cutoff, "tol_rule": "hafb"},
                                   presig=(kernel, fam, _last_class(occ), cutoff <= 2))
            if not sampled and T >= 3 and occ[-1] != 0:
                sampled = True
                r8 = [ref_plain(x) for x in [occ[:-1] + (occ[-1] + i,) for i in range(4)]]
                ctx.sample({"kernel": "hafnian_batch", "matrix": name, "entries": _mjson(mat), "occ": list(occ), "cutoff": 4,
                            "exact": [[r.real, r.imag] for r in r8], "meaning": "entry k = hafnian reduced by occ + k*e_last"})
    ctx.count("kernel_calls_compared", n_calls)
    ctx.count("batch_calls_compared", n_calls - n_unb)
    ctx.count("batch_calls_with_last_occupation_nonzero", n_nonzero)
    ctx.count("batch_entries_compared_with_exact_reference_and_library_unbatched", n_entries)
    ctx.count("unbatched_calls_at_batch_target_reductions", n_unb)
    ctx.count("batch_target_reductions_with_empty_defining_sum_and_total>%d_(one-vertex-unmatched_scale)" % EMPTY_SUM_TOTAL, n_empty)
    # largest |batch entry - exact| of an accepted entry in thousandths of its tolerance 1e-9 + 1e-9*scale
    ctx.counters["max_batch_entry_error_millitol"] = max(ctx.counters.get("max_batch_entry_error_millitol", 0), int(worst * 1000))
    ctx.counters["max_unbatched_at_batch_targets_error_millitol"] = max(ctx.counters.get("max_unbatched_at_batch_targets_error_millitol", 0), int(worst_unb * 1000))


def _work_jaxhaf(ctx, item):
    import numpy as np
    from mc import c04_inputs as IN
    from mc.refmodel import kernels as K

    _, Tmax = item
    rep = _Reporter(ctx)
    n_calls = 0
    for m in (1, 2, 3):
        mats = IN.haf_matrices(ctx.seed, m, ctx.tier)
        keep = ("zero", "identity", "ones", "offdiag", "rank1", "generic0") if ctx.tier == "quick" else None
        for name, mat in mats:
            if keep and name not in keep:
                continue
            for dname, dv in IN.haf_diagonals(ctx.seed, m, ctx.tier)[:2]:
                for T in range(0, Tmax + 1):
                    for occ in IN.compositions(T, m):
                        case = {"kind": "haf", "kernel": "loop_hafnian", "entry": "jax", "layout": "C", "matrix_name": name, "family": name.rstrip("0123456789"),
                                "matrix": _mjson(mat), "diag_name": dname, "diag": _vjson(dv), "occ": list(occ), "cutoff": None}
                        refs, scales = _haf_reference(mat, dv, "loop_hafnian", occ, None)
                        A = np.array(K.matrix_to_complex(mat), dtype=np.complex128).reshape(m, m)
                        D = np.array([complex(Fraction(e[0], dv[1]), Fraction(e[1], dv[1])) for e in dv[0]], dtype=np.complex128)
                        got = _haf_call("jax", "loop_hafnian", A, D, np.array(occ, dtype=np.int64), None)
                        n_calls += 1
                        if T >= 1:
                            ctx.note_distinct("jaxhaf|%d|%s|%s|%s" % (m, name, dname, occ))
                        if _haf_compare(refs, scales, got) is not None:
                            rep.report(case)
    ctx.count("kernel_calls_compared", n_calls)
    ctx.sample({"kernel": "jax loop_hafnian_with_reduction", "modes": [1, 2, 3], "max_total": Tmax})


# ---- torontonian work -----------------------------------------------------------------------


def _work_tor(ctx, item):
    import numpy as np
    from mc import build, c04_inputs as IN, c04_native as N

    _, n = item
    mod = _native("torontonian")
    exe = N.build_driver("tor_driver", build.ensure_built(), sweep=True)
    rep = _Reporter(ctx)
    cases = []
    for name, (num, den) in IN.tor_matrices(ctx.seed, n, ctx.tier):
        fam = name.rstrip("0123456789")
        cases.append({"kernel": "torontonian", "matrix_name": name, "family": fam, "matrix": {"num": num, "den": den}})
        for yname, (ynum, yden) in IN.tor_displacements(ctx.seed, n, ctx.tier):
            cases.append({"kernel": "loop_torontonian", "matrix_name": name, "family": fam, "matrix": {"num": num, "den": den},
                          "disp_name": yname, "disp": {"num": ynum, "den": yden}})
    n_calls = 0
    vecs, meta = [], []
    for base in cases:
        ref, scale = _tor_reference(base)
        ctx.note_distinct("tor|%d|%s|%s|%s" % (n, base["kernel"], base["matrix_name"], base.get("disp_name")))
        for dtype in ("float64", "float32"):
            A, y = _tor_arrays(base, dtype, "C")
            got = float(mod.torontonian(A)) if base["kernel"] == "torontonian" else float(mod.loop_torontonian(A, y))
            n_calls += 1
            if not abs(got - ref) <= _tor_tol(dtype, scale):
                c = dict(base)
                c.update({"kind": "tor", "dtype": dtype, "layout": "C"})
                rep.report(c)
            den = base["matrix"]["den"]
            Af = [[x / den for x in row] for row in base["matrix"]["num"]]
            yf = None if base["kernel"] == "torontonian" else [x / base["disp"]["den"] for x in base["disp"]["num"]]
            vecs.append(N.tor_vector(base["kernel"], dtype, Af, yf))
            meta.append((base, dtype, ref, scale))
    runs = N.run_vectors(exe, vecs)
    n_reports = 0
    for (base, dtype, ref, scale), r in zip(meta, runs):
        if r.skipped:
            ctx.count("sanitizer_vectors_skipped_after_repeated_driver_deaths")
            continue
        bad = r.report is not None or r.values is None
        if r.report is not None:
            n_reports += 1
        if not bad:
            bad = not abs(r.values[0] - ref) <= _tor_tol(dtype, scale)
        if bad:
            c = dict(base)
            c.update({"kind": "tor_san", "dtype": dtype})
            rep.report(c, presig=(base["kernel"], r.report["kind"], r.report["where"]) if r.report is not None else None)
    ctx.count("kernel_calls_compared", n_calls)
    ctx.count("sanitizer_executions", len(vecs))
    ctx.count("sanitizer_reports", n_reports)
    if cases:
        ctx.sample({"kernel": "torontonian/loop_torontonian", "modes": n, "inputs": len(cases), "first": cases[min(3, len(cases) - 1)]["matrix_name"]})


# ---- Pfaffian work --------------------------------------------------------------------------


def _work_pf(ctx, item):
    import numpy as np
    from mc import build, c04_inputs as IN, c04_native as N
    from mc.refmodel import kernels as K

    n, mode = item[1], item[2]
    fn = _native("pfaffian").pfaffian
    exe = N.build_driver("pf_driver", build.ensure_built(), sweep=True)
    rep = _Reporter(ctx)
    if mode == "structured":
        mats = [(name, name.rstrip("0123456789"), mat) for name, mat in IN.pf_structured(ctx.seed, n, ctx.tier)]
    elif mode == "all3":
        mats = []
        for up in itertools.product((-1, 0, 1), repeat=n * (n - 1) // 2):
            mats.append(("t%s" % "".join("m0p"[x + 1] for x in up), "all_over_{-1,0,1}", (IN.antisym_from_upper(n, up), 1)))
    else:
        chunk, nch = item[3], item[4]
        mats = []
        for idx, up in enumerate(itertools.product((0, 1), repeat=n * (n - 1) // 2)):
            if idx % nch == chunk:
                mats.append(("b%s" % "".join(str(x) for x in up), "all_over_{0,1}", (IN.antisym_from_upper(n, up), 1)))
    n_calls = 0
    n_modified = 0
    vecs, meta = [], []
    san_every = 1 if mode == "structured" else (1 if mode == "all3" else 8)
    for idx, (name, fam, (num, den)) in enumerate(mats):
        rows = [[Fraction(x, den) for x in row] for row in num]
        ref = float(K.pfaffian_exact(rows))
        scale = K.pfaffian_abs_scale(rows)
        ctx.note_distinct("pf|%d|%s" % (n, name))
        base = {"matrix_name": name, "family": fam, "matrix": {"num": num, "den": den}}
        for dtype in ("float64", "float32"):
            A = np.array([[x / den for x in row] for row in num], dtype=np.float64).reshape(n, n).astype(np.float32 if dtype == "float32" else np.float64)
            keep = A.copy()
            got = float(fn(A))
            n_calls += 1
            if not np.array_equal(A, keep):
                n_modified += 1
            if not abs(got - ref) <= _pf_tol(dtype, scale):
                c = dict(base)
                c.update({"kind": "pf", "dtype": dtype, "layout": "C", "entry": "pybind"})
                rep.report(c)
            if idx % san_every == 0:
                vecs.append(N.pf_vector(dtype, [[x / den for x in row] for row in num]))
                meta.append((base, dtype, ref, scale))
    runs = N.run_vectors(exe, vecs)
    n_reports = 0
    for (base, dtype, ref, scale), r in zip(meta, runs):
        if r.skipped:
            ctx.count("sanitizer_vectors_skipped_after_repeated_driver_deaths")
            continue
        bad = r.report is not None or r.values is None
        if r.report is not None:
            n_reports += 1
        if not bad:
            bad = not abs(r.values[0] - ref) <= _pf_tol(dtype, scale)
        if bad:
            c = dict(base)
            c.update({"kind": "pf_san", "dtype": dtype})
            rep.report(c, presig=("pfaffian", r.report["kind"], r.report["where"]) if r.report is not None else None)
    ctx.count("kernel_calls_compared", n_calls)
    ctx.count("sanitizer_executions", len(vecs))
    ctx.count("sanitizer_reports", n_reports)
    # F3 (input overwritten) is property C12's subject: only recorded
    ctx.count("pfaffian_calls_that_overwrote_their_input_(C12,_not_checked_here)", n_modified)
    if mats:
        ctx.sample({"kernel": "pfaffian", "n": n, "mode": mode, "inputs": len(mats), "first": mats[min(2, len(mats) - 1)][0]})


# ---- dtype x layout x entry point -----------------------------------------------------------

LAYOUTS = ("C", "F", "step2", "neg", "offset", "readonly")


def _work_variants(ctx, item):
    from mc import c04_inputs as IN

    _, which = item
    rep = _Reporter(ctx)
    n_calls = 0
    unsupported = 0
    q = ctx.tier == "quick"
    if which in ("permanent", "jaxperm"):
        inputs = []
        for (k, l) in ((2, 2), (3, 3), (2, 3), (4, 4), (1, 1)):
            mats = IN.perm_matrices(ctx.seed, k, l, ctx.tier)
            mats = [m for m in mats if m[0] in ("generic0", "herm", "rank1", "ones", "zero_row")][: (2 if q else 4)]
            Tmax = {(2, 2): 6, (3, 3): 4, (2, 3): 4, (4, 4): 3, (1, 1): 5}[(k, l)] + (0 if q else 1)
            for name, mat in mats:
                for T in range(0, Tmax + 1):
                    rws = list(IN.compositions(T, k))
                    cls = IN.representative_cols(T, l)
                    for rows in rws:
                        for cols in cls[:3]:
                            inputs.append((k, l, name, mat, rows, cols))
        if which == "permanent":
            combos = []
            for dtype in ("float64", "float32"):
                for layout in LAYOUTS:
                    for idt in ("int64", "int32", "list"):
                        combos.append(("pybind", layout, dtype, idt))
            combos += [("NumpyConnector", "C", "float64", "int64"), ("NumpyConnector", "step2", "float32", "int32")]
            kernels = ("permanent", "permanent_laplace")
        else:
            combos = [("jax_eager", "C", "float64", "int64"), ("jax_jit", "C", "float64", "int64"), ("JaxConnector", "C", "float64", "int64"),
                      ("jax_jit", "F", "float64", "int64")]
            kernels = ("permanent",)
            # high multiplicities through the JAX entry point as well
            mat2 = IN.perm_matrices(ctx.seed, 2, 2, ctx.tier)[0]
            for rows, cols in (((17, 18), (20, 15)), ((20, 20), (20, 20)), ((0, 34), (34, 0)), ((12, 12), (10, 14))):
                inputs.append((2, 2, mat2[0], mat2[1], rows, cols))
        for kernel in kernels:
            for (k, l, name, mat, rows, cols) in inputs:
                if kernel == "permanent_laplace":
                    cols = cols[:-1] + (cols[-1] + 1,)
                for entry, layout, dtype, idt in combos:
                    if dtype == "float32" and sum(rows) > 8:
                        continue
                    case = {"kind": "perm", "kernel": kernel, "entry": entry, "layout": layout, "dtype": dtype, "index_dtype": idt,
                            "matrix_name": name, "matrix": _mjson(mat), "rows": list(rows), "cols": list(cols)}
                    n_calls += 1
                    ctx.note_distinct("var|%s|%s|%s|%s|%s|%s|%s|%s" % (kernel, entry, layout, dtype, idt, name, rows, cols))
                    try:
                        bad = _variant_perm_fails(case, mat)
                    except NotImplementedError:
                        unsupported += 1
                        continue
                    if bad:
                        rep.report(case)
        ctx.sample({"variants": which, "combinations": [list(c) for c in combos[:6]], "inputs": len(inputs)})
    elif which == "hafnian":
        from mc.refmodel import kernels as K

        combos = [("numba", lay) for lay in ("C", "F", "step2", "readonly")] + [("NumpyConnector", "C"), ("NumpyConnector", "step2")]
        for m in (2, 3):
            mats = [x for x in IN.haf_matrices(ctx.seed, m, ctx.tier) if x[0] in ("generic0", "rank1", "offdiag")]
            dname, dv = IN.haf_diagonals(ctx.seed, m, ctx.tier)[1]
            for name, mat in mats:
                for T in range(0, 5 if q else 7):
                    for occ in IN.compositions(T, m):
                        for kernel in ("hafnian", "loop_hafnian", "loop_hafnian_batch", "hafnian_batch"):
                            # batched: every base vector, photons in the batched (last) mode included
                            if kernel.endswith("batch") and T > 4:
                                continue
                            for entry, layout, cutoff in [c + (4 if kernel.endswith("batch") else None,) for c in combos] + (
                                    # the connector entry point of the batched loop hafnian: the other cutoffs as well
                                    [("NumpyConnector", "C", c) for c in (1, 2, 3, 5, 8)] if kernel == "loop_hafnian_batch" else []):
                                if entry == "NumpyConnector" and kernel == "hafnian_batch":
                                    continue
                                case = {"kind": "haf", "kernel": kernel, "entry": entry, "layout": layout, "matrix_name": name, "family": name.rstrip("0123456789"),
                                        "matrix": _mjson(mat), "diag_name": dname, "diag": _vjson(dv) if kernel.startswith("loop") else None,
                                        "occ": list(occ), "cutoff": cutoff}
                                n_calls += 1
                                ctx.note_distinct("var|%s|%s|%s|%s|%s|%s" % (kernel, entry, layout, name, occ, cutoff))
                                try:
                                    bad = evaluate_case(case) is not None
                                except (TypeError, NotImplementedError):
                                    # a refusal (e.g. the explicitly typed numba signature of the batched
                                    # loop hafnian does not accept read-only arrays) is an unsupported cell
                                    unsupported += 1
                                    ctx.count("variant_cells_unsupported:%s/%s/%s" % (kernel, entry, layout))
                                    continue
                                if bad:
                                    rep.report(case)
        ctx.sample({"variants": which, "combinations": [list(c) for c in combos]})
    elif which == "torontonian":
        for n in (1, 2, 3):
            for name, (num, den) in IN.tor_matrices(ctx.seed, n, ctx.tier):
                yname, (ynum, yden) = IN.tor_displacements(ctx.seed, n, ctx.tier)[2]
                for kernel in ("torontonian", "loop_torontonian"):
                    for dtype in ("float64", "float32"):
                        for layout in LAYOUTS:
                            case = {"kind": "tor", "kernel": kernel, "dtype": dtype, "layout": layout, "matrix_name": name, "family": name.rstrip("0123456789"),
                                    "matrix": {"num": num, "den": den}, "disp_name": yname, "disp": {"num": ynum, "den": yden}}
                            n_calls += 1
                            ctx.note_distinct("var|%s|%s|%s|%d|%s" % (kernel, dtype, layout, n, name))
                            if evaluate_case(case) is not None:
                                rep.report(case)
        ctx.sample({"variants": which, "layouts": list(LAYOUTS), "dtypes": ["float64", "float32"]})
    elif which == "pfaffian":
        for n in (2, 4, 6):
            for name, (num, den) in IN.pf_structured(ctx.seed, n, ctx.tier):
                for entry in ("pybind", "NumpyConnector"):
                    for dtype in ("float64", "float32"):
                        for layout in LAYOUTS:
                            case = {"kind": "pf", "entry": entry, "dtype": dtype, "layout": layout, "matrix_name": name, "family": name.rstrip("0123456789"),
                                    "matrix": {"num": num, "den": den}}
                            n_calls += 1
                            ctx.note_distinct("var|pf|%s|%s|%s|%d|%s" % (entry, dtype, layout, n, name))
                            if evaluate_case(case) is not None:
                                rep.report(case)
        ctx.sample({"variants": which, "layouts": list(LAYOUTS), "entries": ["pybind", "NumpyConnector"]})
    ctx.count("kernel_calls_compared", n_calls)
    ctx.count("variant_cells_unsupported", unsupported)


def _variant_perm_fails(case, mat):
    return evaluate_case(case) is not None
