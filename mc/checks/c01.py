"""C01 -- all bosonic simulators agree on photon-number statistics.

Lock-step explicit-state exploration (mc/lockstep.py): a state is the tuple of live simulator states
(GaussianState, PureFockState, FockState, PassiveState, plus a PureFockState at cutoff+6 that only serves
the exactness self-test) reached by an instruction history from a vacuum / number-state root; a transition
applies one action of the finite alphabet to every implementation through
`Simulator.execute_instructions([instr], initial_state=state)`.  Every transition is executed and checked:

* pure <-> mixed <-> passive Fock representations: fock_probabilities, get_particle_detection_probability of
  every basis vector, state_vector / density_matrix on ALL components (same truncated dynamics), 1e-9;
* Gaussian <-> each Fock representation on the sectors < E that the exactness tracker proves exact, 1e-8;
* depth-1 transitions from number states: every implementation against the dense Fock-space reference
  simulator (mc/refmodel/densefock.py, run at two truncations that must agree to 1e-10);
* tracker self-test on every transition: PureFock(cutoff) == PureFock(cutoff+6) on sectors < E, otherwise
  HARNESS-SELFTEST (exit 2), never a violation;
* ONE-STEP REFERENCE ORACLES on every transition at every depth (mc/c01_onestep.py + mc/refmodel/onestep.py): the
  implementation's OWN parent state is the input and the child state is predicted exactly, independently of the other
  simulators and of the exactness tracker: PureFock / Fock simulators for the action kinds whose truncated dynamics is
  "documented operator restricted to the truncated space" (passive gates on any ordered mode tuple via permanents, Kerr /
  CrossKerr, single-mode Displacement-like gates and Squeezing via exact matrix elements, Attenuator as the Kraus map),
  all components at 1e-9; GaussianSimulator for every gate: (mean, covariance) of the child == symplectic congruence of
  the parent's by the documented matrix embedded on the ordered mode tuple (displacement shift; Attenuator as the
  documented X, Y channel with hbar), 1e-9;
* directed sub-explorations (`_directed`): explicit prefix histories / superposition roots followed by the full alphabet,
  so that the quick tier contains Fock Attenuators acting on coherences |n><m| (n != m, both >= 1) and Gaussian active gates
  with a complex active block acting on a subset of entangled modes;
* an exception that is not a PiquassoException is a crash (violation); InvalidSimulation /
  NotImplementedCalculation are unsupported cells; other PiquassoExceptions are counted as refused cells.

Work is partitioned by (configuration, root) for the first level and by (configuration, root, group of first
actions with pairwise distinct successor states) below it.
"""

import json

LEVEL = "model_checking"

TOL = 1e-9          # pairs that implement the same truncated dynamics (atol = rtol)
TOL_GF = 1e-8       # Gaussian <-> Fock and anything <-> dense reference for active gates
REF_CONV = 1e-10    # the two reference truncations must agree to this on every compared entry (1- and 2-mode gates)
REF_CONV_MULTI = 1e-9  # same for >= 3-mode active gates (smaller truncations are affordable); else the comparison is skipped
SHADOW_EXTRA = 6
FOCK_FAMILY = ("purefock", "fock", "passive")
OBS_NAME = {"fp": "fock_probabilities", "pdp": "get_particle_detection_probability", "sv": "state_vector", "dm": "density_matrix"}


# ---------------------------------------------------------------------------------------
# the bounded space


def _boxes(tier):
    """-> list of configurations (d, cutoff, hbar, root occupation, depth, alphabet level).  Built from boxes
    (d, cutoff, hbar, depth, max_root_photons, alphabet level); every box is explored exhaustively: all roots with
    <= max_root_photons photons (and < cutoff), the full alphabet at every level.  Boxes that share a root keep the
    deepest exploration."""
    from mc import lockstep as L

    B = []
    # quick: <= ~4 CPU-minutes in total (the machine budget set by the lead); hbar and cutoff are paired
    Q = []
    for c, h in ((1, 2.0), (2, 0.63), (3, 2.0), (4, 0.63)):  # first level: every cutoff 1..4, all roots, d <= 3
        Q += [(1, c, h, 1, 2, "quick"), (2, c, h, 1, 2, "quick"), (3, c, h, 1, 2, "quick")]
    Q.append((1, 3, 2.0, 3, 2, "quick"))
    Q += [(2, 2, 0.63, 2, 2, "quick"), (2, 3, 2.0, 2, 1, "quick")]
    Q.append((3, 3, 2.0, 2, 0, "quick"))  # depth 2 on 3 modes from the vacuum: the Gaussian simulator takes part
    if tier == "quick":
        B = Q
    else:
        B = list(Q)  # thorough is a superset of quick
        for h in (2.0, 0.63):
            for c in (1, 2, 3, 4):
                B += [(1, c, h, 2, 2, "quick"), (2, c, h, 1, 2, "quick"), (3, c, h, 1, 2, "quick")]
        for c in (1, 2, 3, 4):
            B.append((1, c, 2.0, 3, 2, "quick"))
        for c, h in ((1, 0.63), (2, 2.0), (3, 0.63), (4, 2.0)):
            B.append((2, c, h, 2, 2, "quick"))
        B.append((2, 3, 2.0, 3, 0, "quick"))
        B += [(3, 1, 2.0, 2, 0, "quick"), (3, 2, 0.63, 2, 1, "quick"), (3, 3, 2.0, 2, 1, "quick"), (3, 4, 0.63, 2, 0, "quick")]
        for h in (2.0, 1.0, 0.63):
            for c in (1, 2, 3, 4, 5):
                B += [(1, c, h, 3, 2, "thorough"), (2, c, h, 2, 2, "thorough"), (3, c, h, 1, 2, "thorough"), (4, c, h, 1, 2, "thorough")]
        for c, h in ((1, 2.0), (2, 1.0), (3, 0.63), (4, 2.0), (5, 1.0)):
            B.append((3, c, h, 2, 2 if c <= 3 else 1, "thorough"))
        B += [(2, 3, 2.0, 3, 1, "quick"), (2, 4, 0.63, 3, 0, "quick"), (2, 5, 1.0, 3, 0, "quick")]
        B += [(3, 3, 2.0, 3, 0, "quick")]
        B += [(4, 1, 1.0, 2, 0, "quick"), (4, 2, 0.63, 2, 1, "quick"), (4, 3, 2.0, 2, 0, "quick"), (4, 4, 1.0, 2, 0, "quick")]
    merged = {}
    for d, c, h, depth, ph, level in B:
        for occ in L.number_roots(d, ph, c):
            k = (d, c, h, occ)
            if k not in merged or depth > merged[k][0] or (depth == merged[k][0] and level == "thorough"):
                merged[k] = (depth, level)
    return [(d, c, h, occ, depth, level) for (d, c, h, occ), (depth, level) in sorted(merged.items())]


def _ms_per_transition(d, cutoff):
    """measured CPU cost model of one lock-step transition (all implementations + comparisons), for load balancing only"""
    from math import comb

    return 6.0 + 0.6 * comb(d + cutoff - 1, d)


def _table_name(cls, pkey, local):
    return "p0|%s|%s|%s" % (cls, pkey, "".join(map(str, local)))


def _cfg_key(cfg):
    d, c, h, occ, depth, level = cfg
    return "%d|%d|%r|%s|%d|%s" % (d, c, h, _root_label(occ), depth, level)


# superposition roots (fixed closed-form amplitudes, independent of VERIF_SEED; components with total >= cutoff are dropped
# and the rest is normalised); a root spec is a tuple of ints (number state) or ("sup", name)
SUPERPOSITIONS = {
    "s1": {(0,): 1.0, (1,): 0.8 - 0.3j, (2,): -0.5 + 0.6j, (3,): 0.4j},
    "s2": {(0, 0): 1.0, (1, 0): 0.7j, (0, 1): -0.6 + 0.2j, (2, 0): 0.5 - 0.4j, (1, 1): 0.3 + 0.5j, (0, 2): -0.45j, (2, 1): 0.35},
}


def _is_number_root(occ):
    return not (len(occ) and isinstance(occ[0], str))


def _root_label(occ):
    return "".join(map(str, occ)) if _is_number_root(occ) else "sup:%s" % occ[1]


def _root_json(occ):
    return [int(x) for x in occ] if _is_number_root(occ) else {"superposition": occ[1]}


def _root_from_json(r):
    return ("sup", str(r["superposition"])) if isinstance(r, dict) else tuple(int(x) for x in r)


def _sup_components(name, cutoff):
    import numpy as np

    comps = {k: complex(v) for k, v in SUPERPOSITIONS[name].items() if sum(k) < cutoff}
    nrm = float(np.sqrt(sum(abs(v) ** 2 for v in comps.values())))
    return {k: v / nrm for k, v in sorted(comps.items())}


def _directed(tier):
    """directed sub-explorations: (d, cutoff, hbar, root spec, prefix [(cls, modes), ...], depth below the prefix).
    The prefix actions are the alphabet's own templates of that class and mode tuple (generic parameters); the prefix
    transitions are executed and checked as well, then the FULL alphabet is explored `depth` levels below."""
    sup1, sup2 = ("sup", "s1"), ("sup", "s2")
    Q = [
        # (A) Fock Attenuator on coherences |n><m| with n != m, both >= 1 in the attenuated mode
        (2, 3, 2.0, (2, 0), [("Beamsplitter", (0, 1))], 1),
        (2, 3, 2.0, (1, 1), [("Interferometer", (1, 0))], 1),
        (2, 4, 0.63, (2, 1), [("Beamsplitter", (1, 0))], 1),
        (2, 4, 0.63, (0, 0), [("Displacement", (0,)), ("Beamsplitter", (0, 1))], 1),
        (1, 4, 0.63, sup1, [], 2),
        (2, 3, 2.0, sup2, [], 1),
        (2, 4, 0.63, sup2, [("Attenuator", (1,))], 1),
        (3, 3, 2.0, (1, 1, 0), [("Interferometer", (2, 0, 1)), ("Attenuator", (1,))], 1),  # mixed 3-mode state: only FockSimulator continues
        # (B) Gaussian: a second / third active gate with a complex active block on a subset of entangled modes
        (3, 2, 0.63, (0, 0, 0), [("Squeezing2", (0, 1)), ("Beamsplitter", (1, 2))], 1),
        (3, 2, 2.0, (0, 0, 0), [("GaussianTransform", ()), ("Squeezing", (1,))], 1),
        (3, 1, 1.0, (0, 0, 0), [("Squeezing2", (2, 0)), ("Displacement", (2,)), ("QuadraticPhase", (0,))], 1),
    ]
    if tier == "quick":
        return Q
    T = list(Q)
    for h in (2.0, 1.0, 0.63):
        T += [(1, 5, h, sup1, [], 2), (2, 4, h, sup2, [], 1)]
    T += [
        (2, 3, 0.63, sup2, [], 2),
        (2, 4, 1.0, (2, 1), [("Beamsplitter", (0, 1)), ("Attenuator", (0,))], 1),
        (2, 5, 2.0, (2, 2), [("MachZehnder", (1, 0))], 1),
        (3, 4, 1.0, (2, 0, 1), [("Interferometer", (2, 0, 1))], 1),
        (3, 3, 1.0, (0, 0, 0), [("Squeezing2", (0, 2)), ("Beamsplitter", (2, 1))], 2),
        (4, 2, 0.63, (0, 0, 0, 0), [("GaussianTransform", ()), ("Squeezing2", (3, 1))], 1),
        (4, 2, 2.0, (0, 0, 0, 0), [("Squeezing2", (0, 1)), ("Squeezing2", (2, 3)), ("Interferometer", (1, 2, 3))], 1),
    ]
    return T


def _directed_label(item):
    d, c, h, occ, prefix, depth = item
    return "d=%d cutoff=%d hbar=%r root=%s prefix=%s depth_below=%d" % (
        d, c, h, _root_label(occ), "+".join("%s%s" % (cls, "".join(map(str, m)) or "all") for cls, m in prefix) or "-", depth)


def _pick(actions, cls, modes):
    for a in actions:
        if a[0] == cls and tuple(a[1]) == tuple(modes):
            return a
    raise KeyError("directed prefix action %s%r is not in the alphabet" % (cls, tuple(modes)))


# ---------------------------------------------------------------------------------------
# run / work / replay


def run(ctx, builddir):
    from mc import core
    from mc import lockstep as L

    cfgs = _boxes(ctx.tier)
    only = getattr(ctx, "only", None)
    if only:  # development filter: comma separated tokens  d2 / d3c4 (box prefix), D2 (cap depth), vac (vacuum roots only), p1
        toks = only.split(",")
        sel = [t for t in toks if t.startswith("d")]
        if sel:
            cfgs = [c for c in cfgs if any(("d%dc%d" % (c[0], c[1])).startswith(s) for s in sel)]
        for t in toks:
            if t.startswith("D"):
                cfgs = [c[:4] + (min(c[4], int(t[1:])),) + c[5:] for c in cfgs]
        if "vac" in toks:
            cfgs = [c for c in cfgs if sum(c[3]) == 0]
        if "p1" in toks:
            only = "p1"
        if "dironly" in toks:
            cfgs = []
        ctx.exhaustive = False
    directed = [] if (only and ("nodir" in only.split(",") or only == "p1")) else _directed(ctx.tier)
    ctx.rule = (
        "enumeration: for every configuration box (d, cutoff, hbar, depth) every root (vacuum and every number state with "
        "<= 2 photons below the cutoff) and every instruction sequence up to the box depth over the full alphabet "
        "(every gate kind on every ORDERED mode tuple, generic parameters; mc.lockstep.alphabet); a case = one lock-step "
        "state (tuple of live simulator states + exactness record); distinct = distinct canonical hash (amplitudes / moments "
        "rounded to 1e-9, merged over all workers); every such state is non-trivial (it is the target of an executed and "
        "compared transition); plus the directed sub-explorations listed in coverage.directed (explicit prefix history or "
        "superposition root, then the full alphabet)"
    )
    ctx.assume("one-step reference oracles (every transition, every depth, tolerance 1e-9 abs+rel, input = the implementation's own parent state): "
               "Fock simulators for passive gates, Kerr, CrossKerr, Displacement / PositionDisplacement / MomentumDisplacement, Squeezing and Attenuator "
               "(thermal excitation 0); the Euler-decomposed gates QuadraticPhase, Squeezing2, ControlledX/Z, GaussianTransform have NO one-step Fock oracle "
               "(the library truncates between the three factors, so the truncated step is not the restricted documented operator); GaussianSimulator for "
               "every gate of the alphabet, on the internal ladder moments (_m, _C, _G) converted with the reference's own formulae")
    ctx.assume("the exact single-mode Displacement / Squeezing matrix elements of the one-step oracle (dense expm at cutoff+30 / cutoff+40, agreeing to 1e-12) "
               "were verified to equal piquasso's recurrence-generated matrices to 1e-12 for cutoff 1..8 on the unchanged tree before being relied on")
    ctx.assume("Gaussian<->Fock and simulator<->dense-reference (active gates) tolerance 1e-8 abs+rel (Euler/Takagi conditioning, DESIGN 2.5); all other pairs 1e-9")
    ctx.assume("Gaussian<->Fock compared only on total-photon-number sectors < E of the exactness tracker (mc.lockstep.Exactness); the tracker is "
               "self-tested on every transition against PureFockSimulator at cutoff+%d" % SHADOW_EXTRA)
    ctx.assume("state vectors of Euler-decomposed gates (QuadraticPhase, Squeezing2, ControlledX/Z, GaussianTransform) are compared with the "
               "dense reference modulo one global phase; between simulators never modulo a phase")
    ctx.assume("dense reference = expm of the quadratic Hamiltonian generating the DOCUMENTED symplectic matrix of each gate (the docstring "
               "Hamiltonians of Beamsplitter, Squeezing2 and ControlledZ contradict their own documented matrices and are not used); "
               "two truncations must agree to 1e-10 (1-/2-mode gates; otherwise HARNESS error) or 1e-9 (3-/4-mode GaussianTransform, tabulated once per "
               "gate and local occupation in phase 0; otherwise that comparison is skipped and counted as ref_unconverged)")
    ctx.assume("hbar values and cutoffs are paired per box (see coverage.boxes), not a full cross product at every depth; the quick tier was shrunk to "
               "~4 CPU-minutes on request (about 16.7k box transitions + about 750 directed transitions, one-step oracles on all of them: < 5 CPU-minutes); the previous quick boxes (112k transitions, all hbar x cutoff at the first level, "
               "depth 2 from 1-photon roots on 3 modes, depth 3 on 2 modes) are part of the thorough tier")

    # phase 0: dense-reference tables of the >= 3-mode active gates (one expensive evaluation per gate and local occupation)
    need = {}
    for cfg in cfgs:
        for key in _needed_tables(cfg, ctx.seed):
            need[key] = max(need.get(key, 0), cfg[1])
    items0 = [("p0", cls, pkey, list(local), cmax) for (cls, pkey, local), cmax in sorted(need.items(), key=lambda kv: (-len(kv[0][2]), kv[0]))]
    core.pmap(ctx, "mc.checks.c01", "work", items0, builddir)
    tables = {}
    for k in [k for k in ctx.extra if k.startswith("p0|")]:
        tables[k] = ctx.extra.pop(k)

    # phase 1: first level of every (configuration, root)
    by_cost = sorted(cfgs, key=lambda c: -_ms_per_transition(c[0], c[1]) * c[0] ** 2)
    n_items = max(1, min(len(cfgs), 16 * 6))
    groups = [[] for _ in range(n_items)]
    for i, c in enumerate(by_cost):
        groups[i % n_items].append(c)
    items1 = []
    for g in groups:
        if g:
            keys = set()
            for cfg in g:
                keys |= {_table_name(*key) for key in _needed_tables(cfg, ctx.seed)}
            items1.append(("p1", g, {k: tables[k] for k in sorted(keys) if k in tables}))
    del tables
    core.pmap(ctx, "mc.checks.c01", "work", items1, builddir)

    # phase 2: below the first level, one representative first action per distinct successor
    items2 = []
    if only != "p1":
        for cfg in cfgs:
            d, c, h, occ, depth, level = cfg
            if depth < 2:
                continue
            keys = ctx.extra.pop("p1|" + _cfg_key(cfg), None)
            if keys is None:
                raise core.HarnessError("phase 1 did not report configuration %r" % (cfg,))
            reps, seen = [], set()
            for ai, k in enumerate(keys):
                if k is None or k in seen:
                    continue
                seen.add(k)
                reps.append(ai)
            ctx.count("first_level_successors_merged", sum(1 for k in keys if k is not None) - len(reps))
            nact = len(keys)
            per_first = _ms_per_transition(d, c) * sum(nact ** k for k in range(1, depth))  # ms below one first action
            target = 15000.0 if ctx.tier == "quick" else 60000.0
            chunk = max(1, int(target / per_first))
            for i in range(0, len(reps), chunk):
                items2.append((per_first * len(reps[i:i + chunk]), ("p2", cfg, reps[i:i + chunk])))
        for it in directed:
            d, c, h, occ, prefix, depth = it
            nact = len(L.alphabet("bosonic", d, "quick", ctx.seed))
            items2.append((_ms_per_transition(d, c) * sum(nact ** k for k in range(1, depth + 1)), ("p3", it)))
        items2.sort(key=lambda t: -t[0])
        core.pmap(ctx, "mc.checks.c01", "work", [it for _, it in items2], builddir)
    for k in [k for k in ctx.extra if k.startswith("p1|")]:
        ctx.extra.pop(k)

    _aggregate_signatures(ctx)
    c = ctx.counters
    # vacuity guard: every gate class must have produced >= 2 distinct successors somewhere
    vac = [k for k, v in c.items() if k.startswith("max_successors/") and v < 2]
    if vac and not only:
        raise core.HarnessError("HARNESS-VACUOUS alphabet: %s never produced two distinct successors" % vac)
    if not only:
        for k in ("onestep_sensitive/FockSimulator/attenuator_on_unequal_coherence", "onestep_sensitive/GaussianSimulator/complex_active_block_on_entangled_subset",
                  "onestep_compared/PureFockSimulator", "onestep_compared/FockSimulator", "onestep_compared/GaussianSimulator"):
            if c.get(k, 0) < 10:
                raise core.HarnessError("HARNESS-VACUOUS one-step oracle: counter %s = %d" % (k, c.get(k, 0)))
    boxes = {}
    for d, cc, h, occ, depth, level in cfgs:
        boxes.setdefault("d=%d cutoff=%d hbar=%r depth=%d alphabet=%s" % (d, cc, h, depth, level), []).append("".join(map(str, occ)))
    return {
        "states": c.get("states", 0),
        "distinct_states_merged_over_workers": len(ctx.distinct),
        "transitions": c.get("transitions", 0),
        "traces_validated_against_impl": c.get("transitions_compared", 0),
        "max_depth": c.get("max_depth", 0),
        "paths": c.get("transitions", 0),
        "unsupported_cells": c.get("unsupported_cells", 0),
        "implementation_executions": {k.split("/", 1)[1]: v for k, v in c.items() if k.startswith("executions/")},
        "alphabet_sizes": {"d=%d/%s" % (d, lv): len(L.alphabet("bosonic", d, lv, ctx.seed)) for d, lv in sorted({(x[0], x[5]) for x in cfgs})},
        "boxes": {k: sorted(v) for k, v in sorted(boxes.items())},
        "directed": [_directed_label(it) for it in directed],
        "one_step_reference": {k[len("onestep_"):]: v for k, v in sorted(c.items()) if k.startswith("onestep_")},
        "explanation": "state = distinct canonical lock-step state (live states of all participating simulators + exactness record), "
        "merged over workers by hash; transition = one alphabet action applied to every live implementation of a state through "
        "execute_instructions and compared (pairwise, one-step reference oracles from the implementation's own parent state, vs dense reference at depth 1, tracker self-test); traces_validated = transitions "
        "in which at least one cross-implementation or reference comparison was actually evaluated; paths = instruction histories "
        "executed (one per transition); max_successors/<d>/<gate> = distinct canonical successors per gate class (vacuity guard)",
    }


def _aggregate_signatures(ctx):
    """One defect usually trips many (gate, mode order, cutoff) cells.  Violations that share
    (sub, who, observable, gate_kind) are merged into one signature: the fields gate / mode_order /
    cutoff_class keep their value when it is the same for the whole group and become 'several' otherwise."""
    groups = {}
    for v in ctx.violations:
        s = v.signature
        if s.get("sub") == "one_step_reference":
            k = (s["sub"], s["simulator"], s["gate_kind"], s.get("component"), s.get("block"))
        elif s.get("sub") in ("disagree", "vs_reference"):
            k = (s["sub"], s.get("odd_one_out"), s.get("pair"), s.get("simulator"), s["observable"], s["gate_kind"])
        else:
            continue
        groups.setdefault(k, []).append(v)
    for vs in groups.values():
        for field in ("gate", "mode_order", "cutoff_class"):
            if field not in vs[0].signature:
                continue
            vals = {v.signature[field] for v in vs}
            if len(vals) > 1:
                for v in vs:
                    v.signature[field] = "several"


def work(ctx, item):
    import numpy as np

    if item[0] == "p0":
        _, cls, pkey, local, cmax = item
        t = _ref_table_entry(cls, pkey, tuple(local), ctx.seed, cmax)
        ctx.count("ref_tables")
        ctx.extra[_table_name(cls, pkey, local)] = {
            "cls": cls, "pkey": pkey, "local": list(local), "cmax": cmax, "delta": t["delta"],
            "dm": np.asarray(t["dm"]), "sv": np.asarray(t["sv"]),
        }
    elif item[0] == "p1":
        from mc.refmodel import densefock as DF

        for name, t in item[2].items():
            B = DF.basis(len(t["local"]), t["cmax"])
            _REF_TABLE[(t["cls"], t["pkey"], tuple(t["local"]), ctx.seed)] = {
                "cmax": t["cmax"], "dm": t["dm"], "sv": t["sv"], "delta": t["delta"], "index": {tuple(b): i for i, b in enumerate(B)},
            }
        for cfg in item[1]:
            _explore_cfg(ctx, tuple(cfg), None)
    elif item[0] == "p3":
        _explore_directed(ctx, item[1])
    else:
        _explore_cfg(ctx, tuple(item[1]), list(item[2]))


def _setup(cfg, seed):
    from mc import lockstep as L

    d, cutoff, hbar, occ, depth, level = cfg
    occ = tuple(occ)
    sims = {k: L.make_simulator(k, d, cutoff, hbar) for k in L.SIM_KINDS}
    sims["shadow"] = L.make_simulator("purefock", d, cutoff + SHADOW_EXTRA, hbar)
    states, failures = {}, {}
    comps = None if _is_number_root(occ) else _sup_components(occ[1], cutoff)
    for name, sim in sims.items():
        kind = "purefock" if name == "shadow" else name
        try:
            st = L.root_state(sim, kind, occ) if comps is None else _sup_root_state(sim, kind, comps)
        except Exception as e:
            failures[name] = L.Failure(e)
            continue
        if st is not None:
            states[name] = st
    if comps is None:
        exact = L.Exactness.root(occ, cutoff)
    else:  # K_j = largest occupation of mode j over the components; every component is represented exactly
        exact = L.Exactness([float(max(k[j] for k in comps)) for j in range(d)], cutoff)
    root = L.Node(states, (), exact, label=_root_label(occ))
    return sims, root, failures


def _sup_root_state(sim, kind, comps):
    """superposition root through the public preparation path (PureFock: NumberState with coefficients; Fock: DensityMatrix
    entries); the Gaussian and passive simulators cannot prepare it"""
    import numpy as np
    import piquasso as pq

    if kind == "purefock":
        return sim.execute_instructions([pq.NumberState(k, coefficient=v) for k, v in comps.items()]).state
    if kind == "fock":
        return sim.execute_instructions([pq.DensityMatrix(ket=k, bra=b, coefficient=comps[k] * np.conj(comps[b])) for k in comps for b in comps]).state
    return None


def _participates_factory(d, cutoff):
    """the self-test track (PureFock at cutoff+6) does not execute Attenuator when its density matrix is large:
    piquasso's Fock attenuator is a Python loop over dim^2 operator-basis pairs (0.12 s at d=2, 0.9 s at d=3 for cutoff 10),
    so the attenuation rule of the tracker is self-tested at d=1 only"""
    from math import comb

    big = comb(d + cutoff + SHADOW_EXTRA - 1, d) > 12

    def participates(name, node, action):
        return not (name == "shadow" and big and action[0] == "Attenuator")

    return participates


class _Env:
    """per-(configuration, root) context shared by the transition checks"""

    def __init__(self, ctx, cfg, sims):
        from mc import lockstep as L

        self.ctx, self.cfg, self.sims = ctx, cfg, sims
        self.d, self.cutoff, self.hbar, self.occ, self.depth, self.level = cfg
        self.occ = tuple(self.occ)
        self.basis = L.fock_basis(self.d, self.cutoff)
        self.maxdev = {}
        self.replaying = False
        self.participates = _participates_factory(self.d, self.cutoff)

    def case(self, history, action, extra=None):
        from mc import lockstep as L

        c = {
            "d": self.d, "cutoff": self.cutoff, "hbar": self.hbar, "seed": self.ctx.seed, "root": _root_json(self.occ),
            "history": [L.template_json(t) for t in history], "action": L.template_json(action),
        }
        if extra:
            c.update(extra)
        return c


def _explore_cfg(ctx, cfg, first_actions):
    from mc import lockstep as L

    d, cutoff, hbar, occ, depth, level = cfg
    actions = L.alphabet("bosonic", d, level, ctx.seed)
    sims, root, root_failures = _setup(cfg, ctx.seed)
    env = _Env(ctx, cfg, sims)
    for name, f in root_failures.items():
        if name != "shadow":
            _report_failure(env, (), ("Vacuum", (), {}), name, f, stage="root-preparation")
    if not root.states:
        return
    keys = [None] * len(actions)

    def on_transition(history, parents, action, children, info):
        ok = _check_transition(env, history, parents, action, children, info)
        if first_actions is None and info["depth"] == 1:
            keys[info["action_index"]] = info["key"].hex() if (ok and info["key"] is not None) else None
        if info["new"] and info["key"] is not None:
            ctx.note_distinct(info["key"])
        return ok

    if first_actions is None:
        ctx.note_distinct(L.canon_node(root.states, root.exact.key()))
        stats = L.explore(sims, [root], actions, 1, on_transition, seed=ctx.seed, participates=env.participates)
        if depth >= 2:
            ctx.extra["p1|" + _cfg_key(cfg)] = keys
    else:
        roots2 = []
        for ai in first_actions:
            children, _ = L.step_node(sims, root, actions[ai], ctx.seed, env.participates)
            live = {n: s for n, s in children.items() if not isinstance(s, L.Failure)}
            if live:
                roots2.append(L.Node(live, (actions[ai],), root.exact.step(actions[ai]), root.root_states, root.label))
        stats = L.explore(sims, roots2, actions, depth - 1, on_transition, seed=ctx.seed, participates=env.participates)
    ctx.count("transitions", stats["transitions"])
    ctx.count("states", stats["states"] - (0 if first_actions is None else len(roots2)))
    ctx.counters["max_depth"] = max(ctx.counters.get("max_depth", 0), stats["max_depth"])
    for name, n in stats["executions"].items():
        ctx.count("executions/" + name, n)
    per_cls = {}
    for ai, n in stats["successors_per_action"].items():
        cls = actions[ai][0]
        per_cls[cls] = max(per_cls.get(cls, 0), n)
    for cls, n in per_cls.items():
        k = "max_successors/d%d/%s" % (d, cls)
        ctx.counters[k] = max(ctx.counters.get(k, 0), n)
    for k, v in env.maxdev.items():
        kk = "max_dev/" + k
        ctx.counters[kk] = max(ctx.counters.get(kk, 0.0), v)


def _explore_directed(ctx, item):
    """one directed sub-exploration: root -> prefix (every prefix transition executed and checked) -> full alphabet"""
    from mc import lockstep as L

    d, cutoff, hbar, occ, prefix, depth = item
    occ = tuple(occ)
    cfg = (d, cutoff, hbar, occ, len(prefix) + depth, "quick")
    actions = L.alphabet("bosonic", d, "quick", ctx.seed)
    sims, root, root_failures = _setup(cfg, ctx.seed)
    env = _Env(ctx, cfg, sims)
    for name, f in root_failures.items():
        if name != "shadow":
            _report_failure(env, (), ("Vacuum", (), {}), name, f, stage="root-preparation")
    if not root.states:
        return
    ctx.note_distinct(L.canon_node(root.states, root.exact.key()))
    node = root
    for cls, modes in prefix:
        t = _pick(actions, cls, tuple(modes))
        children, reexecuted = L.step_node(sims, node, t, ctx.seed, env.participates)
        live = {n: s for n, s in children.items() if not isinstance(s, L.Failure)}
        exact_child = node.exact.step(t)
        key = L.canon_node(live, exact_child.key()) if live else None
        info = {
            "depth": len(node.history) + 1, "action_index": -1, "exact_parent": node.exact, "exact_child": exact_child,
            "key": key, "new": False, "reexecuted": reexecuted, "label": node.label, "root_states": node.root_states, "prefix": True,
        }
        ok = _check_transition(env, node.history, node.states, t, children, info)
        ctx.count("transitions")
        ctx.count("states")
        for n in live:
            ctx.count("executions/" + n)
        if key is not None:
            ctx.note_distinct(key)
        if not ok or not live:
            return
        node = L.Node(live, node.history + (t,), exact_child, node.root_states, node.label)

    def on_transition(history, parents, action, children, info):
        ok = _check_transition(env, history, parents, action, children, info)
        if info["new"] and info["key"] is not None:
            ctx.note_distinct(info["key"])
        return ok

    stats = L.explore(sims, [node], actions, depth, on_transition, seed=ctx.seed, participates=env.participates)
    ctx.count("transitions", stats["transitions"])
    ctx.count("directed_transitions", stats["transitions"] + len(prefix))
    ctx.count("states", stats["states"] - 1 + (0 if prefix else 1))
    ctx.counters["max_depth"] = max(ctx.counters.get("max_depth", 0), stats["max_depth"])
    for name, n in stats["executions"].items():
        ctx.count("executions/" + name, n)
    for k, v in env.maxdev.items():
        kk = "max_dev/" + k
        ctx.counters[kk] = max(ctx.counters.get(kk, 0.0), v)


# ---------------------------------------------------------------------------------------
# the per-transition oracle


def _sig_base(env, action):
    from mc import lockstep as L

    return {
        "check": "C01", "gate": action[0], "gate_kind": L.gate_kind(action[0]),
        "mode_order": L.mode_order_class(action[1]), "cutoff_class": "cutoff<=2" if env.cutoff <= 2 else "cutoff>=3",
    }


def _emit(env, sig, history, action, message, extra=None):
    """report a violation after confirming it on a second, independent execution from the root"""
    from mc import core

    case = env.case(history, action, extra)
    if not env.replaying:
        seen = env.ctx.__dict__.setdefault("_c01_sig_seen", {})
        k = json.dumps(sig, sort_keys=True)
        seen[k] = seen.get(k, 0) + 1
        env.ctx.count("violating_transitions")
        if seen[k] > 3:  # the first three cases per signature and worker are confirmed and recorded
            return
        probe = core.Check(env.ctx.prop, env.ctx.tier, env.ctx.seed, env.ctx.level)
        _replay_case(probe, case)
        again = [v for v in probe.violations if v.signature == sig]
        if not again:
            raise core.HarnessError(
                "HARNESS-NONDETERMINISM C01: violation %s not reproduced on re-execution of %s" % (json.dumps(sig, sort_keys=True), json.dumps(case))
            )
    env.ctx.violation(sig, case, message)


def _report_failure(env, history, action, name, f, stage="step", reexecuted=False):
    from mc import lockstep as L

    ctx = env.ctx
    if f.cls == "unsupported":
        ctx.count("unsupported_cells")
        ctx.count("unsupported/%s/%s" % (name, action[0]))
        return True
    if f.cls == "refused":
        ctx.count("refused_cells")
        ctx.count("refused/%s/%s/%s" % (name, action[0], f.exc_type))
        return True
    ctx.count("crashes")
    if stage == "root-preparation":
        input_class = "root-preparation"
    elif reexecuted:
        input_class = "state-class-changed(after Attenuator)"
    else:
        input_class = "cutoff<=2" if env.cutoff <= 2 else "cutoff>=3"
    sig = {"check": "C01", "sub": "crash", "simulator": L._SIM_CLASS.get(name, name), "exc": f.exc_type, "input_class": input_class}
    if not reexecuted and stage != "root-preparation":
        sig["gate_kind"] = L.gate_kind(action[0])
    msg = "%s raised %s on %s%r after history %s (d=%d cutoff=%d hbar=%r root=%s): %s\n%s" % (
        sig["simulator"], f.exc_type, action[0], tuple(action[1]), [t[0] + str(tuple(t[1])) for t in history],
        env.d, env.cutoff, env.hbar, env.occ, f.message, f.tb)
    _emit(env, sig, history, action, msg, {"kind": "crash", "simulator": name})
    return False


def _note_dev(env, key, ratio_dev):
    env.maxdev[key] = max(env.maxdev.get(key, 0.0), ratio_dev)


def _check_transition(env, history, parents, action, children, info):
    from mc import core
    from mc import lockstep as L
    import numpy as np

    ctx = env.ctx
    ok = True
    live = {}
    for name, c in children.items():
        if isinstance(c, L.Failure):
            if name == "shadow":
                continue
            if not _report_failure(env, history, action, name, c, reexecuted=name in info["reexecuted"]):
                ok = False
        else:
            live[name] = c
    if info["reexecuted"]:
        ctx.count("reexecuted_from_root", len(info["reexecuted"]))
    ex = info["exact_child"]
    E = ex.E
    basis = env.basis
    mask = L.sector_mask(basis, E)
    obs = {}

    def O(name):
        if name not in obs:
            obs[name] = L.observables(live[name], basis)
            if obs[name]["unsupported"]:
                ctx.count("unsupported_cells", len(obs[name]["unsupported"]))
        return obs[name]

    compared = False
    sig0 = _sig_base(env, action)

    def compare(a_name, b_name, restrict, tol, sub="disagree"):
        nonlocal ok, compared
        A, B = O(a_name), O(b_name)
        for key in ("fp", "pdp", "sv", "dm"):
            if key not in A or key not in B:
                continue
            a, b = A[key], B[key]
            if restrict is not None:
                if not restrict.any():
                    continue
                if key == "dm":
                    ix = np.nonzero(restrict)[0]
                    a, b = a[np.ix_(ix, ix)], b[np.ix_(ix, ix)]
                else:
                    a, b = a[restrict], b[restrict]
            ratio, where, dev = L.max_dev(a, b, tol, tol)
            compared = True
            ctx.count("comparisons/%s~%s" % (a_name, b_name))
            _note_dev(env, "%s~%s" % (a_name, b_name), dev if np.isfinite(dev) else 1e300)
            if ratio > 1.0:
                ok = False
                pair_fail.append((a_name, b_name, key, dev, tol, restrict is None, where))
                return  # first failing observable of the pair only
        pair_ok.append((a_name, b_name))

    pair_fail, pair_ok = [], []
    fam = [n for n in FOCK_FAMILY if n in live]
    for i in range(len(fam)):
        for j in range(i + 1, len(fam)):
            compare(fam[i], fam[j], None, TOL)
    if "gaussian" in live:
        for n in fam:
            if n == "passive":
                compare("gaussian", n, None if E >= env.cutoff else mask, TOL_GF)
            elif E > 0:
                compare("gaussian", n, mask, TOL_GF)
                ctx.count("gauss_fock_compared")
            else:
                ctx.count("gauss_fock_skipped_E0")
    if pair_fail:
        # attribution: if one implementation is part of every failing pair (>= 2 of them) and the others agree among
        # themselves, name it; otherwise report the pairs
        names = set(pair_fail[0][:2])
        for f in pair_fail[1:]:
            names &= set(f[:2])
        odd = sorted(names)[0] if (len(pair_fail) >= 2 and len(names) == 1) else None
        groups = [pair_fail] if odd else [[f] for f in pair_fail]
        for grp in groups:
            a_name, b_name, key, dev, tol, all_comp, where = grp[0]
            if odd:
                sig = dict(sig0, sub="disagree", odd_one_out=L._SIM_CLASS[odd], observable=OBS_NAME[key])
                who = "%s disagrees with %s" % (odd, " and ".join(sorted({n for f in grp for n in f[:2]} - {odd})))
            else:
                sig = dict(sig0, sub="disagree", pair="%s~%s" % (a_name, b_name), observable=OBS_NAME[key])
                who = "%s and %s disagree" % (a_name, b_name)
            msg = "%s on %s by %.3e (tolerance %.0e, %s) after %s + %s%r %s; d=%d cutoff=%d hbar=%r root=%s %r; component %s" % (
                who, OBS_NAME[key], dev, tol, "all components" if all_comp else "sectors < E=%d" % E,
                [t[0] + str(tuple(t[1])) for t in history], action[0], tuple(action[1]), json.dumps(L.template_json(action)[2]),
                env.d, env.cutoff, env.hbar, env.occ, ex, where)
            _emit(env, sig, history, action, msg, {"kind": "pair", "pairs": [[f[0], f[1], f[2], f[3]] for f in grp]})

    # one-step reference oracles: the implementation's own parent state -> predicted child state (every depth)
    from mc import c01_onestep as OS1

    for n in ("purefock", "fock", "gaussian"):
        if n not in live or n not in parents:
            continue
        simcls = L._SIM_CLASS[n]
        if n == "gaussian":
            r = OS1.check_gauss(parents[n], live[n], action, env.d, env.hbar, ctx.seed)
        else:
            r = OS1.check_fock(parents[n], live[n], action, env.d, env.cutoff, ctx.seed)
        if r is None:
            ctx.count("onestep_no_oracle/%s" % simcls)
            continue
        compared = True
        ctx.count("onestep_compared/%s" % simcls)
        ctx.count("onestep_compared_by_kind/%s/%s" % (simcls, OS1.gauss_kind(action[0]) if n == "gaussian" else L.gate_kind(action[0])))
        if r["sensitive"]:
            ctx.count("onestep_sensitive/%s/%s" % (simcls, "complex_active_block_on_entangled_subset" if n == "gaussian" else "attenuator_on_unequal_coherence"))
        _note_dev(env, "%s~onestep" % n, r["dev"] if np.isfinite(r["dev"]) else 1e300)
        if not r["ok"]:
            ok = False
            sig = {"check": "C01", "sub": "one_step_reference", "simulator": simcls, "gate": action[0], "mode_order": L.mode_order_class(action[1])}
            if n == "gaussian":
                sig.update(gate_kind=OS1.gauss_kind(action[0]), block=r["block"])
                what = "block %s of (mean, covariance)" % r["block"]
            else:
                sig.update(gate_kind=L.gate_kind(action[0]), component=r["component"])
                what = "%s (%s)" % (r["observable"], r["component"])
            msg = "%s: the child state differs from the one-step reference prediction computed from its OWN parent state on %s by %.3e (tolerance %.0e) for %s%r %s after %s; d=%d cutoff=%d hbar=%r root=%s; entry %s" % (
                simcls, what, r["dev"], OS1.TOL, action[0], tuple(action[1]), json.dumps(L.template_json(action)[2]),
                [t[0] + str(tuple(t[1])) for t in history], env.d, env.cutoff, env.hbar, _root_label(env.occ), r["where"])
            _emit(env, sig, history, action, msg, {"kind": "one_step", "simulator": n, "deviation": r["dev"]})

    # tracker self-test: PureFock(cutoff) vs PureFock(cutoff + 6) on sectors < E
    if "shadow" in live and "purefock" in live and E > 0:
        a = np.asarray(live["purefock"].density_matrix)
        b = np.asarray(live["shadow"].density_matrix)
        ix = np.nonzero(mask)[0]
        dev = float(np.max(np.abs(a[np.ix_(ix, ix)] - b[np.ix_(ix, ix)])))
        ctx.count("selftest_compared")
        _note_dev(env, "selftest", dev)
        if not dev <= 1e-9:
            raise core.HarnessError(
                "HARNESS-SELFTEST exactness tracker over-claims: d=%d cutoff=%d root=%s history=%s action=%s %r: PureFock(cutoff) vs "
                "PureFock(cutoff+%d) differ by %.3e on sectors < E" % (env.d, env.cutoff, env.occ, [L.template_json(t) for t in history],
                                                                        L.template_json(action), ex, SHADOW_EXTRA, dev))

    # dense reference at depth 1
    if info["depth"] == 1 and _is_number_root(env.occ) and not info.get("prefix"):
        ref = _reference(env, action)
        if ref is None:
            ctx.count("ref_unconverged")
        else:
            conserving = action[0] in _number_conserving()
            for n in sorted(live):
                if n == "shadow":
                    continue
                restrict = None if (n in ("gaussian", "passive") or E >= env.cutoff) else mask
                if restrict is not None and not restrict.any():
                    continue
                tol = TOL if (conserving and n != "gaussian") else TOL_GF
                X = O(n)
                for key in ("fp", "pdp", "sv", "dm"):
                    if key not in X:
                        continue
                    rkey = "fp" if key == "pdp" else key
                    if ref.get(rkey) is None:
                        continue
                    a, b = X[key], ref[rkey]
                    if restrict is not None:
                        ix = np.nonzero(restrict)[0]
                        a, b = (a[np.ix_(ix, ix)], b[np.ix_(ix, ix)]) if key == "dm" else (a[restrict], b[restrict])
                    if key == "sv" and L.gate_kind(action[0]) == "active_linear":
                        k = int(np.argmax(np.abs(b)))
                        if abs(b[k]) > 1e-6 and abs(a[k]) > 1e-6:
                            b = b * ((a[k] / abs(a[k])) / (b[k] / abs(b[k])))
                    ratio, where, dev = L.max_dev(a, b, tol, tol)
                    compared = True
                    ctx.count("ref_compared")
                    _note_dev(env, "%s~reference" % n, dev if np.isfinite(dev) else 1e300)
                    if ratio > 1.0:
                        ok = False
                        sig = dict(sig0, sub="vs_reference", simulator=L._SIM_CLASS[n], observable=OBS_NAME[key])
                        msg = "%s differs from the dense Fock reference on %s by %.3e (tolerance %.0e) for %s%r %s from root %s; d=%d cutoff=%d hbar=%r %r; component %s" % (
                            L._SIM_CLASS[n], OBS_NAME[key], dev, tol, action[0], tuple(action[1]), json.dumps(L.template_json(action)[2]),
                            env.occ, env.d, env.cutoff, env.hbar, ex, where)
                        _emit(env, sig, history, action, msg, {"kind": "reference", "simulator": n, "observable": key, "deviation": dev})
                        break
    if compared:
        ctx.count("transitions_compared")
    if info["new"] and len(ctx.samples) < ctx.max_samples and len(history) >= 1 and len(live) >= 3:
        ctx.sample({
            "d": env.d, "cutoff": env.cutoff, "hbar": env.hbar, "root": _root_json(env.occ),
            "history": [L.template_json(t) for t in history] + [L.template_json(action)],
            "live_implementations": sorted(live), "exactness": repr(ex),
            "max_abs_deviation_so_far": {k: v for k, v in sorted(env.maxdev.items())},
        })
    return ok


def _number_conserving():
    from mc.refmodel import densefock as DF

    return DF.NUMBER_CONSERVING


_REF_CACHE = {}
_REF_TABLE = {}  # (cls, params key, local occupation, seed) -> dict(cmax, dm, sv, delta, index)


def _ref_table_entry(cls, pkey, local, seed, cmax):
    """reference state of a >= 3-mode active gate on the number state `local`, on the basis (k, cmax), from two
    truncations; `delta` is their largest difference (the entry is used only if delta <= REF_CONV_MULTI)"""
    import numpy as np
    from mc.refmodel import densefock as DF

    k = len(local)
    Ns = (cmax + 13, cmax + 16) if k == 3 else (cmax + 6, cmax + 8)
    B = DF.basis(k, cmax)
    out = []
    for N in Ns:
        ref = _ref_local(cls, pkey, tuple(local), N, seed)
        out.append((ref.density_matrix(B), ref.amplitudes(B)))
        _REF_CACHE.clear()
    delta = float(np.max(np.abs(out[0][0] - out[1][0])))
    return {"cmax": cmax, "dm": out[1][0], "sv": out[1][1], "delta": delta, "index": {tuple(b): i for i, b in enumerate(B)}}


def _needed_tables(cfg, seed):
    """keys (cls, params key, local occupation) of the >= 3-mode active actions at the first level of a configuration"""
    from mc import lockstep as L

    d, cutoff, hbar, occ, depth, level = cfg
    out = set()
    for cls, modes, params in L.alphabet("bosonic", d, level, seed):
        M = tuple(modes) if len(modes) else tuple(range(d))
        if len(M) >= 3 and cls not in _number_conserving():
            out.add((cls, json.dumps(sorted(params.items())), tuple(occ[m] for m in M)))
    return out


def _ref_local(cls, params_key, local_occ, N, seed):
    """the k-mode reference state after the gate on local modes (0..k-1), cached per worker"""
    from mc import lockstep as L
    from mc.refmodel import densefock as DF

    key = (cls, params_key, local_occ, N, seed)
    if key not in _REF_CACHE:
        if len(_REF_CACHE) > 4000:
            _REF_CACHE.clear()
        raw = dict(json.loads(params_key))
        params = L.resolve_params(raw, seed)
        k = len(local_occ)
        if cls == "GaussianTransform":
            # catalogue transforms are products S(U1) S(squeezers r) S(U2); a general symplectic matrix need not have
            # a Hamiltonian logarithm, so the reference applies the three documented factors in turn
            import numpy as np

            stem = raw["passive"][1:].rsplit(".", 1)[0]
            cat = L.catalogue(seed)
            U1, r, U2 = cat[stem + ".U1"], cat[stem + ".r"], cat[stem + ".U2"]
            assert np.allclose(params["passive"], U1 @ np.diag(np.cosh(r)) @ U2, atol=1e-13)
            assert np.allclose(params["active"], -U1 @ np.diag(np.sinh(r)) @ U2.conj(), atol=1e-13)
            params = {"factors": (U1, r, U2)}
        _REF_CACHE[key] = DF.DenseFock(k, N, local_occ).apply(cls, tuple(range(k)), params)
    return _REF_CACHE[key]


def _reference(env, action):
    """Observables of gate|root> on the full basis from the dense reference.  The root is a number state,
    so the modes the gate does not address stay in their number state: only the addressed modes (in the
    ORDER given by the template) are simulated, at per-mode truncation N."""
    from mc import core
    import numpy as np

    cls, modes, params = action
    M = tuple(modes) if len(modes) else tuple(range(env.d))
    k = len(M)
    local = tuple(env.occ[m] for m in M)
    rest = [m for m in range(env.d) if m not in M]
    pkey = json.dumps(sorted(params.items()))
    basis = env.basis
    sel = np.array([all(b[m] == env.occ[m] for m in rest) for b in basis], dtype=bool)
    local_basis = [tuple(int(b[m]) for m in M) for b in basis[sel]]
    if cls not in _number_conserving() and k >= 3:
        # >= 3-mode active gate: 5e3..3e4-dimensional expm_multiply, computed once per (gate, local occupation) in phase 0
        tkey = (cls, pkey, local, env.ctx.seed)
        tab = _REF_TABLE.get(tkey)
        if tab is None or tab["cmax"] < env.cutoff:
            if not env.replaying:
                env.ctx.count("ref_table_missing")
                return None
            tab = _REF_TABLE[tkey] = _ref_table_entry(cls, pkey, local, env.ctx.seed, env.cutoff)
        if not tab["delta"] <= REF_CONV_MULTI:
            return None
        pos = tab["index"]
        idx = [pos[lb] for lb in local_basis]
        res = [(tab["dm"][np.ix_(idx, idx)], tab["sv"][idx])]
    else:
        if cls in _number_conserving():
            Ns = (max(sum(local) + 1, env.cutoff),)  # exact: the gate conserves the photon number
        else:
            Ns = (env.cutoff + 12, env.cutoff + 18)
        res = []
        for N in Ns:  # every entry of a basis vector is < cutoff <= N
            ref = _ref_local(cls, pkey, local, N, env.ctx.seed)
            dm_local = ref.density_matrix(local_basis)
            sv_local = ref.amplitudes(local_basis) if ref.anc == 0 else None
            res.append((dm_local, sv_local))
        if len(res) == 2:
            dev = float(np.max(np.abs(res[0][0] - res[1][0]))) if res[0][0].size else 0.0
            if not dev <= REF_CONV:
                raise core.HarnessError("HARNESS-REFERENCE dense reference not converged (%.2e) for %s at N=%r" % (dev, cls, Ns))
    dm_local, sv_local = res[-1]
    n = len(basis)
    ix = np.nonzero(sel)[0]
    dm = np.zeros((n, n), complex)
    dm[np.ix_(ix, ix)] = dm_local
    out = {"dm": dm, "fp": np.real(np.diag(dm)).copy(), "sv": None}
    if sv_local is not None:
        sv = np.zeros(n, complex)
        sv[ix] = sv_local
        out["sv"] = sv
    return out


# ---------------------------------------------------------------------------------------
# replay of one recorded case


def _replay_case(ctx, case):
    from mc import lockstep as L

    cfg = (case["d"], case["cutoff"], case["hbar"], _root_from_json(case["root"]), len(case["history"]) + 1, "quick")
    seed = case.get("seed", ctx.seed)
    ctx.seed = seed
    sims, root, root_failures = _setup(cfg, seed)
    env = _Env(ctx, cfg, sims)
    env.replaying = True
    action = L.as_template(case["action"])
    history = [L.as_template(t) for t in case["history"]]
    if case.get("kind") == "crash" and case.get("simulator") in root_failures:
        _report_failure(env, (), action, case["simulator"], root_failures[case["simulator"]], stage="root-preparation")
        return
    node = root
    for t in history:
        children, _ = L.step_node(sims, node, t, seed, env.participates)
        live = {n: s for n, s in children.items() if not isinstance(s, L.Failure)}
        node = L.Node(live, node.history + (t,), node.exact.step(t), node.root_states, node.label)
    children, reexecuted = L.step_node(sims, node, action, seed, env.participates)
    info = {
        "depth": len(history) + 1, "action_index": -1, "exact_parent": node.exact, "exact_child": node.exact.step(action),
        "key": None, "new": False, "reexecuted": reexecuted, "label": node.label, "root_states": node.root_states,
    }
    _check_transition(env, tuple(history), node.states, action, children, info)


def replay(ctx, case, signature):
    _replay_case(ctx, case)
    # keep only the violations of the recorded signature (the case may trip several)
    same = [v for v in ctx.violations if all(v.signature.get(k) == val for k, val in signature.items() if val != "several")]
    if same:
        ctx.violations[:] = same
