"""C18 -- program construction is faithful: round trips, nesting, preparation algebra.

Bounded-exhaustive enumeration of program constructions against boring reference models:

(i)   Blackbird: every one-instruction program over the 15 exportable classes x every ordered mode
      tuple on d <= 3 x every combination of the float lattice; every program of depth 2 (3 in the
      thorough tier) over one template per (class, mode tuple) -> to_blackbird_code ->
      loads_blackbird: same types, modes, parameter values (<= 1 ulp).
(ii)  as_code: per simulator class a catalogue of valid programs (scalar lattice, matrix catalogue,
      measurements with a seeded Config) and every non-default Config field combination of size <= 2
      -> pq.as_code -> exec in a fresh namespace: same types, modes, params (bit-exact), same d, same
      simulator class, the configuration FIELD BY FIELD over the parameters of Config.__init__ (inspect.signature; not through
      Config.__eq__, which is itself under test) and then Config equality, and the generated code runs and reproduces the original
      result.  Every single non-default field alone, every pair, for every simulator class, in both tiers.
(ii') Config.__eq__ / Config.copy(): for every field f of the constructor signature and every non-default value v of the lattice
      Config() != Config(f=v), Config(f=v) == Config(f=v), Config(f=v) != Config(f=v'), every pair of fields distinguishes the
      configs it should, copy() equals the original field by field and by ==.
(iii) Program.from_dict of the documented dictionary format and Program.copy()/Instruction.copy().
(iv)  nesting: inner programs on <= 2 modes through every injective register into <= 4 outer modes,
      nesting depth <= 3, the inner program registered twice: modes = register o inner exactly once,
      inner program unchanged and reusable; a sample of nested programs is executed against the
      flattened program.
(v)   preparation algebra: every expression tree with <= 4 (5) leaves over + , scalar * (left/right)
      and / , executed on PureFockSimulator, against the dict arithmetic of mc/refmodel/prepref.py.
"""

import itertools
import math

LEVEL = "exploration"

BB_CLASSES = {
    # class: (number of modes, parameter names in constructor order)
    "Displacement": (1, ("r", "phi")),
    "PositionDisplacement": (1, ("x",)),
    "MomentumDisplacement": (1, ("p",)),
    "Squeezing": (1, ("r", "phi")),
    "QuadraticPhase": (1, ("s",)),
    "Kerr": (1, ("xi",)),
    "Phaseshifter": (1, ("phi",)),
    "Beamsplitter": (2, ("theta", "phi")),
    "MachZehnder": (2, ("int_", "ext")),
    "Squeezing2": (2, ("r", "phi")),
    "ControlledX": (2, ("s",)),
    "ControlledZ": (2, ("s",)),
    "CrossKerr": (2, ("xi",)),
    "CubicPhase": (1, ("gamma",)),
    "Fourier": (1, ()),
}

# the Blackbird / Strawberry Fields operation names (reference table written from the Blackbird
# specification, not read from piquasso): a consistent relabelling inside piquasso would survive the round
# trip but would not be a faithful Blackbird export
BB_NAMES = {
    "Displacement": "Dgate", "PositionDisplacement": "Xgate", "MomentumDisplacement": "Zgate", "Squeezing": "Sgate",
    "QuadraticPhase": "Pgate", "Kerr": "Kgate", "Phaseshifter": "Rgate", "Beamsplitter": "BSgate", "MachZehnder": "MZgate",
    "Squeezing2": "S2gate", "ControlledX": "CXgate", "ControlledZ": "CZgate", "CrossKerr": "CKgate", "CubicPhase": "Vgate",
    "Fourier": "Fouriergate",
}

LATTICE = [-0.5, 0.0, 1e-12, 1e12, 2.0, 3, {"np64": 0.1}, -0.0]
LATTICE_EXTRA = [1e22, 1.5e-07, 0.30000000000000004, 5e-324, 123456789.12345679, 3.141592653589793, {"np64": 0.7071067811865476}]


# --- serialisable parameter descriptors ---------------------------------------------------------------


def _stable(name):
    return sum((i + 1) * ord(ch) for i, ch in enumerate(name)) % 100003


def matrix(name, seed):
    """named, deterministic matrices (generic ones depend on VERIF_SEED only through the values)"""
    import numpy as np

    rng = np.random.default_rng([int(seed), _stable(name)])

    def unitary(n):
        z = rng.normal(size=(n, n)) + 1j * rng.normal(size=(n, n))
        q, r = np.linalg.qr(z)
        return q * (np.diag(r) / np.abs(np.diag(r)))

    def rot(a):
        return np.array([[math.cos(a), -math.sin(a)], [math.sin(a), math.cos(a)]])

    if name in ("U2g", "U3g", "U4g", "U32g"):
        return unitary(int(name[1:-1]))
    if name == "O2":
        return rot(rng.uniform(0.2, 1.3))
    if name == "I2":
        return np.eye(2)
    if name == "I2f32":
        return np.eye(2, dtype=np.float32)
    if name == "P2int":
        return np.array([[0, 1], [1, 0]])
    if name == "U2tiny":
        return rot(1e-12)
    if name == "U2big":  # entries of very different magnitude, still exactly representable in few digits
        return np.array([[1.0, 0.0], [0.0, -1.0]])
    if name == "H2":
        a = rng.normal(size=(2, 2))
        return (a + a.T) / 2
    if name == "zeros2":
        return np.zeros((2, 2))
    if name == "act2":  # active block making (passive, active) a valid Bogoliubov pair together with pas2
        r = 0.3
        return np.sinh(r) * np.eye(2)
    if name == "pas2":
        r = 0.3
        return np.cosh(r) * np.eye(2)
    if name == "mean4":
        return rng.normal(size=4)
    if name == "cov4":
        b = rng.normal(size=(4, 4)) * 0.5
        return 2.0 * np.eye(4) + b @ b.T
    if name == "X4":
        eta = 0.64
        z = np.zeros((2, 2))
        return math.sqrt(eta) * np.block([[rot(rng.uniform(0.1, 1.0)), z], [z, rot(rng.uniform(0.1, 1.0))]])
    if name == "Y4":
        c = rng.normal(size=(4, 4)) * 0.3
        return (1 - 0.64) * np.eye(4) + c @ c.T
    if name == "G2":
        g = 0.5 * np.exp(1j * rng.uniform(0.2, 1.2))
        return np.array([[1.0, g], [np.conj(g), 1.0]])
    if name == "gdm2":
        b = rng.normal(size=(2, 2)) * 0.4
        return np.eye(2) + b @ b.T
    if name == "T2":
        return rng.uniform(0.3, 0.95, size=2)
    if name == "L2":
        return 0.7 * unitary(2)
    if name == "thermal2":
        return rng.uniform(0.2, 1.8, size=2)
    raise KeyError(name)


def build(desc, seed):
    import numpy as np

    if isinstance(desc, dict):
        if "np64" in desc:
            return np.float64(desc["np64"])
        if "c" in desc:
            return complex(desc["c"][0], desc["c"][1])
        if "mat" in desc:
            return matrix(desc["mat"], seed)
        if "t" in desc:
            return tuple(build(v, seed) for v in desc["t"])
        if "map" in desc:
            return {tuple(k): build(v, seed) for k, v in desc["map"]}
        raise ValueError(desc)
    if isinstance(desc, list):
        return [build(v, seed) for v in desc]
    return desc


def T(cls, modes, **params):
    return {"cls": cls, "modes": list(modes), "params": params}


def instantiate(t, seed):
    import piquasso as pq

    cls = getattr(pq, t["cls"])
    ins = cls(**{k: build(v, seed) for k, v in t["params"].items()})
    if t["modes"]:
        ins.on_modes(*t["modes"])
    return ins


def make_program(templates, seed):
    import piquasso as pq

    return pq.Program(instructions=[instantiate(t, seed) for t in templates])


# --- comparison of parameters ---------------------------------------------------------------------------


def _isnum(v):
    import numpy as np

    return isinstance(v, (int, float, complex, np.number)) and not isinstance(v, (bool, np.bool_)) or isinstance(v, (bool, np.bool_))


def num_equal(a, b, ulps=0):
    """numeric value equality: bit-exact (sign of zero included) or within `ulps` units in the last place"""
    import numpy as np

    a_c, b_c = complex(a), complex(b)
    if isinstance(a, (complex, np.complexfloating)) or isinstance(b, (complex, np.complexfloating)):
        # repr(complex(0.0, -0.25)) is '-0.25j', which python itself reads back as (-0-0.25j): the sign of a
        # zero component of a complex number is not part of its value
        if a_c == b_c or (a_c != a_c and b_c != b_c):
            return True
    for x, y in ((a_c.real, b_c.real), (a_c.imag, b_c.imag)):
        if x != x or y != y:
            if not (x != x and y != y):
                return False
            continue
        if x == y:
            if x == 0 and math.copysign(1, x) != math.copysign(1, y):
                return False
            continue
        if ulps and abs(x - y) <= ulps * max(math.ulp(x), math.ulp(y)):
            continue
        return False
    return True


def param_diff(a, b, ulps=0):
    """None if equal in value, else a short reason"""
    import numpy as np

    if isinstance(a, np.ndarray) or isinstance(b, np.ndarray):
        if not (isinstance(a, np.ndarray) and isinstance(b, np.ndarray)):
            return "ndarray vs %s" % type(b).__name__
        if a.shape != b.shape:
            return "shape %s vs %s" % (a.shape, b.shape)
        if b.dtype == object:
            return "object dtype"
        if a.dtype.kind != b.dtype.kind:
            return "dtype kind %s vs %s" % (a.dtype.kind, b.dtype.kind)
        if not np.array_equal(a, b):
            return "max abs diff %.3g" % float(np.max(np.abs(a - b)))
        if a.dtype.kind in "fc" and not np.array_equal(np.signbit(a.real), np.signbit(b.real)):
            return "sign of zero"
        return None
    if isinstance(a, dict) or isinstance(b, dict):
        if not (isinstance(a, dict) and isinstance(b, dict)):
            return "dict vs %s" % type(b).__name__
        if [tuple(k) for k in a.keys()] != [tuple(k) for k in b.keys()]:
            return "dict keys"
        for k in a:
            d = param_diff(a[k], b[k], ulps)
            if d:
                return "value of %s: %s" % (k, d)
        return None
    if isinstance(a, (tuple, list)) or isinstance(b, (tuple, list)):
        if not (isinstance(a, (tuple, list)) and isinstance(b, (tuple, list))):
            return "sequence vs %s" % type(b).__name__
        if len(a) != len(b):
            return "length"
        for p, q in zip(a, b):
            d = param_diff(p, q, ulps)
            if d:
                return d
        return None
    if _isnum(a) and _isnum(b):
        return None if num_equal(a, b, ulps) else "%r vs %r" % (a, b)
    if type(a) is not type(b):
        return "type %s vs %s" % (type(a).__name__, type(b).__name__)
    return None if a == b else "%r vs %r" % (a, b)


def program_diff(P, Q, ulps=0):
    """None, or (kind, index, class, param, detail) of the first difference"""
    if len(P.instructions) != len(Q.instructions):
        return ("length", -1, "", "", "%d vs %d instructions" % (len(P.instructions), len(Q.instructions)))
    for i, (a, b) in enumerate(zip(P.instructions, Q.instructions)):
        if type(a) is not type(b):
            return ("type", i, type(a).__name__, "", "%s vs %s" % (type(a).__name__, type(b).__name__))
        if tuple(a.modes) != tuple(b.modes):
            return ("modes", i, type(a).__name__, "", "%s vs %s" % (tuple(a.modes), tuple(b.modes)))
        if list(a.params) != list(b.params):
            return ("param_names", i, type(a).__name__, "", "%s vs %s" % (list(a.params), list(b.params)))
        for k in a.params:
            d = param_diff(a.params[k], b.params[k], ulps)
            if d:
                return ("param", i, type(a).__name__, k, d)
    return None


def snapshot(P):
    import copy

    return [(type(i), tuple(i.modes), copy.deepcopy(i.params), id(i)) for i in P.instructions]


def snapshot_diff(snap, P):
    if len(snap) != len(P.instructions):
        return "length %d -> %d" % (len(snap), len(P.instructions))
    for (cls, modes, params, ident), ins in zip(snap, P.instructions):
        if type(ins) is not cls or id(ins) != ident:
            return "instruction object replaced"
        if tuple(ins.modes) != modes:
            return "modes %s -> %s" % (modes, tuple(ins.modes))
        if list(params) != list(ins.params):
            return "param names"
        for k in params:
            d = param_diff(params[k], ins.params[k])
            if d:
                return "param %s: %s" % (k, d)
    return None


# --- results ----------------------------------------------------------------------------------------------


def state_obs(state):
    import numpy as np

    out = []
    for attr in ("xpxp_mean_vector", "xpxp_covariance_matrix"):
        if hasattr(state, attr):
            out.append(np.asarray(getattr(state, attr)))
    if out:
        return out
    if type(state).__name__ == "PassiveState":
        return [np.asarray(state.interferometer), np.asarray(state.fock_probabilities)]
    if hasattr(state, "state_vector"):
        return [np.asarray(state.state_vector)]
    if hasattr(state, "density_matrix"):
        return [np.asarray(state.density_matrix)]
    return [np.asarray(state.fock_probabilities)]


def result_obs(result):
    import numpy as np

    out = []
    for br in result.branches:
        outcome = [float(v) for v in (br.outcome or ())]
        obs = state_obs(br.state) if br.state is not None else []
        out.append((outcome, float(br.frequency), obs))
    return out


def run_catch(fn):
    try:
        return ("ok", result_obs(fn()))
    except Exception as e:
        return ("exc", type(e).__name__)


def results_equal(a, b, tol):
    import numpy as np

    if a[0] != b[0]:
        return False
    if a[0] == "exc":
        return a[1] == b[1]
    if len(a[1]) != len(b[1]):
        return False
    for (o1, f1, s1), (o2, f2, s2) in zip(a[1], b[1]):
        if len(o1) != len(o2) or not np.allclose(o1, o2, rtol=tol, atol=tol, equal_nan=True):
            return False
        if abs(f1 - f2) > 1e-12 or len(s1) != len(s2):
            return False
        for x, y in zip(s1, s2):
            if x.shape != y.shape or not np.allclose(x, y, rtol=tol, atol=tol, equal_nan=True):
                return False
    return True


# =========================================================================================================
# (i) Blackbird
# =========================================================================================================


def _mode_tuples(nmodes, d):
    return list(itertools.permutations(range(d), nmodes))


def bb_depth1(tier):
    """every class x every ordered mode tuple on d = 3 x every lattice combination"""
    lat = LATTICE + (LATTICE_EXTRA if tier != "quick" else LATTICE_EXTRA[:3])
    out = []
    for cls, (nm, names) in BB_CLASSES.items():
        for modes in _mode_tuples(nm, 3):
            for vals in itertools.product(lat, repeat=len(names)):
                out.append([T(cls, modes, **dict(zip(names, vals)))])
    # defaults left to the constructor
    for modes in _mode_tuples(2, 3):
        out.append([T("Beamsplitter", modes)])
        out.append([T("Beamsplitter", modes, theta=0.3)])
    for modes in _mode_tuples(1, 3):
        out.append([T("Squeezing", modes, r=0.3)])
        out.append([T("Displacement", modes, r=0.3)])
    for modes in _mode_tuples(2, 3):
        out.append([T("Squeezing2", modes, r=0.3)])
    return out


def bb_templates(d):
    """one template per (class, ordered mode tuple); parameter values cycle through the lattice so that
    every lattice value and every (first, second) asymmetry occurs"""
    out = []
    k = 0
    for cls, (nm, names) in BB_CLASSES.items():
        for modes in _mode_tuples(nm, d):
            vals = []
            for _ in names:
                vals.append(LATTICE[k % len(LATTICE)])
                k += 3
            out.append(T(cls, modes, **dict(zip(names, vals))))
    return out


def bb_programs(kind, tier):
    if kind == "bb1":
        return bb_depth1(tier)
    if kind == "bb2":
        ts = bb_templates(3)
        return [[a, b] for a in ts for b in ts]
    if kind == "bb3":
        ts = bb_templates(2)
        return [[a, b, c] for a in ts for b in ts for c in ts]
    raise ValueError(kind)


def bb_case(ctx, templates, seed, report=True):
    import piquasso as pq

    P = make_program(templates, seed)
    try:
        text = P.to_blackbird_code()
        Q = pq.Program()
        Q.loads_blackbird(text)
    except Exception as e:
        if report:
            ctx.violation(
                {"check": "C18", "sub": "blackbird", "defect": "raises", "exc": type(e).__name__, "cls": templates[-1]["cls"]},
                {"kind": "bb", "templates": templates},
                "Blackbird round trip of %s raised %s: %s" % ([t["cls"] for t in templates], type(e).__name__, e),
            )
        return "raises"
    d = program_diff(P, Q, ulps=1)
    if d is None:
        ops = [ln.split("(")[0].strip() for ln in text.splitlines() if "|" in ln]
        exp = [BB_NAMES[t["cls"]] for t in templates]
        if ops != exp:
            if report:
                ctx.violation(
                    {"check": "C18", "sub": "blackbird", "defect": "operation_name", "cls": templates[[a == b for a, b in zip(ops + [None] * len(exp), exp)].index(False)]["cls"]},
                    {"kind": "bb", "templates": templates},
                    "Blackbird text names the operations %s, the Blackbird names of %s are %s\n%s" % (ops, [t["cls"] for t in templates], exp, text),
                )
            return "operation_name"
        return None
    if report:
        ctx.violation(
            {"check": "C18", "sub": "blackbird", "defect": d[0], "cls": d[2], "param": d[3]},
            {"kind": "bb", "templates": templates},
            "Blackbird round trip: instruction %d (%s) %s %s: %s\n%s" % (d[1], d[2], d[0], d[3], d[4], text),
        )
    return d[0]


def _w_bb(ctx, item):
    kind, chunk, n = item
    progs = bb_programs(kind, ctx.tier)
    cnt = 0
    for i, templates in enumerate(progs):
        if i % n != chunk:
            continue
        cnt += 1
        r = bb_case(ctx, templates, ctx.seed, report=False)
        if r is not None:
            if bb_case(ctx, templates, ctx.seed, report=True) != r:
                from mc import core

                raise core.HarnessError("HARNESS-NONDETERMINISM C18 blackbird %r" % (templates,))
        if kind == "bb1":
            ctx.note_distinct(("bb1", templates[0]["cls"], tuple(templates[0]["modes"]), repr(sorted(templates[0]["params"].items()))))
        elif cnt % 17 == 0:
            ctx.note_distinct((kind, tuple(t["cls"] for t in templates), tuple(tuple(t["modes"]) for t in templates)))
    ctx.count("evaluations", cnt)
    ctx.count("blackbird_programs", cnt)
    ctx.count("max_blackbird_depth", {"bb1": 1, "bb2": 2, "bb3": 3}[kind])
    if progs and chunk == 0:
        ctx.sample({"kind": kind, "example": progs[len(progs) // 2]})


# =========================================================================================================
# (ii) as_code   (iii) from_dict / copy
# =========================================================================================================

SIMS = ["GaussianSimulator", "PureFockSimulator", "FockSimulator", "PassiveSimulator", "SamplingSimulator"]

CONFIG_FIELDS = {
    "cutoff": 5,
    "dtype": "float32",
    "measurement_cutoff": 3,
    "hbar": 1.0,
    "seed_sequence": 7,
    "use_torontonian": True,
    "cache_size": 64,
    "validate": False,
    "use_dask": True,
    "max_sample_generation_trials": 10,
}
# second non-default values (the oracle on Config.__eq__ also compares two different non-default values of one field)
CONFIG_FIELDS_2 = {"cutoff": 7, "measurement_cutoff": 6, "hbar": {"np64": 0.5}, "seed_sequence": 123, "cache_size": 0, "max_sample_generation_trials": 999}
CONFIG_ALT = [
    {"cutoff": 4}, {"hbar": {"np64": 0.5}}, {"hbar": 3}, {"seed_sequence": 0}, {"dtype": "float64"},
    {"hbar": 0.30000000000000004}, {"hbar": 2.0000000000000004, "cutoff": 6}, {"cache_size": 0}, {"seed_sequence": 123456789012345678901234567890}, {"hbar": 1e-3}, {"measurement_cutoff": 1},
]


def config_signature():
    """{field: default} of the keyword parameters of Config.__init__ (the authority on what a configuration consists of)"""
    import inspect
    import piquasso as pq

    sig = inspect.signature(pq.Config.__init__)
    return {n: p.default for n, p in sig.parameters.items() if n != "self" and p.kind in (p.KEYWORD_ONLY, p.POSITIONAL_OR_KEYWORD)}


def config_nondefaults():
    """{field: [non-default value descriptors]} for EVERY field of the constructor signature: the harness lattice where it names the field, a
    value derived from the type of the default for a field the lattice does not know (so that a field added to Config is enumerated, too)"""
    from mc import core

    out = {}
    for f, default in config_signature().items():
        if f in CONFIG_FIELDS:
            out[f] = [CONFIG_FIELDS[f]] + ([CONFIG_FIELDS_2[f]] if f in CONFIG_FIELDS_2 else [])
        elif isinstance(default, bool):
            out[f] = [not default]
        elif isinstance(default, int):
            out[f] = [default + 3, default + 5]
        elif isinstance(default, float):
            out[f] = [default / 2, default * 1.5]
        else:
            raise core.HarnessError("C18: Config.__init__ has a parameter %r (default %r) for which the harness has no non-default value" % (f, default))
    missing = [f for f in CONFIG_FIELDS if f not in out]
    if missing:
        raise core.HarnessError("C18: the harness lattice names Config fields %r that Config.__init__ does not accept" % (missing,))
    return out


def _value_same(a, b):
    if a is b:
        return True
    if _isnum(a) and _isnum(b):
        return num_equal(a, b)
    try:
        return type(a) is type(b) and bool(a == b)
    except Exception:
        return False


def config_field_diff(A, B, kwargs=None, copied=False):
    """first field of the constructor signature whose public attribute differs between the configs A and B -> (field, a, b) or None.
    seed_sequence: an unspecified (None / 0) seed is replaced by fresh entropy in every Config object, so the public attribute is only compared when
    a seed was specified (or for copy(), which must keep it); otherwise the recorded constructor argument is compared."""
    for f in config_signature():
        if f == "seed_sequence" and not copied and not (kwargs or {}).get(f):
            a, b = getattr(A, "_original_seed_sequence", None), getattr(B, "_original_seed_sequence", None)
        else:
            a, b = getattr(A, f), getattr(B, f)
        if not _value_same(a, b):
            return (f, a, b)
    return None


def make_config(kwargs, seed):
    import numpy as np
    import piquasso as pq

    kw = {}
    for k, v in kwargs.items():
        if k == "dtype":
            kw[k] = getattr(np, v)
        else:
            kw[k] = build(v, seed)
    return pq.Config(**kw)


def make_sim(spec, seed):
    import piquasso as pq

    cls = getattr(pq, spec["sim"])
    kw = {}
    if spec.get("d") is not None:
        kw["d"] = spec["d"]
    if spec.get("config") is not None:
        kw["config"] = make_config(spec["config"], seed)
    return cls(**kw)


def _lat2(names, lat):
    return [dict(zip(names, vals)) for vals in itertools.product(lat, repeat=len(names))]


def code_catalogue(tier):
    """valid (simulator, program) specs: [{"sim","d","config","instr","shots","tag"}]"""
    lat = LATTICE
    out = []

    def add(sim, d, instr, config=None, shots=1, tag=""):
        out.append({"sim": sim, "d": d, "config": config, "instr": instr, "shots": shots, "tag": tag})

    seeded = {"seed_sequence": 11}
    # --- Gaussian -----------------------------------------------------------------------------------
    G = "GaussianSimulator"
    vac = T("Vacuum", ())
    pre = [vac, T("Squeezing", (0,), r=0.2, phi=0.4), T("Displacement", (1,), r=0.3, phi=-0.7)]
    one = {"PositionDisplacement": ("x",), "MomentumDisplacement": ("p",), "Phaseshifter": ("phi",), "QuadraticPhase": ("s",)}
    for cls, names in one.items():
        for kw in _lat2(names, lat):
            add(G, 2, pre + [T(cls, (1,), **kw)], tag="lattice")
    two1 = {"Squeezing": ("r", "phi"), "Displacement": ("r", "phi")}
    for cls, names in two1.items():
        for kw in _lat2(names, lat):
            add(G, 2, pre + [T(cls, (0,), **kw)], tag="lattice")
    two2 = {"Beamsplitter": ("theta", "phi"), "Squeezing2": ("r", "phi"), "MachZehnder": ("int_", "ext"), "Attenuator": ("theta", "mean_thermal_excitation")}
    for cls, names in two2.items():
        for kw in _lat2(names, lat):
            modes = (1, 0) if cls != "Attenuator" else (1,)
            add(G, 2, pre + [T(cls, modes, **kw)], tag="lattice")
    for cls in ("ControlledX", "ControlledZ"):
        for kw in _lat2(("s",), lat):
            add(G, 2, pre + [T(cls, (1, 0), **kw)], tag="lattice")
    # values that need all 17 significant digits (a '%g'-style or rounded emission is visible here)
    for v in LATTICE_EXTRA:
        add(G, 2, pre + [T("Phaseshifter", (1,), phi=v), T("Squeezing", (0,), r=0.1, phi=v)], tag="digits")
        add("PassiveSimulator", 2, [T("NumberState", (), occupation_numbers=[1, 1]), T("Beamsplitter", (0, 1), theta=v, phi=0.81)], tag="digits")
        add("PureFockSimulator", 2, [T("NumberState", (), occupation_numbers=[1, 1], coefficient=v), T("Kerr", (0,), xi=v)], config={"validate": False}, tag="digits")
        add("FockSimulator", 2, [T("DensityMatrix", (), ket=[1, 1], bra=[1, 1], coefficient=v), T("Kerr", (1,), xi=v)], config={"validate": False}, tag="digits")
    add(G, 2, pre + [T("Fourier", (0,)), T("Beamsplitter5050", (0, 1))], tag="noparam")
    for m in ("U2g", "O2", "I2", "P2int", "U2tiny", "U2big"):
        add(G, 2, pre + [T("Interferometer", (0, 1), matrix={"mat": m})], tag="matrix")
        add(G, 3, pre + [T("Interferometer", (2, 0), matrix={"mat": m})], tag="matrix")
    add(G, 3, pre + [T("Interferometer", (2, 0, 1), matrix={"mat": "U3g"})], tag="matrix")
    add(G, 2, pre + [T("GaussianTransform", (0, 1), passive={"mat": "pas2"}, active={"mat": "act2"})], tag="matrix")
    add(G, 2, pre + [T("GaussianTransform", (1, 0), passive={"mat": "U2g"}, active={"mat": "zeros2"})], tag="matrix")
    add(G, 2, [vac, T("Graph", (0, 1), adjacency_matrix={"mat": "H2"})], tag="matrix")
    add(G, 2, [vac, T("Graph", (0, 1), adjacency_matrix={"mat": "H2"}, mean_photon_number=0.5)], tag="matrix")
    add(G, 2, [vac, T("Mean", (), mean={"mat": "mean4"}), T("Covariance", (), cov={"mat": "cov4"}), T("Beamsplitter", (0, 1), theta=0.3, phi=0.2)], tag="matrix")
    add(G, 2, [vac, T("Thermal", (0, 1), mean_photon_numbers=[0.5, 1.5])], tag="list")
    add(G, 2, [vac, T("Thermal", (0, 1), mean_photon_numbers={"mat": "thermal2"})], tag="matrix")
    add(G, 2, pre + [T("DeterministicGaussianChannel", (0, 1), X={"mat": "X4"}, Y={"mat": "Y4"})], tag="matrix")
    add(G, 2, pre + [T("HomodyneMeasurement", (0,), phi=0.3)], config=seeded, shots=3, tag="measure")
    add(G, 2, pre + [T("HomodyneMeasurement", (0,), phi={"np64": 0.1}, z=1e-12)], config=seeded, shots=3, tag="measure")
    add(G, 2, pre + [T("HeterodyneMeasurement", (1,))], config=seeded, shots=3, tag="measure")
    add(G, 2, pre + [T("GeneraldyneMeasurement", (0,), detection_covariance={"mat": "gdm2"})], config=seeded, shots=3, tag="matrix")
    add(G, 2, pre + [T("ParticleNumberMeasurement", ())], config=seeded, shots=4, tag="measure")
    add(G, 2, pre + [T("ThresholdMeasurement", ())], config=seeded, shots=4, tag="measure")
    add(G, 32, [vac, T("Squeezing", (0,), r=0.2, phi=0.4), T("Interferometer", tuple(range(32)), matrix={"mat": "U32g"})], tag="bigmatrix")
    # --- PureFock -----------------------------------------------------------------------------------
    PF = "PureFockSimulator"
    pf_pre = [T("FockStateVector", (), fock_amplitude_map={"map": [[[1, 0], 0.6], [[0, 1], {"c": [0.0, 0.8]}]]})]
    for cls, names, modes in (("Kerr", ("xi",), (0,)), ("CrossKerr", ("xi",), (0, 1)), ("Phaseshifter", ("phi",), (1,)), ("CubicPhase", ("gamma",), (0,))):
        for kw in _lat2(names, lat[::3] if tier == "quick" and cls in ("Phaseshifter", "CubicPhase") else lat):
            add(PF, 2, pf_pre + [T(cls, modes, **kw)], tag="lattice")
    # passive gates cost ~0.2 s per run on the Fock simulators: a cross through the lattice instead of the square
    for v in (lat[::3] if tier == "quick" else lat):
        add(PF, 2, pf_pre + [T("Beamsplitter", (1, 0), theta=v, phi=0.81)], tag="lattice")
        add(PF, 2, pf_pre + [T("Beamsplitter", (1, 0), theta=0.37, phi=v)], tag="lattice")
    add(PF, 2, [T("NumberState", (), occupation_numbers=[1, 1]), T("Interferometer", (0, 1), matrix={"mat": "U2g"})], tag="matrix")
    add(PF, 2, [T("NumberState", (0, 1), occupation_numbers=[2, 0], coefficient={"c": [0.6, 0.8]}), T("Interferometer", (1, 0), matrix={"mat": "O2"})], tag="matrix")
    add(PF, 2, [T("NumberState", (), occupation_numbers=[1, 1], coefficient={"np64": 1.0}), T("Squeezing", (0,), r=0.1, phi=0.3)], tag="npscalar")
    add(PF, 2, [T("StateVector", (), occupation_numbers=[0, 1]), T("Beamsplitter", (0, 1), theta=0.3, phi=0.2)], tag="deprecated")
    add(PF, 2, [T("Vacuum", ()), T("Create", (0,)), T("Create", (1,)), T("Beamsplitter", (0, 1), theta=0.3, phi=0.2), T("Annihilate", (1,))], tag="noparam")
    add(PF, 2, pf_pre + [T("Displacement", (0,), r=0.2, phi=0.1), T("GaussianTransform", (0, 1), passive={"mat": "pas2"}, active={"mat": "act2"})], tag="matrix")
    add(PF, 2, [T("NumberState", (), occupation_numbers=[1, 1]), T("Beamsplitter", (0, 1), theta=0.3, phi=0.2), T("ParticleNumberMeasurement", (0,))], config=seeded, shots=4, tag="measure")
    add(PF, 2, [T("NumberState", (), occupation_numbers=[1, 1]), T("Beamsplitter", (0, 1), theta=0.3, phi=0.2), T("PostSelectPhotons", (1,), photon_counts={"t": [1]})], tag="tuple")
    add(PF, 3, [T("FockStateVector", (), fock_amplitude_map={"map": [[[1, 0, 1], {"np64": 0.6}], [[0, 1, 1], {"c": [0.0, -0.8]}]]}, coefficient=-1.0), T("Interferometer", (2, 0, 1), matrix={"mat": "U3g"})], tag="matrix")
    # --- Fock ---------------------------------------------------------------------------------------
    F = "FockSimulator"
    f_pre = [
        T("DensityMatrix", (), ket=[1, 0], bra=[1, 0], coefficient=0.5),
        T("DensityMatrix", (), ket=[0, 1], bra=[0, 1], coefficient=0.5),
        T("DensityMatrix", (), ket=[1, 0], bra=[0, 1], coefficient={"c": [0.0, 0.25]}),
        T("DensityMatrix", (), ket=[0, 1], bra=[1, 0], coefficient={"c": [0.0, -0.25]}),
    ]
    for kw in _lat2(("xi",), lat):
        add(F, 2, f_pre + [T("Kerr", (1,), **kw)], tag="lattice")
    for kw in _lat2(("phi",), lat[::3]):
        add(F, 2, f_pre + [T("Phaseshifter", (0,), **kw)], tag="lattice")
    add(F, 2, f_pre + [T("Interferometer", (0, 1), matrix={"mat": "U2g"})], tag="matrix")
    add(F, 2, f_pre + [T("Beamsplitter", (1, 0), theta=0.3, phi={"np64": 0.1}), T("ParticleNumberMeasurement", ())], config=seeded, shots=4, tag="measure")
    # --- Passive / Sampling -------------------------------------------------------------------------
    for S in ("PassiveSimulator", "SamplingSimulator"):
        ns = T("NumberState", (), occupation_numbers=[1, 1])
        for kw in _lat2(("theta", "phi"), lat if S == "PassiveSimulator" else lat[:3]):
            add(S, 2, [ns, T("Beamsplitter", (0, 1), **kw)], tag="lattice")
        for m in ("U2g", "O2", "P2int", "I2f32"):
            add(S, 2, [ns, T("Interferometer", (0, 1), matrix={"mat": m})], tag="matrix")
        add(S, 3, [T("NumberState", (), occupation_numbers=[1, 0, 1]), T("Interferometer", (2, 0, 1), matrix={"mat": "U3g"}), T("Phaseshifter", (1,), phi=0.4)], tag="matrix")
        add(S, 2, [ns, T("Interferometer", (0, 1), matrix={"mat": "U2g"}), T("Loss", (0,), transmissivity=0.9), T("Loss", (1,), transmissivity={"np64": 0.4})], tag="matrix")
        add(S, 2, [ns, T("LossyInterferometer", (0, 1), matrix={"mat": "L2"})], tag="matrix")
        add(S, 2, [ns, T("UniformLoss", (), transmissivity=0.5), T("Beamsplitter", (0, 1), theta=0.3, phi=0.2)], tag="lattice")
        add(S, 2, [T("DistinguishableNumberState", (), occupation_numbers=[1, 1], particle_overlap=0.5), T("Beamsplitter5050", (0, 1))], tag="noparam")
        add(S, 2, [T("DistinguishableNumberState", (), occupation_numbers=[1, 1], particle_overlap={"mat": "G2"}), T("Interferometer", (0, 1), matrix={"mat": "U2g"})], tag="matrix")
        add(S, 2, [ns, T("Interferometer", (0, 1), matrix={"mat": "U2g"}), T("ParticleNumberMeasurement", ())], config=seeded, shots=5, tag="measure")
        add(S, 32, [T("NumberState", (), occupation_numbers=[1] + [0] * 31), T("Interferometer", tuple(range(32)), matrix={"mat": "U32g"})], tag="bigmatrix")
    return out


def config_catalogue(tier):
    """every non-default Config field combination of size <= 2 x every simulator class x 2 programs"""
    base = {
        "GaussianSimulator": [
            [T("Vacuum", ()), T("Squeezing", (0,), r=0.2, phi=0.4), T("Beamsplitter", (0, 1), theta=0.3, phi=0.2)],
            [T("Vacuum", ()), T("Squeezing", (0,), r=0.2, phi=0.4), T("Beamsplitter", (0, 1), theta=0.3, phi=0.2), T("ParticleNumberMeasurement", ())],
        ],
        "PureFockSimulator": [
            [T("NumberState", (), occupation_numbers=[1, 1]), T("Kerr", (0,), xi=0.1), T("CrossKerr", (0, 1), xi=0.2)],
            [T("NumberState", (), occupation_numbers=[1, 1]), T("Kerr", (1,), xi=0.3), T("ParticleNumberMeasurement", (0,))],
        ],
        "FockSimulator": [
            [T("DensityMatrix", (), ket=[1, 1], bra=[1, 1]), T("Kerr", (0,), xi=0.1), T("CrossKerr", (0, 1), xi=0.2)],
            [T("DensityMatrix", (), ket=[1, 1], bra=[1, 1]), T("Kerr", (1,), xi=0.3), T("ParticleNumberMeasurement", ())],
        ],
        "PassiveSimulator": [
            [T("NumberState", (), occupation_numbers=[1, 1]), T("Beamsplitter", (0, 1), theta=0.3, phi=0.2)],
            [T("NumberState", (), occupation_numbers=[1, 1]), T("Beamsplitter", (0, 1), theta=0.3, phi=0.2), T("ParticleNumberMeasurement", ())],
        ],
    }
    base["SamplingSimulator"] = base["PassiveSimulator"]
    nd = config_nondefaults()  # every field of inspect.signature(Config.__init__), in both tiers
    fields = list(nd)
    combos = [{}]
    for f in fields:
        for v in nd[f]:
            combos.append({f: v})
    for f, g in itertools.combinations(fields, 2):
        combos.append({f: nd[f][0], g: nd[g][0]})
    combos += [c for c in CONFIG_ALT if c not in combos]
    out = []
    for sim in SIMS:
        for cfg in combos:
            for j, instr in enumerate(base[sim]):
                out.append({"sim": sim, "d": 2, "config": cfg or None, "instr": instr, "shots": 3 if j else 1, "tag": "config"})
        # d omitted (inferred from the program)
        out.append({"sim": sim, "d": None, "config": None, "instr": base[sim][0], "shots": 1, "tag": "no_d"})
        out.append({"sim": sim, "d": None, "config": {"hbar": 1.0}, "instr": base[sim][0], "shots": 1, "tag": "no_d"})
    return out


def _has_measurement(spec):
    return any("Measurement" in t["cls"] for t in spec["instr"])


def _ndarray_params(P):
    import numpy as np

    out = []
    for ins in P.instructions:
        for k, v in ins.params.items():
            if isinstance(v, np.ndarray):
                out.append((type(ins).__name__, k, v))
    return out


def code_case(ctx, spec, seed, report=True):
    """as_code -> exec round trip of one (simulator, program) spec; returns a verdict string or None"""
    import numpy as np
    import piquasso as pq

    case = {"kind": "code", "spec": spec}

    def viol(defect, msg, **extra):
        if report:
            sig = {"check": "C18", "sub": "as_code", "defect": defect}
            sig.update(extra)
            ctx.violation(sig, case, msg)
        return defect

    P = make_program(spec["instr"], seed)
    S = make_sim(spec, seed)
    shots = spec["shots"]
    try:
        code = pq.as_code(P, S, shots)
    except Exception as e:
        return viol("as_code_raises", "pq.as_code raised %s: %s" % (type(e).__name__, e), exc=type(e).__name__)
    marker = "result = simulator.execute("
    if code.count(marker) != 1:
        return viol("no_execute_line", "generated code has no single execute line:\n%s" % code[:500])
    head, tail = code[: code.index(marker)], code[code.index(marker):]
    big = [(c, k) for c, k, v in _ndarray_params(P) if v.size > 1000]
    ns = {}
    try:
        exec(compile(head, "<as_code>", "exec"), ns)
        P2, S2 = ns["program"], ns["simulator"]
    except Exception as e:
        odd = [(c, k, v.dtype.name) for c, k, v in _ndarray_params(P) if v.dtype.name not in ("float64", "complex128", "int64", "bool")]
        if odd and isinstance(e, NameError) and ("dtype=" + odd[0][2]) in head:
            return viol("ndarray_dtype_name", "%s.%s: ndarray of dtype %s is printed as 'dtype=%s' (bare name) and the generated code raises NameError" % (odd[0][0], odd[0][1], odd[0][2], odd[0][2]), param_type="ndarray")
        if big and "..." in head:
            return viol("ndarray_elided", "generated code contains '...' for %s.%s (ndarray with > 1000 elements) and raises %s" % (big[0][0], big[0][1], type(e).__name__), param_type="ndarray")
        return viol("generated_code_raises", "generated program/simulator code raises %s: %s\n%s" % (type(e).__name__, e, head[:600]), exc=type(e).__name__, sim=spec["sim"])
    d = program_diff(P, P2)
    if d is not None:
        a = P.instructions[d[1]].params.get(d[3]) if d[0] == "param" else None
        if isinstance(a, np.ndarray):
            b = P2.instructions[d[1]].params.get(d[3])
            if a.size > 1000 and "..." in head:
                return viol("ndarray_elided", "%s.%s: ndarray with %d elements is printed with '...' (%s)" % (d[2], d[3], a.size, d[4]), param_type="ndarray")
            if isinstance(b, np.ndarray) and b.shape == a.shape and b.dtype != object and np.allclose(a, b, rtol=1e-6, atol=1e-7):
                return viol("ndarray_precision", "%s.%s: ndarray parameter is regenerated with %s (repr(ndarray) prints 8 significant digits)" % (d[2], d[3], d[4]), param_type="ndarray")
        return viol("program_" + d[0], "instruction %d (%s) %s %s: %s\n%s" % (d[1], d[2], d[0], d[3], d[4], head[:600]), cls=d[2], param=d[3])
    if type(S2) is not type(S):
        return viol("simulator_class", "%s regenerated as %s" % (type(S).__name__, type(S2).__name__), sim=spec["sim"])
    if S2.d != S.d:
        return viol("simulator_d", "d %r regenerated as %r" % (S.d, S2.d), sim=spec["sim"])
    fd = config_field_diff(S.config, S2.config, spec["config"])
    if fd is not None:
        return viol("config_field_lost", "Config(%s): the regenerated simulator has config.%s = %r instead of %r (simulator code: %s)" % (
            spec["config"], fd[0], fd[2], fd[1], " ".join(head[head.index("simulator ="):].split())[:200]), field=fd[0])
    if not (S2.config == S.config) or (S2.config != S.config):
        return viol("config", "Config(%s) regenerated as %r, equal field by field but not by ==" % (spec["config"], S2.config), fields=",".join(sorted((spec["config"] or {}).keys())))
    # the generated code runs and reproduces the original result
    S_run = make_sim(spec, seed)
    P_run = make_program(spec["instr"], seed)
    r1 = run_catch(lambda: S_run.execute(P_run, shots))

    def run2():
        exec(compile(tail, "<as_code>", "exec"), ns)
        return ns["result"]

    r2 = run_catch(run2)
    ctx.count("code_runs")
    if r1[0] == "exc":
        ctx.count("code_original_raises")
        ctx.note_distinct(("code_original_raises", spec["sim"], r1[1], spec["instr"][-1]["cls"]))
    cfg = spec["config"] or {}
    seeded = cfg.get("seed_sequence") not in (None, 0)
    if _has_measurement(spec) and not seeded:
        # unseeded sampling is not reproducible by design: only success/failure is compared
        if r1[0] != r2[0] or (r1[0] == "exc" and r1[1] != r2[1]):
            return viol("result", "original %s, generated code %s" % (r1[:2] if r1[0] == "exc" else "ok", r2[:2] if r2[0] == "exc" else "ok"), sim=spec["sim"])
        return None
    tol = 1e-5 if cfg.get("dtype") == "float32" else 1e-12
    if not results_equal(r1, r2, tol):
        return viol("result", "the generated code does not reproduce the original result (%s vs %s)" % (r1[0] if r1[0] == "ok" else r1, r2[0] if r2[0] == "ok" else r2), sim=spec["sim"])
    return None


def _w_code(ctx, item):
    from mc import core

    kind, chunk, n = item
    specs = code_catalogue(ctx.tier) if kind == "code" else config_catalogue(ctx.tier)
    cnt = 0
    for i, spec in enumerate(specs):
        if i % n != chunk:
            continue
        cnt += 1
        r = code_case(ctx, spec, ctx.seed, report=False)
        if r is not None:
            if code_case(ctx, spec, ctx.seed, report=True) != r:
                raise core.HarnessError("HARNESS-NONDETERMINISM C18 as_code %r" % (spec,))
        ctx.note_distinct((kind, spec["sim"], spec["d"], repr(spec["config"]), repr(spec["instr"][-1]), spec["shots"]))
        if cnt == 1:
            ctx.sample({"kind": kind, "sim": spec["sim"], "config": spec["config"], "program": [t["cls"] for t in spec["instr"]]})
    ctx.count("evaluations", cnt)
    ctx.count("as_code_programs" if kind == "code" else "as_code_config_cases", cnt)


_w_cfg = _w_code


# --- (ii') Config.__eq__ / Config.copy() --------------------------------------------------------------------


def config_eq_cases():
    nd = config_nondefaults()
    out = []
    for f, vals in nd.items():
        for v in vals:
            out.append({"op": "single", "field": f, "value": v})
        if len(vals) >= 2:
            out.append({"op": "two_values", "field": f, "value": vals[0], "value2": vals[1]})
    for f, g in itertools.permutations(nd, 2):
        out.append({"op": "pair", "field": g, "value": nd[g][0], "other": f, "other_value": nd[f][0]})
    out.append({"op": "default", "field": "-"})
    return out


def config_eq_case(ctx, case, seed, report=True):
    """direct oracle on Config.__eq__ / __ne__ / copy(); `field` is the field in which the two compared configs differ"""
    import piquasso as pq

    f = case["field"]

    def viol(defect, msg):
        if report:
            ctx.violation({"check": "C18", "sub": "config_eq", "defect": defect, "field": f}, {"kind": "cfgeq", "case": case}, msg)
        return defect

    def differ(A, B, what):
        if (A == B) or (B == A) or not (A != B) or not (B != A):
            return viol("unequal_configs_compare_equal", "%s differ in the field %s (%r vs %r) but compare equal (==: %s/%s, !=: %s/%s)" % (
                what, f, getattr(A, f), getattr(B, f), A == B, B == A, A != B, B != A))
        return None

    def same(A, B, what):
        if not (A == B) or not (B == A) or (A != B):
            return viol("equal_configs_compare_unequal", "%s compare unequal" % what)
        return None

    def copy_ok(A, what):
        C = A.copy()
        fd = config_field_diff(A, C, copied=True)
        if C is A or type(C) is not type(A):
            return viol("copy_differs", "%s.copy() returns %s" % (what, "the same object" if C is A else type(C).__name__))
        if fd is not None:
            nonlocal f
            f = fd[0]
            return viol("copy_differs", "%s.copy() has %s = %r instead of %r" % (what, fd[0], fd[2], fd[1]))
        return same(A, C, "%s and its copy()" % what)

    op = case["op"]
    if op == "default":
        D = pq.Config()
        return same(D, D, "Config() and itself") or copy_ok(D, "Config()") or (viol("equal_configs_compare_unequal", "Config() == 0 is not False") if (D == 0) is not False else None)
    kw = {f: case["value"]}
    A, B = make_config(kw, seed), make_config(kw, seed)
    text = "Config(%s=%r)" % (f, getattr(A, f))
    if not _value_same(getattr(A, f), getattr(B, f)) or _value_same(getattr(A, f), getattr(pq.Config(seed_sequence=1), f)):
        from mc import core

        raise core.HarnessError("C18 config_eq: the lattice value %r of Config.%s is not a non-default value" % (case["value"], f))
    if op == "single":
        return differ(pq.Config(), A, "Config() and %s" % text) or same(A, B, "%s and %s" % (text, text)) or same(A, A, "%s and itself" % text) or copy_ok(A, text)
    if op == "two_values":
        A2 = make_config({f: case["value2"]}, seed)
        return differ(A, A2, "%s and Config(%s=%r)" % (text, f, getattr(A2, f)))
    if op == "pair":
        g = case["other"]
        O = make_config({g: case["other_value"]}, seed)
        AO, AO2 = make_config({g: case["other_value"], f: case["value"]}, seed), make_config({f: case["value"], g: case["other_value"]}, seed)
        return (differ(O, AO, "Config(%s=..) and Config(%s=.., %s=..)" % (g, g, f)) or same(AO, AO2, "Config(%s=.., %s=..) and Config(%s=.., %s=..)" % (g, f, f, g))
                or copy_ok(AO, "Config(%s=.., %s=..)" % (g, f)))
    raise ValueError(op)


def _w_cfgeq(ctx, item):
    from mc import core

    cnt = 0
    for case in config_eq_cases():
        cnt += 1
        r = config_eq_case(ctx, case, ctx.seed, report=False)
        if r is not None and config_eq_case(ctx, case, ctx.seed, report=True) != r:
            raise core.HarnessError("HARNESS-NONDETERMINISM C18 config_eq %r" % (case,))
        ctx.note_distinct(("cfgeq", case["op"], case["field"], repr(case.get("value")), case.get("other")))
    ctx.count("evaluations", cnt)
    ctx.count("config_eq_cases", cnt)
    ctx.count("config_fields_in_signature", len(config_signature()))
    ctx.sample({"kind": "cfgeq", "fields": list(config_signature()), "cases": cnt})


def dict_case(ctx, spec, seed, report=True):
    """(iii) from_dict of the documented dictionary format, Program.copy, Instruction.copy"""
    import copy
    import numpy as np
    import piquasso as pq

    case = {"kind": "dict", "spec": spec}

    def viol(sub, defect, msg, **extra):
        if report:
            sig = {"check": "C18", "sub": sub, "defect": defect}
            sig.update(extra)
            ctx.violation(sig, case, msg)
        return sub + ":" + defect

    P = make_program(spec["instr"], seed)
    dict_ = {
        "instructions": [
            {"type": t["cls"], "attributes": {"constructor_kwargs": {k: build(v, seed) for k, v in t["params"].items()}, "modes": list(t["modes"])}}
            for t in spec["instr"]
        ]
    }
    try:
        Q = pq.Program.from_dict(dict_)
    except Exception as e:
        return viol("from_dict", "raises", "Program.from_dict raised %s: %s" % (type(e).__name__, e), exc=type(e).__name__, cls=spec["instr"][-1]["cls"])
    d = program_diff(P, Q)
    if d is not None:
        return viol("from_dict", d[0], "instruction %d (%s) %s %s: %s" % (d[1], d[2], d[0], d[3], d[4]), cls=d[2], param=d[3])
    if spec.get("sim"):
        cfg = dict(spec["config"] or {})
        if _has_measurement(spec):
            cfg["seed_sequence"] = 5
        sp = dict(spec, config=cfg or None)
        S1, S2 = make_sim(sp, seed), make_sim(sp, seed)
        r1 = run_catch(lambda: S1.execute(make_program(spec["instr"], seed), spec["shots"]))
        r2 = run_catch(lambda: S2.execute(Q, spec["shots"]))
        ctx.count("dict_runs")
        if not results_equal(r1, r2, 1e-12):
            empty = sorted({t["cls"] for t in spec["instr"] if not t["modes"]})
            return viol(
                "from_dict", "result",
                "the program built by from_dict does not reproduce the result of the directly built program (%s vs %s); all-modes instructions (\"modes\": []) in it: %s"
                % (r1[0] if r1[0] == "ok" else r1, r2[0] if r2[0] == "ok" else r2, empty),
                sim=spec["sim"], input_class="empty_mode_list" if empty else "explicit_modes",
            )
    # copy
    snap = snapshot(P)
    C = P.copy()
    d = program_diff(P, C)
    if d is not None:
        return viol("copy", d[0], "Program.copy(): instruction %d (%s) %s %s: %s" % (d[1], d[2], d[0], d[3], d[4]), cls=d[2], param=d[3])
    if type(C) is not type(P) or C is P or C.instructions is P.instructions:
        return viol("copy", "aliasing", "Program.copy() returns the same object / shares the instruction list")
    for a, b in zip(P.instructions, C.instructions):
        if a is b or (a.params is b.params and a.params):
            return viol("copy", "aliasing", "Program.copy() shares instruction objects with the original", cls=type(a).__name__)
        for k, v in b.params.items():
            if isinstance(v, np.ndarray) and v.size:
                if np.shares_memory(v, a.params[k]):
                    return viol("copy", "aliasing", "Program.copy() shares the ndarray parameter %s" % k, cls=type(a).__name__)
            elif isinstance(v, dict) and v is a.params[k]:
                return viol("copy", "aliasing", "Program.copy() shares the dict parameter %s" % k, cls=type(a).__name__)
        # mutate the copy: the original must not move
        b.params.clear()
        if getattr(b, "_modes", None):
            b._modes = tuple(reversed(b._modes))
    C.instructions.clear()
    s = snapshot_diff(snap, P)
    if s:
        return viol("copy", "original_changed", "mutating the copy changed the original: %s" % s)
    for ins in P.instructions:
        c = ins.copy()
        if type(c) is not type(ins) or c is ins or tuple(c.modes) != tuple(ins.modes) or list(c.params) != list(ins.params):
            return viol("copy", "instruction_copy", "Instruction.copy() of %s differs" % type(ins).__name__, cls=type(ins).__name__)
        for k in ins.params:
            if param_diff(ins.params[k], c.params[k]):
                return viol("copy", "instruction_copy", "Instruction.copy() of %s: param %s differs" % (type(ins).__name__, k), cls=type(ins).__name__)
    return None


def dict_specs(tier):
    out = [s for s in code_catalogue(tier) if s["tag"] != "bigmatrix"]
    for templates in bb_depth1("quick"):
        out.append({"sim": None, "instr": templates, "tag": "bb1"})
    ts = bb_templates(3)
    for a in ts:
        for b in ts[:: 3 if tier == "quick" else 1]:
            out.append({"sim": None, "instr": [a, b], "tag": "bb2"})
    return out


def _w_dict(ctx, item):
    from mc import core

    _, chunk, n = item
    cnt = 0
    for i, spec in enumerate(dict_specs(ctx.tier)):
        if i % n != chunk:
            continue
        cnt += 1
        r = dict_case(ctx, spec, ctx.seed, report=False)
        if r is not None:
            if dict_case(ctx, spec, ctx.seed, report=True) != r:
                raise core.HarnessError("HARNESS-NONDETERMINISM C18 from_dict/copy %r" % (spec,))
        if cnt % 11 == 0:
            ctx.note_distinct(("dict", repr(spec["instr"])))
    ctx.count("evaluations", 2 * cnt)
    ctx.count("from_dict_copy_programs", cnt)


# =========================================================================================================
# (iv) nesting
# =========================================================================================================

OUTER = 4


def inner_programs():
    """inner programs on <= 2 modes: every ordered mode tuple, the all-modes form, 1-2 instructions"""
    bs = lambda modes, th: T("Beamsplitter", modes, theta=th, phi=0.5 * th)
    ps = lambda modes, ph: T("Phaseshifter", modes, phi=ph)
    singles = [ps((0,), 0.11), ps((1,), 0.12), bs((0, 1), 0.21), bs((1, 0), 0.22), T("Vacuum", ()), T("ParticleNumberMeasurement", ())]
    out = [[s] for s in singles]
    out += [[a, b] for a in singles[:4] for b in singles[:5] if a is not b]
    out.append([T("Interferometer", (1, 0), matrix={"mat": "U2g"}), ps((0,), 0.3)])
    out.append([T("NumberState", (0, 1), occupation_numbers=[1, 0]), bs((0, 1), 0.4)])
    return out


def registers(max_len=OUTER):
    """every injective register into OUTER outer modes, plus the empty register Q()"""
    out = [()]
    for k in range(1, max_len + 1):
        out += list(itertools.permutations(range(OUTER), k))
    return out


def ref_map(register, modes):
    """reference: modes of an instruction of a program registered on `register`"""
    if len(register) == 0:
        return tuple(modes)
    if len(modes) == 0:
        return tuple(register)
    return tuple(register[m] for m in modes)


def _needs(templates):
    return 1 + max([m for t in templates for m in t["modes"]] or [-1])


def nest_build(inner_templates, regs, seed, twice=None):
    """regs[0] registers the inner program in level-1, regs[1] registers level-1 in level-2, ...;
    `twice`: a second register for a second registration of the INNER program in level-1"""
    import piquasso as pq

    inner = make_program(inner_templates, seed)
    snap = snapshot(inner)
    cur = inner
    expected = [tuple(t["modes"]) for t in inner_templates]
    levels = []
    for lvl, r in enumerate(regs):
        with pq.Program() as outer:
            pq.Q(*r) | cur
            if lvl == 0 and twice is not None:
                pq.Q(*twice) | cur
        new_expected = [ref_map(r, m) for m in expected]
        if lvl == 0 and twice is not None:
            new_expected += [ref_map(twice, m) for m in expected]
        expected = new_expected
        levels.append(outer)
        cur = outer
    return inner, snap, levels, expected


def nest_case(ctx, inner_templates, regs, twice, seed, report=True):
    case = {"kind": "nest", "inner": inner_templates, "regs": [list(r) for r in regs], "twice": list(twice) if twice is not None else None}

    def viol(defect, msg, **extra):
        if report:
            sig = {"check": "C18", "sub": "nesting", "defect": defect, "depth": len(regs)}
            sig.update(extra)
            ctx.violation(sig, case, msg)
        return defect

    try:
        inner, snap, levels, expected = nest_build(inner_templates, regs, seed, twice)
    except Exception as e:
        return viol("raises", "registering %s through %s raised %s: %s" % ([t["cls"] for t in inner_templates], regs, type(e).__name__, e), exc=type(e).__name__)
    top = levels[-1]
    reps = 2 if twice is not None else 1
    if len(top.instructions) != reps * len(inner_templates):
        return viol("count", "%d instructions registered, expected %d" % (len(top.instructions), reps * len(inner_templates)))
    for i, (ins, exp) in enumerate(zip(top.instructions, expected)):
        src = inner.instructions[i % len(inner_templates)]
        if type(ins) is not type(src):
            return viol("type", "instruction %d is %s, expected %s" % (i, type(ins).__name__, type(src).__name__))
        if tuple(ins.modes) != exp:
            return viol("modes", "instruction %d (%s): modes %s, expected register o inner = %s (registers %s%s, inner modes %s)" % (
                i, type(ins).__name__, tuple(ins.modes), exp, regs, " and %s" % (twice,) if twice is not None else "", tuple(src.modes)),
                empty_register=any(len(r) == 0 for r in regs), all_modes_instruction=len(src.modes) == 0)
        if list(ins.params) != list(src.params) or any(param_diff(src.params[k], ins.params[k]) for k in src.params):
            return viol("params", "instruction %d (%s): parameters changed by the registration" % (i, type(ins).__name__))
        if ins is src:
            return viol("aliasing", "the outer program holds the inner program's own instruction object (%s)" % type(ins).__name__)
    s = snapshot_diff(snap, inner)
    if s:
        return viol("inner_changed", "the inner program was modified by being registered: %s" % s)
    for lvl in levels[:-1]:
        for ins in lvl.instructions:
            if any(ins is t for t in top.instructions):
                return viol("aliasing", "an intermediate program shares instruction objects with the enclosing one")
    # reusable: registering the inner program again gives the same thing
    try:
        inner2, snap2, levels2, expected2 = None, None, None, None
        import piquasso as pq

        with pq.Program() as again:
            pq.Q(*regs[0]) | inner
        exp0 = [ref_map(regs[0], tuple(t["modes"])) for t in inner_templates]
        got0 = [tuple(i.modes) for i in again.instructions]
        if got0 != exp0:
            return viol("not_reusable", "second use of the inner program registers modes %s, expected %s" % (got0, exp0))
    except Exception as e:
        return viol("not_reusable", "second use of the inner program raised %s" % type(e).__name__, exc=type(e).__name__)
    return None


def nest_cases(level, tier):
    """(inner, regs, twice) triples; only register chains that are long enough for what they map"""
    inners = inner_programs()
    regs_all = registers()
    out = []
    if level == 1:
        for inner in inners:
            need = _needs(inner)
            for r in regs_all:
                if len(r) and len(r) < need:
                    continue
                out.append((inner, (r,), None))
                for r2 in regs_all:
                    if len(r2) and len(r2) < need:
                        continue
                    if tier == "quick" and len(inner) > 1 and (len(r2) > 2 or len(r) > 2):
                        continue
                    out.append((inner, (r,), r2))
        return out
    inners_small = inners[:6] + inners[6::5]
    for inner in inners_small if level == 2 or tier != "quick" else inners[:3]:
        need = _needs(inner)
        for r1 in regs_all:
            if len(r1) and len(r1) < need:
                continue
            need2 = (max(r1) + 1) if r1 else need
            for r2 in regs_all:
                if len(r2) and len(r2) < need2:
                    continue
                if level == 2:
                    out.append((inner, (r1, r2), None))
                    twice = tuple(reversed(r1)) if r1 else (1, 0)
                    if len(r1) <= 2 and len(r2) <= 3 and (not r2 or len(r2) >= max(need2, max(twice) + 1)):
                        out.append((inner, (r1, r2), twice))
                    continue
                need3 = (max(r2) + 1) if r2 else need2
                if len(r1) > 2 and tier == "quick":
                    continue
                for r3 in regs_all:
                    if len(r3) and len(r3) < need3:
                        continue
                    if len(r3) > 3 and len(r2) > 3:
                        continue
                    out.append((inner, (r1, r2, r3), None))
    return out


def _w_nest(ctx, item):
    from mc import core

    _, level, chunk, n = item
    cnt = 0
    for i, (inner, regs, twice) in enumerate(nest_cases(level, ctx.tier)):
        if i % n != chunk:
            continue
        cnt += 1
        r = nest_case(ctx, inner, regs, twice, ctx.seed, report=False)
        if r is not None:
            if nest_case(ctx, inner, regs, twice, ctx.seed, report=True) != r:
                raise core.HarnessError("HARNESS-NONDETERMINISM C18 nesting")
        if cnt % 97 == 0:
            ctx.note_distinct(("nest", level, tuple(t["cls"] for t in inner), regs, twice))
    ctx.count("evaluations", cnt)
    ctx.count("nesting_cases_depth%d" % level, cnt)
    ctx.count("max_nesting_depth", level)
    if chunk == 0 and cnt:
        ctx.sample({"kind": "nest", "depth": level, "cases_in_chunk": cnt})


def nestrun_case(ctx, inner_templates, regs, seed, report=True):
    """execute the nested program and the flattened reference program"""
    import numpy as np
    import piquasso as pq

    inner, snap, levels, expected = nest_build(inner_templates, regs, seed)
    flat = []
    for t, modes in zip(inner_templates, expected):
        flat.append(dict(t, modes=list(modes)))
    prep = [T("NumberState", (), occupation_numbers=[1, 0, 1, 0]), T("Beamsplitter", (0, 3), theta=0.7, phi=0.2), T("Beamsplitter", (1, 2), theta=0.4, phi=0.9)]
    with pq.Program() as nested:
        for t in prep:
            pq.Q(*t["modes"]) | instantiate(dict(t, modes=[]), seed)
        pq.Q() | levels[-1]
    reference = make_program(prep + flat, seed)
    # PassiveSimulator: the Fock simulators spend ~0.3 s per passive gate
    r1 = run_catch(lambda: pq.PassiveSimulator(d=4).execute(nested))
    r2 = run_catch(lambda: pq.PassiveSimulator(d=4).execute(reference))
    if r1[0] != "ok":
        from mc import core

        raise core.HarnessError("C18 nesting run: the nested program does not execute: %r" % (r1,))
    ctx.count("nesting_runs")
    if not results_equal(r1, r2, 1e-12):
        if report:
            ctx.violation(
                {"check": "C18", "sub": "nesting", "defect": "execution", "depth": len(regs)},
                {"kind": "nestrun", "inner": inner_templates, "regs": [list(r) for r in regs]},
                "nested program (registers %s) and the flattened program give different states" % (regs,),
            )
        return "execution"
    return None


def nestrun_cases():
    inners = [p for p in inner_programs() if not any(t["cls"] in ("Vacuum", "ParticleNumberMeasurement", "NumberState") for t in p)]
    out = []
    for inner in inners:
        for r in itertools.permutations(range(OUTER), 2):
            out.append((inner, (r,)))
        out.append((inner, ((1, 0), (3, 2, 0))))
        out.append((inner, ((0, 1, 2), (3, 1, 0, 2), (2, 3, 0, 1))))
    return out


def _w_nestrun(ctx, item):
    from mc import core

    _, chunk, n = item
    cnt = 0
    for i, (inner, regs) in enumerate(nestrun_cases()):
        if i % n != chunk:
            continue
        cnt += 1
        r = nestrun_case(ctx, inner, regs, ctx.seed, report=False)
        if r is not None and nestrun_case(ctx, inner, regs, ctx.seed, report=True) != r:
            raise core.HarnessError("HARNESS-NONDETERMINISM C18 nesting run")
        if cnt % 5 == 0:
            ctx.note_distinct(("nestrun", repr(inner), regs))
    ctx.count("evaluations", cnt)


# =========================================================================================================
# (v) preparation algebra
# =========================================================================================================

OCCS = [(1, 0), (0, 1), (1, 1)]
D_ALG, CUTOFF_ALG = 2, 3


def leaves_full():
    A, B, C = OCCS
    out = [("leaf", "NS", o) for o in OCCS] + [("leaf", "F1", o) for o in OCCS]
    out += [("leaf", "F2", A, B), ("leaf", "F2", B, C), ("leaf", "F2", C, A)]
    return out


def leaves_sv():
    return [("leaf", "SV", o) for o in OCCS]


def leaves_small():
    A, B, C = OCCS
    return [("leaf", "NS", A), ("leaf", "NS", B), ("leaf", "F1", A), ("leaf", "F1", B), ("leaf", "F2", A, B)]


def leaves_min():
    A, B, C = OCCS
    return [("leaf", "NS", A), ("leaf", "NS", B), ("leaf", "F1", A), ("leaf", "F2", A, B)]


def alg_trees(k, tier):
    """every expression tree of the family with k leaves"""
    from mc.refmodel import prepref as R

    if k == 1:
        for leaf in leaves_full() + leaves_sv():
            yield leaf
            for op1 in ("lmul", "rmul", "div"):
                yield (op1, 0, leaf)
                for op2 in ("lmul", "rmul", "div"):
                    yield (op2, 1, (op1, 0, leaf))
        return
    if k == 2:
        shape = R.shapes(2)[0]
        decs = R.full_decoration_sets(shape)
        for leaves in itertools.product(leaves_full(), repeat=2):
            for dec in decs:
                yield R.build(shape, leaves, dec)
        # StateVector has no __add__: every pair with one StateVector operand (unsupported cells)
        for a in leaves_sv():
            for b in leaves_full()[:4] + leaves_sv()[:1]:
                yield R.build(shape, (a, b), {})
                yield R.build(shape, (b, a), {})
        return
    if k == 3:
        for shape in R.shapes(3):
            one = R.decoration_sets(shape, 1)
            two = R.decoration_sets(shape, 2)[len(one):]
            for leaves in itertools.product(leaves_full(), repeat=3):
                for dec in one:
                    yield R.build(shape, leaves, dec)
            for leaves in itertools.product(leaves_min() if tier == "quick" else leaves_small(), repeat=3):
                for dec in two:
                    yield R.build(shape, leaves, dec)
        return
    if k == 4:
        lv = leaves_min() if tier == "quick" else leaves_small()
        for shape in R.shapes(4):
            decs = R.decoration_sets(shape, 1)
            for leaves in itertools.product(lv, repeat=4):
                for dec in decs:
                    yield R.build(shape, leaves, dec)
        return
    if k == 5:
        for shape in R.shapes(5):
            decs = R.decoration_sets(shape, 1)
            for leaves in itertools.product(leaves_min(), repeat=5):
                for dec in decs:
                    yield R.build(shape, leaves, dec)
        return
    raise ValueError(k)


def to_tuple(t):
    if isinstance(t, list):
        return tuple(to_tuple(v) for v in t)
    return t


def alg_instr(t):
    """evaluate the tree with piquasso's operator overloads (fresh leaf objects)"""
    import piquasso as pq
    from mc.refmodel import prepref as R

    k = t[0]
    if k == "leaf":
        kind = t[1]
        if kind == "NS":
            return pq.NumberState(list(t[2]))
        if kind == "SV":
            return pq.StateVector(list(t[2]))
        if kind == "F1":
            return pq.FockStateVector({tuple(t[2]): R.F_AMPS[0]})
        return pq.FockStateVector({tuple(t[2]): R.F_AMPS[1], tuple(t[3]): R.F_AMPS[2]})
    if k == "add":
        return alg_instr(t[1]) + alg_instr(t[2])
    c = R.SCALARS[t[1] % len(R.SCALARS)]
    v = alg_instr(t[2])
    if k == "lmul":
        return c * v
    if k == "rmul":
        return v * c
    return v / c


def instr_map(ins):
    """amplitude map an instruction object denotes (coefficient x map), read from its params"""
    p = ins.params
    c = p["coefficient"]
    if "occupation_numbers" in p:
        return {tuple(int(v) for v in p["occupation_numbers"]): c}
    return {tuple(int(v) for v in occ): c * amp for occ, amp in p["fock_amplitude_map"].items()}


def maps_close(a, b, tol=1e-9):
    keys = set(a) | set(b)
    for k in keys:
        x, y = complex(a.get(k, 0)), complex(b.get(k, 0))
        if abs(x - y) > tol + tol * max(abs(x), abs(y)):
            return False
    return True


_ALG_SIM = []


def alg_prepared(ins):
    """amplitudes of the state prepared by PureFockSimulator (validate off: un-normalised on purpose)"""
    import numpy as np
    import piquasso as pq
    from mc.refmodel import fockref

    if not _ALG_SIM:
        _ALG_SIM.append(pq.PureFockSimulator(d=D_ALG, config=pq.Config(cutoff=CUTOFF_ALG, validate=False)))
    prog = pq.Program(instructions=[ins])
    vec = np.asarray(_ALG_SIM[0].execute(prog).state.state_vector)
    basis = fockref.basis(D_ALG, CUTOFF_ALG)
    return {tuple(b): complex(vec[i]) for i, b in enumerate(basis) if vec[i] != 0}


def _kind_of(ins):
    return type(ins).__name__


def _weighted(ins):
    try:
        return complex(ins.params["coefficient"]) != 1
    except Exception:
        return False


def alg_localise(t):
    """the smallest sub-expression whose resulting instruction object already denotes the wrong map:
    -> signature attributes"""
    from mc.refmodel import prepref as R

    def rec(u):
        k = u[0]
        if k == "leaf":
            return None
        if k == "add":
            for c in (u[1], u[2]):
                r = rec(c)
                if r:
                    return r
        else:
            r = rec(u[2])
            if r:
                return r
        try:
            got = instr_map(alg_instr(u))
        except Exception:
            return None
        if maps_close(got, R.denote(u)):
            return None
        if k == "add":
            l, r_ = alg_instr(u[1]), alg_instr(u[2])
            lm, rm = instr_map(l), instr_map(r_)
            return {
                "op": "+", "left": _kind_of(l), "right": _kind_of(r_), "left_weighted": _weighted(l), "right_weighted": _weighted(r_),
                "overlap": bool(set(lm) & set(rm)),
            }
        return {"op": {"lmul": "c*", "rmul": "*c", "div": "/c"}[k], "operand": _kind_of(alg_instr(u[2]))}

    return rec(t)


def alg_case(ctx, t, report=True):
    from mc.refmodel import prepref as R

    ref = R.denote(t)
    try:
        ins = alg_instr(t)
    except TypeError as e:
        if "unsupported operand" in str(e) and "StateVector" in str(e):
            ctx.count("unsupported_cells")
            return "unsupported"
        ins = e
    except Exception as e:
        ins = e
    case = {"kind": "alg", "tree": t, "expr": R.show(t)}
    if isinstance(ins, Exception):
        if report:
            ctx.violation(
                {"check": "C18", "sub": "preparation_algebra", "defect": "raises", "exc": type(ins).__name__},
                case, "%s raised %s: %s" % (R.show(t), type(ins).__name__, ins),
            )
        return "raises"
    try:
        got = alg_prepared(ins)
    except Exception as e:
        if report:
            ctx.violation(
                {"check": "C18", "sub": "preparation_algebra", "defect": "execution_raises", "exc": type(e).__name__},
                case, "preparing %s on PureFockSimulator raised %s: %s" % (R.show(t), type(e).__name__, e),
            )
        return "execution_raises"
    if maps_close(got, ref):
        return None
    if report:
        loc = alg_localise(t) or {"op": "execution", "operand": _kind_of(ins)}
        sig = {"check": "C18", "sub": "preparation_algebra", "defect": "amplitudes"}
        sig.update(loc)
        ctx.violation(
            sig, case,
            "%s prepares %s, the linear combination is %s" % (R.show(t), {k: v for k, v in sorted(got.items())}, {k: v for k, v in sorted(ref.items()) if v != 0}),
        )
    return "amplitudes"


def _w_alg(ctx, item):
    from mc import core
    from mc.refmodel import prepref as R

    _, k, chunk, n = item
    cnt = 0
    seen = set()
    for i, t in enumerate(alg_trees(k, ctx.tier)):
        if i % n != chunk:
            continue
        cnt += 1
        r = alg_case(ctx, t, report=False)
        if r not in (None, "unsupported"):
            loc = repr(alg_localise(t)) if r == "amplitudes" else r
            if loc not in seen:
                seen.add(loc)
                if alg_case(ctx, t, report=True) != r:
                    raise core.HarnessError("HARNESS-NONDETERMINISM C18 algebra %s" % R.show(t))
            ctx.count("algebra_mismatches")
        if cnt % 499 == 0:
            ctx.note_distinct(("alg", k, R.show(t)))
    ctx.count("evaluations", cnt)
    ctx.count("algebra_trees_%d_leaves" % k, cnt)
    ctx.count("max_algebra_leaves", k)
    if chunk == 0 and cnt:
        ctx.sample({"kind": "alg", "leaves": k, "trees_in_chunk": cnt})


# =========================================================================================================
# driver
# =========================================================================================================


def _items(tier):
    q = tier == "quick"
    items = []
    for c in range(4):
        items.append(("bb1", c, 4))
    for c in range(8):
        items.append(("bb2", c, 8))
    if not q:
        for c in range(48):
            items.append(("bb3", c, 48))
    for c in range(24):
        items.append(("code", c, 24))
    for c in range(16):
        items.append(("cfg", c, 16))
    items.append(("cfgeq", 0, 1))
    for c in range(8):
        items.append(("dict", c, 8))
    for c in range(8):
        items.append(("nest", 1, c, 8))
    for c in range(8):
        items.append(("nest", 2, c, 8))
    for c in range(16):
        items.append(("nest", 3, c, 16))
    for c in range(4):
        items.append(("nestrun", c, 4))
    items.append(("alg", 1, 0, 1))
    for c in range(4):
        items.append(("alg", 2, c, 4))
    for c in range(16):
        items.append(("alg", 3, c, 16))
    for c in range(16 if q else 48):
        items.append(("alg", 4, c, 16 if q else 48))
    if not q:
        for c in range(96):
            items.append(("alg", 5, c, 96))
    return items


def work(ctx, item):
    import warnings

    warnings.simplefilter("ignore")
    fn = {"bb1": _w_bb, "bb2": _w_bb, "bb3": _w_bb, "code": _w_code, "cfg": _w_code, "cfgeq": _w_cfgeq, "dict": _w_dict, "nest": _w_nest, "nestrun": _w_nestrun, "alg": _w_alg}[item[0]]
    fn(ctx, item)


def run(ctx, builddir):
    from mc import core

    items = _items(ctx.tier)
    if getattr(ctx, "only", None):
        items = [it for it in items if it[0] == ctx.only or it[0].rstrip("123") == ctx.only]
    # round-robin over kinds so that long and short items are mixed
    items.sort(key=lambda it: (it[-2], it[0], str(it[1])))
    ctx.rule = (
        "(i) every 1-instruction Blackbird program over 15 classes x ordered mode tuples (d=3) x lattice combinations, every "
        "depth-2 (thorough: depth-3 on d=2) program over one template per (class, mode tuple); (ii) a catalogue of valid programs per "
        "simulator class (scalar lattice, matrix catalogue, seeded measurements) and every Config field (taken from inspect.signature(Config.__init__)) "
        "alone and every pair x simulator class x 2 programs, compared field by field; (ii') Config.__eq__/__ne__/copy() on every field, two values per "
        "field, every ordered pair of fields; (iii) from_dict / copy of all of these; (iv) every inner program x every injective register (and register "
        "chains to depth 3, inner registered twice); (v) every expression tree of the stated family with <= 4 (5) leaves; a case is "
        "distinct per concrete program / register chain / tree"
    )
    ctx.assume("Blackbird text round trip: parameter values compared within 1 ulp; as_code / from_dict / copy: bit-exact values (sign of zero included), numeric type (int vs float vs numpy scalar) not demanded")
    ctx.assume("as_code: programs with a measurement and no seed_sequence are only required to run (sampling is not reproducible without a seed); float32 configs compared at 1e-5, everything else at 1e-12")
    ctx.assume("Config round trips are compared through the public attribute of every parameter of Config.__init__ (bit-exact for numbers), then through ==; an unspecified "
               "seed_sequence (None or 0 -> fresh entropy per object) is compared through the recorded constructor argument")
    ctx.assume("from_dict: the documented dictionary format is built by the harness (the library has no exporter); 'modes' may come back as a list")
    ctx.assume("preparation algebra: amplitudes compared at 1e-9 relative (x / c is implemented as x * (1 / c)); StateVector has no '+': counted as unsupported cells; trees with k >= 3 leaves carry at most 2 (k=3) / 1 (k>=4) scalar decorations")
    core.pmap(ctx, "mc.checks.c18", "work", items, builddir)
    c = ctx.counters
    return {
        "evaluations": c.get("evaluations", 0),
        "blackbird_programs": c.get("blackbird_programs", 0),
        "as_code_programs": c.get("as_code_programs", 0),
        "as_code_config_cases": c.get("as_code_config_cases", 0),
        "config_eq_cases": c.get("config_eq_cases", 0),
        "config_fields_in_signature": c.get("config_fields_in_signature", 0),
        "from_dict_copy_programs": c.get("from_dict_copy_programs", 0),
        "nesting_cases": sum(v for k, v in c.items() if k.startswith("nesting_cases")),
        "algebra_trees": sum(v for k, v in c.items() if k.startswith("algebra_trees")),
        "unsupported_cells": c.get("unsupported_cells", 0),
        "explanation": "evaluations = programs / register chains / expression trees constructed on the real implementation and compared "
        "with the reference (round-trip equality, reference mode map, reference linear combination)",
    }


def replay(ctx, case, signature):
    kind = case["kind"]
    if kind == "bb":
        bb_case(ctx, case["templates"], ctx.seed)
    elif kind == "code":
        code_case(ctx, case["spec"], ctx.seed)
    elif kind == "cfgeq":
        config_eq_case(ctx, case["case"], ctx.seed)
    elif kind == "dict":
        dict_case(ctx, case["spec"], ctx.seed)
    elif kind == "nest":
        nest_case(ctx, case["inner"], [tuple(r) for r in case["regs"]], tuple(case["twice"]) if case["twice"] is not None else None, ctx.seed)
    elif kind == "nestrun":
        nestrun_case(ctx, case["inner"], [tuple(r) for r in case["regs"]], ctx.seed)
    elif kind == "alg":
        alg_case(ctx, to_tuple(case["tree"]))
    else:
        raise ValueError(kind)
