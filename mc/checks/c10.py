"""C10 -- automatic derivatives equal the true derivatives.

Bounded-exhaustive exploration: every instruction sequence over the differentiable gate alphabet
(Displacement, Squeezing, Phaseshifter, Kerr, QuadraticPhase, CubicPhase, Interferometer built from a
real weight vector with the connector's own array library, Beamsplitter, CrossKerr, Squeezing2) up to a
depth, on every ORDERED mode tuple, from the vacuum and from a number state, is executed on the real
PureFockSimulator under every AD mode

    tf_eager     TensorflowConnector()                          hand-written custom-gradient rules, concrete upstream
                 (tape.jacobian(..., experimental_use_pfor=False), output assembled inside the tape)
    tf_eager_pfor  same connector, TensorFlow's default tape.jacobian: the hand-written rules receive SYMBOLIC
                 upstream tensors (their non-static branches)
    tf_function  TensorflowConnector(decorate_with=tf.function) autodiff through tnp
    jax_jit      jax.jit(jax.jacrev(f)) -- one compiled Jacobian per circuit, all lattice points through it
    jax_eager    jax.jacrev(f) and jax.grad of the scalar outputs, op by op

and the Jacobian of EVERY output (all Fock probabilities, mean photon number, mean position of every
mode, norm) with respect to EVERY gate parameter is compared, at every point of a 5-point lattice per
parameter, with central differences + Richardson extrapolation (h = 1e-3, 5e-4) of the float64
NumPy-connector simulation of the same circuit.  Batched states (BatchPrepare / BatchApply) and the FFI
permanent piquasso.jax_extensions.perm (every multiplicity pair, gradient w.r.t. real and imaginary parts
of every entry) are explored the same way.  See DESIGN.md section 3 / C10.
"""

import itertools
import os
import threading
import traceback

import numpy as np

from mc import c10_lib as L

LEVEL = "exploration"
TOL = 1e-6
FWD_TOL = 1e-8
SMOOTH_LIMIT = 1e-7
MAX_CASES_PER_SIG = 2  # recorded cases per signature and worker (all occurrences are counted)

ACTIVE_FIRST = ("D", "S", "Q", "C", "S2")  # gates that change the vacuum
# simulation step of PureFockSimulator._instruction_map that executes the gate (defect site of a signature)
SITE = {
    "D": "displacement", "S": "squeezing", "P": "passive_linear", "K": "kerr", "Q": "linear", "C": "cubic_phase", "I1": "passive_linear",
    "B": "passive_linear", "X": "cross_kerr", "S2": "linear", "I2": "passive_linear", "I3": "passive_linear",
}


# ---------------------------------------------------------------------------------------
# plan


def _circ(d, inp, gates, batch=None):
    return {"d": d, "cutoff": 5 if d == 1 else 4, "input": inp, "batch": batch, "gates": [[g, list(m)] for g, m in gates]}


def _sequences(d, depth, with_i3=False):
    alpha = L.alphabet(d, with_i3)
    return [list(seq) for seq in itertools.product(alpha, repeat=depth)]


def _vacuum_redundant(gates):
    """a leading gate that leaves the vacuum invariant makes the circuit equal to the shorter one"""
    return gates[0][0] not in ACTIVE_FIRST


def _big_jobs(tier):
    """list of jobs {family, circuit, lat, modes}; `lat` names the lattice: spec (full tensor grid when
    5**p <= 125, else axis lines + diagonal), star (diagonal + generic base point + the points 0 and -1 on
    every axis through the base point), diag (diagonal + base point), point (generic base point)"""
    thorough = tier == "thorough"
    jobs = []

    def add(family, circuit, lat, modes):
        jobs.append({"family": family, "circuit": circuit, "lat": lat, "modes": list(modes)})

    # ---- depth 1: every gate on every ordered mode tuple, both inputs, the lattice of the specification
    for d in (1, 2, 3) if thorough else (1, 2):
        for seq in _sequences(d, 1, with_i3=True):
            for inp in ("vac", "num"):
                c = _circ(d, inp, seq)
                add("tf_eager", c, "spec", ["tf_eager"])
                add("tf_function", c, "spec" if (thorough and d < 3) else "star", ["tf_function"])
                # TensorFlow's default tape.jacobian (pfor): symbolic upstream -> the `else` branches of the rules
                if thorough:
                    pfor_lat = "tri" if d < 3 else "point"
                else:
                    pfor_lat = "duo" if (inp == "num" and d == 1) else "point"
                add("tf_eager", c, pfor_lat, ["tf_eager_pfor"])
                add("jax", c, "spec", ["jax_jit", "jax_eager"])
    # ---- depth 2 on d <= 2: every sequence
    for d in (1, 2):
        for seq in _sequences(d, 2):
            # one canonical mode assignment per ordered gate pair: first gate on (0)/(0,1), second on (d-1)/(1,0)
            canon = all(tuple(m) == (((0,), (0, 1)) if i == 0 else ((d - 1,), (1, 0)))[len(m) - 1] for i, (g, m) in enumerate(seq))
            for inp in ("num", "vac"):
                redundant = inp == "vac" and _vacuum_redundant(seq)
                if redundant and not thorough:
                    continue
                c = _circ(d, inp, seq)
                if thorough:
                    add("tf_eager", c, "star" if inp == "vac" else "spec*", ["tf_eager"])
                    if not redundant:
                        add("tf_function", c, "point", ["tf_function"])
                        if inp == "num":
                            add("jax", c, "star", ["jax_jit"])
                    if inp == "num" and canon:
                        add("tf_eager", c, "point", ["tf_eager_pfor"])
                else:
                    # d = 1 is cheap: star lattice (it contains the points with ONE parameter at 0 and the others generic)
                    add("tf_eager", c, "star" if d == 1 else "tri", ["tf_eager"])
                    if inp == "num" and canon:
                        add("tf_function", c, "star" if d == 1 else "point", ["tf_function"])
                        add("jax", c, "star" if d == 1 else "diag", ["jax_jit"])  # JAX has no hand-written rules in this path
    if thorough:
        # ---- depth 2 on d = 3 (incl. the 3-mode interferometer): number-state input; base point, origin, all(-1)
        for seq in _sequences(3, 2, with_i3=True):
            add("tf_eager", _circ(3, "num", seq), "duo", ["tf_eager"])
        # ---- depth 3 on d <= 2: number-state input, generic base point (d = 1: star)
        for d in (1, 2):
            for seq in _sequences(d, 3):
                add("tf_eager", _circ(d, "num", seq), "star" if d == 1 else "point", ["tf_eager"])
    # ---- batched states
    for d in (2, 3) if thorough else (2,):
        depths = (1, 2) if (thorough and d == 2) else (1,)
        for depth in depths:
            for seq in _sequences(d, depth, with_i3=True):
                for batch in ("prep", "apply"):
                    if batch == "apply" and depth == 2:
                        continue
                    c = _circ(d, "num", seq, batch=batch)
                    add("tf_eager", c, "star" if depth == 1 else "point", ["tf_eager"])
                    if depth == 1:
                        if d == 2 and thorough:
                            add("tf_eager", c, "point", ["tf_eager_pfor"])
                        add("tf_function", c, "tri" if thorough else "point", ["tf_function"])
                        add("jax", c, "star" if d == 2 else "diag", ["jax_jit"])
    # ---- the FFI permanent
    for n in (1, 2, 3):
        pairs = L.multiplicity_pairs(n, 4)
        chunk = 40
        for k in range(0, len(pairs), chunk):
            jobs.append({"family": "perm", "n": n, "pairs": [[list(r), list(c)] for r, c in pairs[k : k + chunk]], "tier": tier})
    return jobs


def _canonical_alphabet(d):
    """one mode assignment per gate: (0) / (0, 1)"""
    return [(g, m) for g, m in L.alphabet(d) if tuple(m) == tuple(range(len(m)))]


def _small_jobs():
    """the QUICK tier: bounded to a few CPU-minutes including TensorFlow / JAX start-up (two workers)"""
    jobs = []

    def add(family, circuit, lat, modes):
        jobs.append({"family": family, "circuit": circuit, "lat": lat, "modes": list(modes)})

    for d in (1, 2):
        # depth 1, every gate on every ordered mode tuple, both inputs: star lattice
        for seq in _sequences(d, 1):
            for inp in ("vac", "num"):
                c = _circ(d, inp, seq)
                add("tf_eager", c, "star", ["tf_eager"])
                if d == 1:
                    add("tf_function", c, "tri", ["tf_function"])
                    if inp == "num":
                        add("tf_eager", c, "point", ["tf_eager_pfor"])
                if d == 1 or (inp == "num" and tuple(seq[0][1]) == tuple(range(len(seq[0][1])))):
                    add("jax", c, "star", ["jax_jit"])
    # depth 2: d = 1 every sequence (star: contains the points with ONE parameter at 0); d = 2 one canonical mode
    # assignment per ordered gate pair, generic base point
    for seq in _sequences(1, 2):
        add("tf_eager", _circ(1, "num", seq), "star", ["tf_eager"])
    for seq in _sequences(2, 2):
        canon = all(tuple(m) == (((0,), (0, 1)) if i == 0 else ((1,), (1, 0)))[len(m) - 1] for i, (g, m) in enumerate(seq))
        if canon:
            add("tf_eager", _circ(2, "num", seq), "point", ["tf_eager"])
    # (lead) d = 3, depth 2: a two-mode gate followed by a single-mode ACTIVE gate on every mode.  Hand-written
    # back-propagation rules that flatten (state-index matrix) cotangents only show an ordering error when the
    # index matrices have more than one column, i.e. from d = 3 on -- d <= 2 is blind to a transposed einsum there
    for pair in ((0, 1), (1, 2), (2, 0)):
        for act in ("D", "S", "C"):
            for mode in (0, 1, 2):
                add("tf_eager", _circ(3, "num", [("B", pair), (act, (mode,))]), "duo", ["tf_eager"])
    # batched states: canonical modes, base point and the all(-1) corner
    for g, m in _canonical_alphabet(2):
        for batch in ("prep", "apply"):
            add("tf_eager", _circ(2, "num", [(g, m)], batch=batch), "duo", ["tf_eager"])
    for n in (1, 2, 3):
        pairs = L.multiplicity_pairs(n, 4)
        jobs.append({"family": "perm", "n": n, "pairs": [[list(r), list(c)] for r, c in pairs], "tier": "small"})
    return jobs


def _jobs(tier):
    """quick = the small plan; thorough = the small plan + the full depth<=2 plan on d<=2 + d=3 / depth 3 (a superset)"""
    if tier == "quick":
        return _small_jobs()
    seen, out = set(), []
    for j in _small_jobs() + _big_jobs("quick") + _big_jobs("thorough"):
        key = repr(sorted(j.items(), key=lambda kv: kv[0]))
        if key not in seen:
            seen.add(key)
            out.append(j)
    return out


def _npoints(job, seed=0):
    if job["family"] == "perm":
        return len(job["pairs"])
    return len(_points(job["circuit"], job["lat"], seed))


_COST = {"tf_eager": 0.009, "tf_function": 0.016, "jax": 0.002}  # rough CPU seconds per point and output row


def _cost(job):
    if job["family"] == "perm":
        return len(job["pairs"]) * {"thorough": 1.0, "small": 0.03}.get(job["tier"], 0.15)
    c = job["circuit"]
    rows = len(L.output_names(c))
    p = len(L.param_info(c))
    n = _npoints(job)
    fd = n * 6 * p * 0.0015 * (1 + len(c["gates"])) * (2 if c.get("batch") else 1)
    per = _COST[job["family"]] * rows * (1.5 if any(g in ("Q", "S2", "X") for g, _ in c["gates"]) else 1.0)
    if job["modes"] == ["tf_eager_pfor"]:
        per = 1.5 + 0.7 * len(c["gates"]) + 0.04 * rows  # the backward pass is re-traced on every call
    fixed = 3.0 if job["family"] == "jax" else (1.0 if job["family"] == "tf_function" else 0.0)
    return fd + n * per + fixed


def _points(circuit, lat, seed):
    if lat == "spec":
        return L.lattice_points(circuit, seed, 125)[0]
    info = L.param_info(circuit)
    p = len(info)
    if lat == "spec*":
        # full tensor grid when 5**p <= 25, axis lines + diagonal for p = 3, star otherwise
        if p <= 3:
            return L.lattice_points(circuit, seed, 25)[0]
        lat = "star"
    scales = np.array([s for (_, _, _, s) in info])
    lat5 = L.lattice(seed)
    base = np.array(L.base_point(seed, p))
    pts = [base]
    if lat in ("star", "diag"):
        pts += [np.full(p, v) for v in lat5]
    if lat == "tri":
        pts += [np.zeros(p), np.full(p, -1.0)]
    if lat == "duo":
        pts += [np.full(p, -1.0)]
    if lat == "star":
        for i in range(p):
            for v in (0.0, -1.0):
                q = base.copy()
                q[i] = v
                pts.append(q)
    out, seen = [], set()
    for q in pts:
        k = tuple(np.round(q, 12))
        if k not in seen:
            seen.add(k)
            out.append(q * scales)
    return out


def _chunks(jobs, target):
    """pack jobs (already in a deterministic order) into work items of roughly `target` CPU seconds"""
    items, cur, acc = [], [], 0.0
    for j in jobs:
        c = _cost(j)
        if cur and acc + c > target:
            items.append(cur)
            cur, acc = [], 0.0
        cur.append(j)
        acc += c
    if cur:
        items.append(cur)
    return items


# ---------------------------------------------------------------------------------------
# run


def run(ctx, builddir):
    from mc import core

    jobs = _jobs(ctx.tier)
    only = getattr(ctx, "only", None)
    if only:
        # development filter: family[:depthN][:dN][:batch][:gate=K]  e.g. tf_eager:depth1:d2, jax:batch, perm
        parts = only.split(":")

        def keep(j):
            if j["family"] != parts[0] and parts[0] != "all":
                return False
            c = j.get("circuit")
            for q in parts[1:]:
                if c is None:
                    return False
                if q.startswith("depth") and len(c["gates"]) != int(q[5:]):
                    return False
                if q.startswith("d") and q[1:].isdigit() and c["d"] != int(q[1:]):
                    return False
                if q == "batch" and not c.get("batch"):
                    return False
                if q == "nobatch" and c.get("batch"):
                    return False
                if q.startswith("gate=") and not any(g == q[5:] for g, _ in c["gates"]):
                    return False
            return True

        jobs = [j for j in jobs if keep(j)]
    ctx.rule = (
        "circuits = EVERY sequence over the alphabet {D(r,phi), S(r,phi), P(phi), K(xi), Q(s), C(gamma), I1(w), B(theta,phi), X(xi), "
        "S2(r,phi), I2(w0..w2), I3(w0..w5)} x every ORDERED mode tuple, inputs vacuum and number state (|2>, |2,1>, |1,0,2>), cutoff 5 (d=1) / 4. "
        "Parameter points: 5-point lattice {-1, g-, 0, g+, 1} x scale per parameter (g-, g+ generic, chosen by VERIF_SEED). Lattices: 'spec' = full tensor "
        "grid when 5^p <= 125, otherwise every axis-aligned line through a generic base point and through the origin + the all-equal diagonal; 'spec*' = full grid "
        "when 5^p <= 25, the axis lines + diagonal for p = 3, star otherwise; 'star' = diagonal + base point + the points 0 and -1 on every axis through the base "
        "point; 'diag' = diagonal + base point; 'tri' = base point, origin, all(-1); 'duo' = base point, all(-1); 'point' = base point. "
        "QUICK (bounded to a few CPU-minutes incl. TensorFlow/JAX start-up, two workers): depth 1 on d<=2, every gate on every ordered mode tuple, both inputs: tf_eager star; "
        "d=1 also tf_function tri and tf_eager_pfor point; jax_jit star on d=1 and on one mode assignment per gate on d=2; depth 2: d=1 all 49 sequences tf_eager star, d=2 one canonical "
        "mode assignment per ordered gate pair (121) tf_eager point; batched d=2 depth 1 on canonical modes tf_eager duo; perm: every multiplicity pair jitted on the generic matrix, "
        "op-by-op / constant-multiplicity variants for n=2, total 2. "
        "THOROUGH = QUICK + depth 1 on d<=3, both inputs: tf_eager spec, tf_function spec (d=3 star), tf_eager_pfor tri (d=3 point), jax_jit spec + jax_eager / jax.grad at 3 points; "
        "depth 2 on d<=2, all sequences, both inputs: tf_eager spec* (number state) / star (vacuum), tf_function point, jax_jit star (number state), tf_eager_pfor point (canonical pairs); "
        "depth 2 on d=3 (2601 sequences): tf_eager duo; depth 3 on d<=2 (10991 sequences): tf_eager point (d=1 star). "
        "Batched (d=2; thorough also d=3 and depth 2): BatchPrepare([vacuum+Displacement(params), number state]) + circuit, and BatchApply of the circuit with separate parameters per element. "
        "perm: every (rows, cols) with equal totals <= 4 on n x n, n <= 3, catalogue of 4 complex matrices, jitted (multiplicities traced / constant) and eager. "
        "evaluation = one AD Jacobian (all outputs x all parameters) at one point in one AD mode, compared entry-wise with the finite-difference oracle; "
        "distinct = (mode, circuit, point) keys; non-trivial = the oracle Jacobian has at least one entry > 1e-9 in absolute value"
    )
    ctx.assume("oracle = central differences of the float64 NumPy-connector simulation at h=1e-3 and 5e-4, Richardson-extrapolated (error O(h^4))")
    ctx.assume("tolerance |AD - FD| <= 1e-6*(1+|FD|) per Jacobian entry (finite-difference noise; agreement measured on the pinned tree is ~1e-11)")
    ctx.assume(
        "oracle self-consistency: the extrapolations from (h, h/2) and (h/2, h/4) must agree to 1e-7*(1+|g|); points where they do not are counted as "
        "oracle_not_smooth and not compared -- the NumPy simulation itself is not differentiable there (observed only for Squeezing2 applied to a superposition: "
        "the relative phases produced by euler()/takagi() jump between neighbouring parameter values)"
    )
    ctx.assume(
        "JAX cannot differentiate gates routed through euler()/takagi() (NotImplementedError: Differentiation rule for 'schur'): QuadraticPhase and "
        "Squeezing2 under JAX are unsupported cells (counted), differentiated under TensorFlow only"
    )
    ctx.assume("a None gradient counts as zero only if the oracle column is zero; otherwise it is a violation (sub=gradient_missing)")
    ctx.assume("perm oracle: central differences + Richardson of an independent sum-over-permutations reference (exact for polynomials of degree <= 4)")
    ctx.assume(
        "quick tier deliberately small (the machine budget allows ~5 CPU-minutes incl. ~1 minute of TensorFlow/JAX start-up): reduced lattices ('star' instead of the "
        "full tensor grid), tf_function / pfor only on d=1, JAX op-by-op mode and d=3 / depth 3 / full grids only in the thorough tier, which contains the quick plan"
    )
    ctx.assume("one long-lived connector object per AD mode and worker (the way a training loop uses the connectors; tf.function traces are reused)")

    env = {"OMP_THREAD_LIMIT": "1", "TF_ENABLE_ONEDNN_OPTS": "0"}
    if ctx.tier == "quick":
        # two work items = two workers (one imports TensorFlow, one JAX): start-up dominates this tier
        tf_jobs = [j for j in jobs if j["family"] in ("tf_eager", "tf_function")]
        jx_jobs = [j for j in jobs if j["family"] in ("jax", "perm")]
        ctx.extra["planned_jobs"] = len(jobs)
        # (lead) each family is split round-robin into 4 work items, i.e. up to 8 workers: start-up is paid 4x per family,
        # but the wall time drops from ~6 min to ~2 min on an idle machine
        items = []
        for fam in (tf_jobs, jx_jobs):
            for k in range(4):
                part = fam[k::4]
                if part:
                    items.append(part)
        core.pmap(ctx, "mc.checks.c10", "work", items, builddir, procs=8, env=env)
        return _finish(ctx)
    fams = {"tf_eager": [], "tf_function": [], "jaxperm": []}
    for j in jobs:
        fams["jaxperm" if j["family"] in ("jax", "perm") else j["family"]].append(j)
    target = 60.0
    pools = {k: _chunks(v, target) for k, v in fams.items() if v}
    costs = {k: sum(_cost(j) for j in fams[k]) + {"tf_eager": 35, "tf_function": 60, "jaxperm": 25}[k] * 4 for k in pools}
    ctx.extra["planned_jobs"] = len(jobs)
    capped = int(os.environ.get("VERIF_PROCS", "0") or 0)
    if capped:
        for k in sorted(pools):
            core.pmap(ctx, "mc.checks.c10", "work", pools[k], builddir, env=env)
    else:
        total = sum(costs.values())
        ncpu = min(16, os.cpu_count() or 1)
        alloc = {k: max(1, int(round(ncpu * costs[k] / total))) for k in pools}
        while sum(alloc.values()) > max(ncpu, len(alloc)):
            k = max(alloc, key=lambda q: alloc[q])
            alloc[k] -= 1
        subs, errors, threads = {}, [], []

        def runner(k):
            try:
                sub = core.Check(ctx.prop, ctx.tier, ctx.seed, ctx.level)
                core.pmap(sub, "mc.checks.c10", "work", pools[k], builddir, procs=alloc[k], env=env)
                subs[k] = sub
            except BaseException as e:  # re-raised in the main thread
                errors.append((k, e, traceback.format_exc()))

        for k in sorted(pools):
            t = threading.Thread(target=runner, args=(k,))
            t.start()
            threads.append(t)
        for t in threads:
            t.join()
        if errors:
            k, e, tb = errors[0]
            if isinstance(e, core.HarnessError):
                raise e
            raise core.HarnessError("pool %s failed:\n%s" % (k, tb))
        for k in sorted(subs):
            ctx.merge(subs[k].export())
        ctx.extra["pool_processes"] = {k: alloc[k] for k in sorted(alloc)}
    return _finish(ctx)


def _finish(ctx):
    _collapse_downstream(ctx)
    c = ctx.counters
    return {
        "evaluations": c.get("jacobians_compared", 0),
        "circuits_x_modes": c.get("circuit_mode_cells", 0),
        "jacobian_entries_compared": c.get("entries_compared", 0),
        "nonzero_entries_compared": c.get("entries_nonzero", 0),
        "unsupported_cells": c.get("unsupported_cells", 0),
        "oracle_not_smooth_points": c.get("oracle_not_smooth", 0),
        "perm_gradients_compared": c.get("perm_jacobians", 0),
        "explanation": "evaluation = one AD Jacobian of all outputs w.r.t. all gate parameters (or of Re/Im perm w.r.t. Re/Im of every matrix entry) "
        "at one lattice point in one AD mode, compared entry-wise with Richardson-extrapolated central differences of the NumPy simulation",
    }


FORWARD = "gradient_with_forward_mismatch"


def _collapse_downstream(ctx):
    """one defect, one signature.

    (1) a (sub, mode, gate, param) that already fails as the LAST gate of an unbatched circuit is reported once -- the
    qualifiers 'downstream' (gates applied after it) and 'batch' of its other occurrences are dropped so that they merge
    into that signature; a defect that needs a particular downstream gate or a batched state keeps the qualifier.
    (2) when already the forward VALUES of the connector differ from NumPy the parameter whose column differs is not the
    defect site: if the circuit contains gates whose single-gate circuit shows the forward mismatch on its own, the
    signature names those gates instead ({sub, mode, forward_mismatch_from})."""
    culprit = {}
    for v in ctx.violations:
        s, c = v.signature, (v.case or {}).get("circuit") if isinstance(v.case, dict) else None
        if s.get("sub") == FORWARD and c and len(c["gates"]) == 1 and not c.get("batch"):
            culprit.setdefault(s.get("mode"), set()).add(L.GATES[c["gates"][0][0]][0])
    for v in ctx.violations:
        s, c = v.signature, (v.case or {}).get("circuit") if isinstance(v.case, dict) else None
        if s.get("sub") == FORWARD and c:
            hit = sorted({L.GATES[g][0] for g, _ in c["gates"]} & culprit.get(s.get("mode"), set()))
            if hit:
                v.signature = {"check": "C10", "sub": FORWARD, "mode": s.get("mode"), "forward_mismatch_from": "+".join(hit)}

    def core_key(s):
        return (s.get("sub"), s.get("mode"), s.get("gate"), s.get("param"))

    plain = {
        core_key(v.signature) for v in ctx.violations
        if v.signature.get("downstream") == "" and v.signature.get("batch") == "" and not v.signature.get("squeezing2_elsewhere")
    }
    last = {core_key(v.signature) + (v.signature.get("batch"),) for v in ctx.violations if v.signature.get("downstream") == ""}
    for v in ctx.violations:
        s = v.signature
        if "downstream" not in s:
            continue
        if core_key(s) in plain:
            s["downstream"] = ""
            s["batch"] = ""
            s["squeezing2_elsewhere"] = ""
        elif core_key(s) + (s.get("batch"),) in last:
            s["downstream"] = ""


def replay(ctx, case, signature):
    if case.get("family") == "perm":
        _perm_case(ctx, case["n"], case["matrix"], case["rows"], case["cols"], case["mode"], record_all=True)
        return
    _circuit_points(ctx, case["circuit"], [np.array(case["x"], dtype=float)], [case["mode"]], record_all=True)


# ---------------------------------------------------------------------------------------
# workers

_SEEN = {}
_STATE = {"jax_circuits": 0}


def work(ctx, item):
    progress = os.environ.get("C10_PROGRESS")  # development aid: one line per finished work item
    if progress:
        import time

        t0 = time.process_time()
    _work(ctx, item)
    if progress:
        with open(progress, "a") as fh:
            fh.write("%s %d jobs est %.1f cpu %.1f pid %d\n" % (item[0]["family"], len(item), sum(_cost(j) for j in item), time.process_time() - t0, os.getpid()))


def _work(ctx, item):
    for job in item:
        if job["family"] == "perm":
            _perm_job(ctx, job)
        else:
            pts = _points(job["circuit"], job["lat"], ctx.seed)
            _circuit_points(ctx, job["circuit"], pts, job["modes"])


def _quiet_tf():
    import tensorflow as tf

    tf.get_logger().setLevel("ERROR")


def _unsupported(e):
    import piquasso as pq

    return isinstance(e, (NotImplementedError, pq.api.exceptions.NotImplementedCalculation))


def _ad_tf(kind, circuit, pfor=False):
    _quiet_tf()

    def jac(x):
        out, jl = L.tf_run(kind, circuit, x, pfor=pfor)
        return out, jl

    def fwd(x):
        return L.tf_run(kind, circuit, x, want_jacobian=False)[0]

    return jac, fwd


def _ad_jax(circuit, jit):
    import jax
    import jax.numpy as jnp

    f = L.jax_function(circuit)
    jf = jax.jacrev(f)
    ff = f
    if jit:
        jf = jax.jit(jf)
        ff = jax.jit(f)

    def jac(x):
        xj = jnp.asarray(x, dtype=jnp.float64)
        J = np.asarray(jf(xj))
        out = np.asarray(ff(xj))
        return out, [J[:, i] for i in range(J.shape[1])]

    def fwd(x):
        return np.asarray(ff(jnp.asarray(x, dtype=jnp.float64)))

    return jac, fwd


def _circuit_points(ctx, circuit, pts, modes, record_all=False):
    from mc import core

    f_np = L.numpy_function(circuit)
    info = L.param_info(circuit)
    names = L.output_names(circuit)
    p = len(info)
    desc = L.describe(circuit)
    oracle = []
    for x in pts:
        fd, smooth = L.richardson(f_np, x)
        val = f_np(x)
        ok = smooth <= SMOOTH_LIMIT * (1 + float(np.max(np.abs(fd))) if fd.size else 0.0)
        oracle.append((fd, val, ok))
        ctx.count("oracle_jacobians")
        if not ok:
            ctx.count("oracle_not_smooth")
    for mode in modes:
        ctx.count("circuit_mode_cells")
        if mode in ("jax_jit", "jax_eager") and L.jax_unsupported(circuit):
            # still exercised once so that the refusal is observed, not assumed
            pass
        try:
            if mode == "tf_eager":
                jac, fwd = _ad_tf("tf", circuit)
            elif mode == "tf_eager_pfor":
                jac, fwd = _ad_tf("tf", circuit, pfor=True)
            elif mode == "tf_function":
                jac, fwd = _ad_tf("tff", circuit)
            elif mode == "jax_jit":
                jac, fwd = _ad_jax(circuit, True)
            elif mode == "jax_eager":
                jac, fwd = _ad_jax(circuit, False)
            else:
                raise core.HarnessError("unknown mode %r" % mode)
        except Exception as e:  # pragma: no cover - construction is lazy everywhere
            raise core.HarnessError("could not set up %s for %s: %r" % (mode, desc, e))
        mode_pts = list(enumerate(pts))
        if mode == "jax_eager" and len(mode_pts) > 3:
            # op-by-op JAX is slow: generic base point, origin and the all(-1) corner -- nearest available
            want = [_points(circuit, "point", ctx.seed)[0], np.zeros(p), -np.array([s for *_, s in info])]
            chosen = []
            for w in want:
                k = int(np.argmin([np.max(np.abs(q - w)) for q in pts]))
                if k not in chosen:
                    chosen.append(k)
            mode_pts = [(k, pts[k]) for k in chosen]
        dead = False
        for k, x in mode_pts:
            if dead:
                break
            fd, val, ok = oracle[k]
            if not ok:
                continue
            try:
                out, jl = jac(x)
            except Exception as e:
                if _unsupported(e):
                    ctx.count("unsupported_cells")
                    ctx.count("unsupported[%s:%s]" % (mode, type(e).__name__))
                    dead = True
                    continue
                # does the forward pass alone work?  if not this is not a gradient problem (C09/C13)
                try:
                    fwd(x)
                except Exception as e2:
                    if _unsupported(e2):
                        ctx.count("unsupported_cells")
                    else:
                        ctx.count("forward_error[%s:%s]" % (mode, type(e2).__name__))
                    dead = True
                    continue
                sig = {"check": "C10", "sub": "backward_crash", "mode": mode, "exc": type(e).__name__, "gates": "+".join(sorted({L.GATES[g][0] for g, _ in circuit["gates"]})), "batch": circuit.get("batch") or ""}
                _report(ctx, sig, {"family": "circuit", "circuit": circuit, "mode": mode, "x": list(map(float, x))}, "%s [%s]: forward pass works, Jacobian raises %r" % (desc, mode, e), record_all)
                dead = True
                continue
            _compare(ctx, circuit, mode, x, out, jl, fd, val, info, names, jac, fwd, record_all)
        if mode == "jax_eager" and not dead and len(circuit["gates"]) == 1:
            _jax_grad_scalars(ctx, circuit, pts, oracle, names, info, record_all)
    if _STATE["jax_circuits"] > 150:
        import jax

        jax.clear_caches()
        _STATE["jax_circuits"] = 0
    if any(m.startswith("jax") for m in modes):
        _STATE["jax_circuits"] += 1


def _sig_for(circuit, mode, sub, col, info):
    gi, g, pname, _ = info[col]
    if g == "prep":
        gate, downstream = "BatchPrepare:Displacement", "+".join(L.GATES[k][0] for k, _ in circuit["gates"])
    else:
        gate = L.GATES[g][0] + ("[%d-mode]" % L.GATES[g][1] if g.startswith("I") else "")
        downstream = "+".join(L.GATES[k][0] for k, _ in circuit["gates"][gi + 1 :])
    # Squeezing2 elsewhere in the circuit (before or after the differentiated gate): its euler()/takagi() step has a
    # gauge freedom (repeated singular values) that the connectors fix differently, see F38 / F38-C10
    s2_elsewhere = any(k == "S2" for j, (k, _) in enumerate(circuit["gates"]) if g == "prep" or j != gi)
    return {
        "check": "C10",
        "sub": sub,
        "mode": mode,
        "site": "batch_prepare" if g == "prep" else SITE[g],
        "gate": gate,
        "param": pname.split("@")[0],
        "downstream": downstream,
        "batch": circuit.get("batch") or "",
        "squeezing2_elsewhere": "yes" if s2_elsewhere else "",
    }


def _report(ctx, sig, case, message, record_all=False):
    key = tuple(sorted(sig.items()))
    n = _SEEN.get(key, 0)
    _SEEN[key] = n + 1
    ctx.count("violating_cells")
    if n < MAX_CASES_PER_SIG or record_all:
        ctx.violation(sig, case, message)


def _compare(ctx, circuit, mode, x, out, jl, fd, val, info, names, jac, fwd, record_all):
    from mc import core

    n_out, p = fd.shape
    ctx.count("jacobians_compared")
    ctx.count("entries_compared", int(fd.size))
    nz = int(np.sum(np.abs(fd) > 1e-9))
    ctx.count("entries_nonzero", nz)
    desc = L.describe(circuit)
    if nz:
        ctx.note_distinct((mode, desc, [round(float(v), 9) for v in x]))
    fwd_diff = float(np.max(np.abs(np.asarray(out, dtype=float) - val))) if n_out else 0.0
    fwd_bad = not np.isfinite(fwd_diff) or fwd_diff > FWD_TOL * (1 + float(np.max(np.abs(val))))
    if fwd_bad:
        ctx.count("forward_value_differs[%s]" % mode)
    bad_cols = {}
    for col in range(p):
        g = jl[col]
        if g is None:
            if np.max(np.abs(fd[:, col])) > TOL:
                bad_cols[col] = ("gradient_missing", [(int(np.argmax(np.abs(fd[:, col]))), col)])
            else:
                ctx.count("none_gradient_with_zero_dependence")
            continue
        g = np.asarray(g)
        if g.shape != (n_out,):
            raise core.HarnessError("jacobian column has shape %s, expected (%d,) in %s" % (g.shape, n_out, desc))
        if np.iscomplexobj(g):
            g = g.real
        rows = L.compare(g.reshape(-1, 1), fd[:, col : col + 1], TOL)
        if rows:
            nonfinite = not np.all(np.isfinite(g))
            sub = "gradient_nonfinite" if nonfinite else (FORWARD if fwd_bad else "gradient_mismatch")
            bad_cols[col] = (sub, [(r, col) for r, _ in rows])
    if not bad_cols:
        if ctx.samples == [] and nz:
            ctx.sample({"circuit": desc, "mode": mode, "x": [float(v) for v in x], "outputs": n_out, "parameters": p, "max_abs_error": float(np.nanmax(np.abs(np.stack([np.zeros(n_out) if g is None else np.real(g) for g in jl], axis=1) - fd)))})
        return
    # determinism: the same AD evaluation a second time must give the same Jacobian
    out2, jl2 = jac(x)
    for a, b in zip(jl, jl2):
        if (a is None) != (b is None) or (a is not None and not np.array_equal(np.asarray(a), np.asarray(b), equal_nan=True)):
            if a is None or b is None or not np.allclose(np.asarray(a), np.asarray(b), rtol=1e-9, atol=1e-12, equal_nan=True):
                raise core.HarnessError("HARNESS-NONDETERMINISM: two AD evaluations of %s [%s] at %s differ" % (desc, mode, list(x)))
    for col, (sub, cells) in sorted(bad_cols.items()):
        sig = _sig_for(circuit, mode, sub, col, info)
        key = tuple(sorted(sig.items()))
        r = cells[0][0]
        ad_col = None if jl[col] is None else np.real(np.asarray(jl[col]))
        detail = ""
        if _SEEN.get(key, 0) < MAX_CASES_PER_SIG or record_all:
            # diagnostic only (never part of the signature): is the AD value at least the derivative of the
            # connector's OWN forward pass?
            try:
                h = 1e-4
                e = np.zeros(p)
                e[col] = h
                own = (np.asarray(fwd(x + e), dtype=float) - np.asarray(fwd(x - e), dtype=float)) / (2 * h)
                detail = "; central difference of the %s forward pass itself: %.9g" % (mode, own[r])
            except Exception as ex:  # pragma: no cover
                detail = "; own-forward difference failed: %r" % (ex,)
        msg = "%s [%s] at x=%s: d %s / d %s(%s): AD=%s, finite differences of the NumPy simulation=%.9g (%d of %d outputs differ; forward value differs from NumPy by %.2e)%s" % (
            desc, mode, [round(float(v), 6) for v in x], names[r], info[col][2], sig["gate"],
            "None" if ad_col is None else "%.9g" % ad_col[r], fd[r, col], len(cells), n_out, fwd_diff, detail,
        )
        case = {
            "family": "circuit", "circuit": circuit, "mode": mode, "x": [float(v) for v in x], "output": names[r], "param": info[col][2],
            "ad": None if ad_col is None else float(ad_col[r]), "fd": float(fd[r, col]), "tolerance": TOL, "oracle": "richardson central differences of the NumPy simulation",
        }
        _report(ctx, sig, case, msg, record_all)


def _jax_grad_scalars(ctx, circuit, pts, oracle, names, info, record_all):
    """jax.grad (eager and jitted) of the scalar outputs at the first point"""
    import jax
    import jax.numpy as jnp

    f = L.jax_function(circuit)
    x = pts[0]
    fd, val, ok = oracle[0]
    if not ok:
        return
    idx = names.index("mean_photon_number")
    for jit in (False, True):
        mode = "jax_grad_jit" if jit else "jax_grad"
        g = jax.grad(lambda v: f(v)[idx])
        if jit:
            g = jax.jit(g)
        try:
            col = np.asarray(g(jnp.asarray(x, dtype=jnp.float64)))
        except Exception as e:
            if _unsupported(e):
                ctx.count("unsupported_cells")
                return
            raise
        ctx.count("jacobians_compared")
        ctx.count("entries_compared", int(col.size))
        bad = L.compare(col.reshape(1, -1), fd[idx : idx + 1, :], TOL)
        for _, c in bad:
            sig = _sig_for(circuit, mode, "gradient_mismatch", c, info)
            _report(ctx, sig, {"family": "circuit", "circuit": circuit, "mode": "jax_eager", "x": [float(v) for v in x]}, "%s [%s]: d mean_photon_number / d %s: AD=%.9g FD=%.9g" % (L.describe(circuit), mode, info[c][2], col[c], fd[idx, c]), record_all)


# ---------------------------------------------------------------------------------------
# permanent


def total_nonzero(fd):
    return bool(np.any(np.abs(fd) > 1e-9))


def _perm_functions():
    import jax
    import jax.numpy as jnp

    jax.config.update("jax_enable_x64", True)
    if "perm" in _STATE:
        return _STATE["perm"]
    from piquasso.jax_extensions.permanent import perm

    def g(re, im, rows, cols):
        v = perm(re + 1j * im, rows, cols)
        return jnp.stack([jnp.real(v), jnp.imag(v)])

    fns = {
        "perm_eager": jax.jacrev(g, argnums=(0, 1)),
        "perm_jit": jax.jit(jax.jacrev(g, argnums=(0, 1))),
        "value": lambda A, rows, cols: complex(perm(jnp.asarray(A), rows, cols)),
        "g": g,
    }
    _STATE["perm"] = fns
    return fns


def _perm_job(ctx, job):
    """quick: jitted gradient (multiplicities traced) for every pair on the generic matrix and, for totals <= 2, on the
    whole matrix catalogue; op-by-op and constant-multiplicity variants for totals <= 2.  thorough: jitted for every
    pair x every catalogue matrix, op-by-op and constant-multiplicity variants for every pair on the generic matrix."""
    n = job["n"]
    mats = L.perm_matrices(n, ctx.seed)
    thorough = job["tier"] == "thorough"
    small = job["tier"] == "small"
    for rows, cols in job["pairs"]:
        total = sum(rows)
        for mname in sorted(mats):
            if mname != "generic" and not thorough and (small or total > 2):
                continue
            _perm_case(ctx, n, mname, rows, cols, "perm_jit")
        if thorough or (total <= 2 and not small) or (small and total == 2 and n == 2):
            _perm_case(ctx, n, "generic", rows, cols, "perm_eager")
            _perm_case(ctx, n, "generic", rows, cols, "perm_jit_const")


def _perm_case(ctx, n, mname, rows, cols, mode, record_all=False):
    from mc import core
    import jax
    import jax.numpy as jnp

    fns = _perm_functions()
    A = L.perm_matrices(n, ctx.seed)[mname]
    r = jnp.asarray(rows, dtype=jnp.uint64)
    c = jnp.asarray(cols, dtype=jnp.uint64)

    def ref(v):
        M = v[: n * n].reshape(n, n) + 1j * v[n * n :].reshape(n, n)
        pv = L.perm_reference(M, rows, cols)
        return np.array([pv.real, pv.imag])

    v0 = np.concatenate([A.real.ravel(), A.imag.ravel()])
    fd, _ = L.richardson(ref, v0)

    def evaluate():
        if mode == "perm_jit_const":
            fn = jax.jit(jax.jacrev(lambda re, im: fns["g"](re, im, jnp.asarray(rows, dtype=jnp.uint64), jnp.asarray(cols, dtype=jnp.uint64)), argnums=(0, 1)))
            Jr, Ji = fn(jnp.asarray(A.real), jnp.asarray(A.imag))
        else:
            Jr, Ji = fns[mode](jnp.asarray(A.real), jnp.asarray(A.imag), r, c)
        return np.concatenate([np.asarray(Jr).reshape(2, -1), np.asarray(Ji).reshape(2, -1)], axis=1)

    J = evaluate()
    ctx.count("jacobians_compared")
    ctx.count("perm_jacobians")
    ctx.count("entries_compared", int(fd.size))
    ctx.count("entries_nonzero", int(np.sum(np.abs(fd) > 1e-9)))
    if np.any(np.abs(fd) > 1e-9):
        ctx.note_distinct((mode, n, mname, list(rows), list(cols)))
    value = fns["value"](A, r, c)
    expected = L.perm_reference(A, rows, cols)
    fwd_bad = abs(value - expected) > 1e-9 * (1 + abs(expected))
    if fwd_bad:
        ctx.count("forward_value_differs[perm]")
    bad = L.compare(J, fd, TOL)
    if not bad:
        if not ctx.samples and total_nonzero(fd):
            ctx.sample({"perm": {"n": n, "matrix": mname, "rows": list(rows), "cols": list(cols)}, "mode": mode, "max_abs_error": float(np.max(np.abs(J - fd)))})
        return
    J2 = evaluate()
    if not np.array_equal(J, J2, equal_nan=True):
        raise core.HarnessError("HARNESS-NONDETERMINISM: perm gradient n=%d rows=%s cols=%s [%s] differs between two evaluations" % (n, rows, cols, mode))
    i, j = bad[0]
    entry = j % (n * n)
    part = "re" if j < n * n else "im"
    sig = {
        "check": "C10", "sub": "perm_gradient_with_forward_mismatch" if fwd_bad else "perm_gradient_mismatch", "mode": mode,
        "multiplicity_class": "zero_row_or_col" if (0 in rows or 0 in cols) else ("repeated" if max(list(rows) + list(cols)) > 1 else "all_ones"),
    }
    msg = "perm n=%d matrix=%s rows=%s cols=%s [%s]: d %s(perm) / d %s(A[%d,%d]) AD=%.9g FD(reference)=%.9g; %d entries differ; forward %s vs reference %s" % (
        n, mname, rows, cols, mode, ("Re", "Im")[i], part, entry // n, entry % n, J[i, j], fd[i, j], len(bad), value, expected,
    )
    _report(ctx, sig, {"family": "perm", "n": n, "matrix": mname, "rows": list(rows), "cols": list(cols), "mode": mode, "ad": float(J[i, j]), "fd": float(fd[i, j])}, msg, record_all)
