"""C17 -- the fermionic simulators agree with each other and with exclusion.

Level-synchronous explicit-state BFS over the two fermionic simulators in lock-step
(`piquasso.fermionic.GaussianSimulator`, `piquasso.fermionic.PureFockSimulator`) together with a
dense Jordan-Wigner reference state (mc/refmodel/fermiref.py).

  state       = (Gaussian state, Fock state or None, reference state vector) reached from one of ALL 2^d
                occupation-number inputs by a sequence of actions; canonical key = rounded covariance matrix
  action      = one instruction of a finite alphabet (see `alphabet`): Interferometer catalogue, Beamsplitter,
                Phaseshifter, Squeezing2, IsingXX on every window of consecutive modes AND on the other ordered
                mode tuples, GaussianHamiltonian(A, B lattice) for the Gaussian simulator
  transition  = the action applied through `Simulator.execute_instructions([instr], initial_state=...)` to every
                live implementation + the reference; every transition is executed and checked, de-duplication
                only prunes the frontier.

A refusal (PiquassoException / NotImplementedError) of one simulator is an unsupported cell; the other
simulator is then compared with the reference alone (leaf).  A transition with a violation is not expanded.
"""

import hashlib
import itertools
import json

LEVEL = "model_checking"

TOL = 1e-9  # default absolute tolerance (all compared quantities are O(1))
DET_TOL = 1e-13  # see _assumptions: Gaussian probabilities are sqrt(det)
PNM_DROP = 2e-8  # shots=None drops outcomes with np.isclose(p, 0) (atol 1e-8)
MAX_RECORDED_PER_SIG = 2

PASSIVE = ("I", "BS", "PS")
CLS = {"I": "Interferometer", "BS": "Beamsplitter", "PS": "Phaseshifter", "S2": "Squeezing2", "XX": "IsingXX",
       "GH": "GaussianHamiltonian"}


# ----------------------------------------------------------------------------------------------
# bounds


def _plan(tier):
    """d -> list with the alphabet used at BFS level 1, 2, ... ("full" / "lean")."""
    if tier == "quick":
        return {1: ["full", "full"], 2: ["full", "full"], 3: ["full", "full"], 4: ["full"]}
    return {
        1: ["full", "full", "full"],
        2: ["full", "full", "full"],
        3: ["full", "full", "lean"],
        4: ["full", "full"],
        5: ["full", "lean"],
    }


def _lowcut_depth(tier):
    return 1 if tier == "quick" else 2


# ----------------------------------------------------------------------------------------------
# alphabet


def _modes_class(modes):
    modes = tuple(modes)
    if len(modes) == 1:
        return "single"
    if all(modes[i + 1] == modes[i] + 1 for i in range(len(modes) - 1)):
        return "window"
    if len(modes) == 2:
        return "descending_adjacent" if modes[1] == modes[0] - 1 else "non_adjacent"
    return "permuted"


_CAT = {}


def _catalogue(seed):
    """Generic values/matrices; VERIF_SEED only changes these."""
    if seed in _CAT:
        return _CAT[seed]
    import numpy as np

    rng = np.random.default_rng([1717, int(seed)])

    def ang():
        return float(np.round(rng.uniform(0.25, 1.35), 4))

    cat = {
        "bs": [(ang(), ang()), (float(np.pi / 4), 0.0)],
        "ps": [ang(), float(np.pi)],
        "s2": [(ang(), ang()), (ang(), 0.0)],
        "xx": [ang(), float(np.pi / 4)],
        "bs_x": (ang(), ang()),
        "s2_x": (ang(), ang()),
        "xx_x": ang(),
        "U": {},
        "gh_scale": ang(),
    }
    for m in range(1, 6):
        z = rng.normal(size=(m, m)) + 1j * rng.normal(size=(m, m))
        q, r = np.linalg.qr(z)
        generic = q * (np.diag(r) / np.abs(np.diag(r)))
        diag = np.diag(np.exp(1j * np.array([ang() * (k + 1) for k in range(m)])))
        U = {"generic": generic, "diag": diag}
        if m >= 2:
            U["perm"] = np.roll(np.identity(m), 1, axis=0).astype(complex)
            z2 = rng.normal(size=(m - 1, m - 1)) + 1j * rng.normal(size=(m - 1, m - 1))
            q2, _ = np.linalg.qr(z2)
            blk = np.zeros((m, m), dtype=complex)
            blk[: m - 1, : m - 1] = q2
            blk[m - 1, m - 1] = np.exp(1j * ang())
            U["blockdiag"] = blk
        cat["U"][m] = U
    _CAT[seed] = cat
    return cat


def _gh_blocks(k, which_a, which_b, scale):
    """(A, B) from a small closed-form lattice on k modes; A Hermitian, B skew-symmetric."""
    import numpy as np

    dvals = [0.3, -0.4, 0.1, 0.5, -0.2]
    A = np.zeros((k, k), dtype=complex)
    B = np.zeros((k, k), dtype=complex)
    if which_a >= 1:
        for i in range(k):
            A[i, i] = dvals[i]
        for i in range(k - 1):
            A[i, i + 1] = A[i + 1, i] = 0.2
    if which_a == 2:
        for i in range(k - 1):
            A[i, i + 1] += 0.1j
            A[i + 1, i] -= 0.1j
        for i in range(k - 2):
            A[i, i + 2] += -0.15j
            A[i + 2, i] -= -0.15j
    if which_b >= 1:
        for i in range(k - 1):
            B[i, i + 1] = 0.3
            B[i + 1, i] = -0.3
        for i in range(k - 2):
            B[i, i + 2] = 0.1
            B[i + 2, i] = -0.1
    if which_b == 2:
        for i in range(k - 1):
            B[i, i + 1] += 0.2j
            B[i + 1, i] -= 0.2j
        for i in range(k - 2):
            B[i, i + 2] += -0.4j
            B[i + 2, i] -= -0.4j
    return A * scale, B * scale


_ALPHA = {}


def alphabet(d, tier, seed):
    """Full alphabet for d modes; the actions flagged lean=True form the reduced alphabet used at the
    deepest level of the larger d (window actions, one generic parameter point per gate kind)."""
    key = (d, tier, seed)
    if key in _ALPHA:
        return _ALPHA[key]
    from mc.refmodel import fermiref as R

    cat = _catalogue(seed)
    thorough = tier != "quick"
    acts = []

    def add(g, modes, p, tag, lean=False):
        acts.append({"g": g, "modes": tuple(int(m) for m in modes), "p": p, "tag": tag, "mc": _modes_class(modes), "lean": lean})

    windows = {m: [tuple(range(s, s + m)) for s in range(d - m + 1)] for m in range(1, d + 1)}
    other_pairs = [t for t in itertools.permutations(range(d), 2) if _modes_class(t) != "window"]
    # Interferometer
    for m in range(1, d + 1):
        names = ["generic", "diag", "perm"] if m >= 2 else ["generic"]
        if thorough and m >= 2:
            names.append("blockdiag")
        for w in windows[m]:
            for nm in names:
                add("I", w, {"matrix": cat["U"][m][nm]}, nm, lean=(nm == "generic" and m >= 2))
    for t in other_pairs:
        add("I", t, {"matrix": cat["U"][2]["generic"]}, "generic")
    if d >= 3:
        for t in [tuple(list(range(1, d)) + [0]), tuple(reversed(range(d)))]:
            add("I", t, {"matrix": cat["U"][d]["generic"]}, "generic")
    # Beamsplitter, Squeezing2, IsingXX
    for w in windows.get(2, []):
        for n, (th, ph) in enumerate(cat["bs"]):
            add("BS", w, {"theta": th, "phi": ph}, "bs%d" % n, lean=(n == 0))
        for n, (r, ph) in enumerate(cat["s2"]):
            add("S2", w, {"r": r, "phi": ph}, "s2%d" % n, lean=(n == 0))
        for n, ph in enumerate(cat["xx"]):
            add("XX", w, {"phi": ph}, "xx%d" % n, lean=(n == 0))
    for t in other_pairs:
        add("BS", t, {"theta": cat["bs_x"][0], "phi": cat["bs_x"][1]}, "bsx")
        add("S2", t, {"r": cat["s2_x"][0], "phi": cat["s2_x"][1]}, "s2x")
        add("XX", t, {"phi": cat["xx_x"]}, "xxx")
    # Phaseshifter
    for m in range(d):
        for n, ph in enumerate(cat["ps"]):
            add("PS", (m,), {"phi": ph}, "ps%d" % n, lean=(n == 0))
    # GaussianHamiltonian
    s = cat["gh_scale"]
    if d == 1:
        combos = [(1, 0)]
    elif thorough:
        combos = [(a, b) for a in range(3) for b in range(3) if (a, b) != (0, 0)]
    else:
        combos = [(2, 0), (0, 1), (2, 2)]
    for a, b in combos:
        A, B = _gh_blocks(d, a, b, s)
        add("GH", tuple(range(d)), {"hamiltonian": R.gaussian_hamiltonian_blocks(A, B)}, "A%dB%d" % (a, b), lean=((a, b) == combos[-1]))
    if d >= 3:
        A, B = _gh_blocks(2, 2, 2, s)
        H2 = R.gaussian_hamiltonian_blocks(A, B)
        for w in windows[2]:
            add("GH", w, {"hamiltonian": H2}, "A2B2")
        add("GH", (d - 1, 0), {"hamiltonian": H2}, "A2B2")
        A, B = _gh_blocks(1, 1, 0, s)
        add("GH", (1,), {"hamiltonian": R.gaussian_hamiltonian_blocks(A, B)}, "A1B0")
    for i, a in enumerate(acts):
        a["i"] = i
    _ALPHA[key] = acts
    return acts


def _lowcut_ok(a):
    return a["g"] in PASSIVE and a["mc"] in ("window", "single")


# ----------------------------------------------------------------------------------------------
# decoding of actions (cases come back from JSON in replay)


def _mat(x):
    import numpy as np

    if isinstance(x, dict) and "re" in x:
        return np.array(x["re"], dtype=float) + 1j * np.array(x["im"], dtype=float)
    return np.array(x, dtype=complex)


def _decode_action(a):
    a = dict(a)
    a["modes"] = tuple(int(m) for m in a["modes"])
    p = dict(a["p"])
    for k in ("matrix", "hamiltonian"):
        if k in p:
            p[k] = _mat(p[k])
    a["p"] = p
    a["mc"] = _modes_class(a["modes"])
    a.pop("i", None)
    return a


def _instruction(a):
    import piquasso as pq
    from piquasso.fermionic import IsingXX, GaussianHamiltonian

    g, p = a["g"], a["p"]
    if g == "I":
        ins = pq.Interferometer(p["matrix"].copy())
    elif g == "BS":
        ins = pq.Beamsplitter(theta=p["theta"], phi=p["phi"])
    elif g == "PS":
        ins = pq.Phaseshifter(phi=p["phi"])
    elif g == "S2":
        ins = pq.Squeezing2(r=p["r"], phi=p["phi"])
    elif g == "XX":
        ins = IsingXX(phi=p["phi"])
    elif g == "GH":
        ins = GaussianHamiltonian(p["hamiltonian"].copy())
    else:  # pragma: no cover
        raise ValueError(g)
    return ins.on_modes(*a["modes"])


_REFU = {}


def _ref_unitaries(d, a, cache_key=None):
    """List of candidate reference unitaries (one, except for IsingXX off the windows where the
    documentation admits two readings)."""
    from mc.refmodel import fermiref as R

    if cache_key is not None and "i" in a:
        ck = (d, cache_key, a["i"])
        if ck in _REFU:
            return _REFU[ck]
    g, p, modes = a["g"], a["p"], a["modes"]
    if g == "I":
        out = [("one_particle_unitary", R.u_interferometer(d, modes, p["matrix"]))]
    elif g == "BS":
        out = [("transfer_matrix", R.u_beamsplitter(d, modes, p["theta"], p["phi"]))]
    elif g == "PS":
        out = [("exp(i phi n)", R.u_phaseshifter(d, modes, p["phi"]))]
    elif g == "S2":
        out = [("pair_creation", R.u_squeezing2(d, modes, p["r"], p["phi"]))]
    elif g == "XX":
        out = [("majorana", R.u_ising_xx(d, modes, p["phi"], "majorana"))]
        if a["mc"] != "window":
            out.append(("qubit", R.u_ising_xx(d, modes, p["phi"], "qubit")))
    elif g == "GH":
        out = [("f_fdag", R.u_gaussian_hamiltonian(d, modes, p["hamiltonian"], "f_fdag"))]
    else:  # pragma: no cover
        raise ValueError(g)
    if cache_key is not None and "i" in a:
        _REFU[(d, cache_key, a["i"])] = out
    return out


# ----------------------------------------------------------------------------------------------
# live states


_SIMS = {}


def _sims(d, cutoff):
    key = (d, cutoff)
    if key not in _SIMS:
        import piquasso as pq
        from piquasso.fermionic import GaussianSimulator, PureFockSimulator

        _SIMS[key] = (GaussianSimulator(d=d), PureFockSimulator(d=d, config=pq.Config(cutoff=cutoff)))
    return _SIMS[key]


class Live:
    __slots__ = ("d", "cutoff", "G", "F", "psi", "obs")

    def __init__(self, d, cutoff, G, F, psi):
        self.d, self.cutoff, self.G, self.F, self.psi = d, cutoff, G, F, psi
        self.obs = None


def _exc_class(e):
    """refusal = the simulator declines the instruction (unsupported cell); InvalidState while executing a
    gate on a state the simulator produced itself means the step made the state unphysical: a crash."""
    from piquasso.api.exceptions import PiquassoException, InvalidState

    if isinstance(e, InvalidState):
        return "crash"
    if isinstance(e, (PiquassoException, NotImplementedError)):
        return "refusal"
    return "crash"


def _apply(sim, state, a):
    """-> (new_state, None) | (None, ("refusal"|"crash", exception))"""
    try:
        res = sim.execute_instructions([_instruction(a)], initial_state=state)
        return res.state, None
    except Exception as e:  # classified by the caller
        return None, (_exc_class(e), e)


def _prob_close(pg, p):
    """tolerance for a Gaussian-simulator probability pg (computed as sqrt(det)) against an exact p"""
    return abs(pg - p) <= TOL or abs(pg * pg - p * p) <= DET_TOL


def _observe(L, raw, direct_calls=False):
    """Evaluate every observable of the live state on the implementations, compare them with each
    other, with the reference and with the state invariants.  Appends raw findings (sub, msg, extra)
    to `raw` (turned into signatures by _reduce); returns obs."""
    import numpy as np
    from mc.refmodel import fermiref as R

    d = L.d
    occs = R.occupations(d)
    obs = {}

    def V(sub, msg, **extra):
        raw.append((sub, msg, extra))

    # --- reference
    covR = R.covariance(L.psi)
    pRmap = R.probabilities(L.psi)
    pR = np.array([pRmap[o] for o in occs])
    obs["covR"], obs["pR"] = covR, pR

    # --- Gaussian
    covG = np.asarray(L.G.covariance_matrix)
    obs["covG"] = covG
    if covG.shape != (2 * d, 2 * d) or np.iscomplexobj(covG) or np.abs(covG + covG.T).max() > TOL:
        V("covariance_not_real_skew", "Gaussian covariance matrix is not real skew-symmetric", sim="gaussian")
    if np.abs(covG - covR).max() > TOL:
        V("cov_gaussian_vs_reference", "max |cov_G - cov_ref| = %.3e" % np.abs(covG - covR).max())
    Gam = np.asarray(L.G.correlation_matrix)
    herm = np.abs(Gam - Gam.conj().T).max()
    ev = np.linalg.eigvalsh((Gam + Gam.conj().T) / 2)
    if herm > TOL or ev.min() < -TOL or ev.max() > 1 + TOL:
        V("correlation_spectrum", "correlation matrix: |G-G^+|=%.2e spectrum in [%.12f, %.12f]" % (herm, ev.min(), ev.max()))
    pG = np.asarray(L.G.fock_probabilities)
    if pG.shape != (2**d,) or np.iscomplexobj(pG):
        V("fock_probabilities_shape", "Gaussian fock_probabilities shape %s dtype %s" % (pG.shape, pG.dtype))
        pG = np.real(np.resize(pG, 2**d))
    obs["pG"] = pG
    if direct_calls:
        direct = np.array([float(L.G.get_particle_detection_probability(np.array(o, dtype=int))) for o in occs])
        if np.abs(direct - pG).max() > TOL:
            V("fock_probabilities_order", "fock_probabilities[i] != get_particle_detection_probability(binary digits of i): %.3e"
              % np.abs(direct - pG).max())
    bad = [i for i in range(2**d) if not _prob_close(pG[i], pR[i])]
    obs["det_err"] = float(np.abs(pG**2 - pR**2).max())
    if bad:
        i = bad[0]
        V("probs_gaussian_vs_reference", "occupation %s: Gaussian %.12g reference %.12g (%d outcomes differ)" % (occs[i], pG[i], pR[i], len(bad)))
    n_small = int(np.sum((pG > 0) & (pG * pG <= DET_TOL)))
    obs["tolG"] = TOL + n_small * DET_TOL**0.5
    if pG.min() < 0 or abs(pG.sum() - 1) > obs["tolG"]:
        V("prob_sum", "Gaussian probabilities: min %.3e sum-1 = %.3e" % (pG.min(), pG.sum() - 1), sim="gaussian")
    obs["oddG"] = float(sum(pG[i] for i, o in enumerate(occs) if sum(o) % 2))
    obs["ndG"] = np.array([sum(pG[i] for i, o in enumerate(occs) if sum(o) == n) for n in range(d + 1)])

    # --- Fock
    if L.F is not None:
        try:
            covF = np.asarray(L.F.covariance_matrix)
        except Exception as e:
            covF = None
            V("fock_covariance_crash", "PureFockState.covariance_matrix raised %s: %s" % (type(e).__name__, str(e)[:200]),
              exc=type(e).__name__, input_class="cutoff<d+1" if L.cutoff < d + 1 else "cutoff=d+1")
        if covF is not None:
            obs["covF"] = covF
            if covF.shape != (2 * d, 2 * d) or np.iscomplexobj(covF) or np.abs(covF + covF.T).max() > TOL:
                V("covariance_not_real_skew", "Fock covariance matrix is not real skew-symmetric", sim="fock")
            if np.abs(covF - covG).max() > TOL:
                V("cov_gaussian_vs_fock", "max |cov_G - cov_F| = %.3e" % np.abs(covF - covG).max())
            if np.abs(covF - covR).max() > TOL:
                V("cov_fock_vs_reference", "max |cov_F - cov_ref| = %.3e" % np.abs(covF - covR).max())
        fmap = L.F.fock_probabilities_map
        keys = [tuple(int(x) for x in k) for k in fmap.keys()]
        expected_keys = [o for o in R.fock_order(d) if sum(o) < L.cutoff]
        if any(x not in (0, 1) for k in keys for x in k):
            V("occupation_not_binary", "fock_probabilities_map has a key outside {0,1}^d: %s" % (keys,))
        if keys != expected_keys:
            V("fock_map_keys", "fock_probabilities_map keys %s, expected (documented order) %s" % (keys[:8], expected_keys[:8]))
        vals = {k: complex(v) for k, v in zip(keys, fmap.values())}
        pF = np.array([vals.get(o, 0.0) for o in occs])
        if np.abs(pF.imag).max() > TOL or pF.real.min() < -TOL:
            V("prob_range", "Fock probabilities not real non-negative: max|Im| %.2e min Re %.2e" % (np.abs(pF.imag).max(), pF.real.min()))
        pF = pF.real
        obs["pF"] = pF
        if abs(pF.sum() - 1) > TOL:
            V("prob_sum", "Fock probabilities sum-1 = %.3e" % (pF.sum() - 1), sim="fock")
        if np.abs(pF - pR).max() > TOL:
            i = int(np.argmax(np.abs(pF - pR)))
            V("probs_fock_vs_reference", "occupation %s: Fock %.12g reference %.12g" % (occs[i], pF[i], pR[i]))
        badGF = [i for i in range(2**d) if not _prob_close(pG[i], pF[i])]
        if badGF:
            i = badGF[0]
            V("probs_gaussian_vs_fock", "occupation %s: Gaussian %.12g Fock %.12g (%d outcomes differ)" % (occs[i], pG[i], pF[i], len(badGF)))
        if direct_calls:
            direct = np.array([float(np.real(L.F.get_particle_detection_probability(np.array(o)))) if sum(o) < L.cutoff else 0.0 for o in occs])
            if np.abs(direct - pF).max() > TOL:
                V("fock_detection_probability", "PureFockState.get_particle_detection_probability != fock_probabilities_map: %.3e" % np.abs(direct - pF).max())
        obs["oddF"] = float(sum(pF[i] for i, o in enumerate(occs) if sum(o) % 2))
        obs["ndF"] = np.array([sum(pF[i] for i, o in enumerate(occs) if sum(o) == n) for n in range(d + 1)])
    L.obs = obs
    return obs


# raw sub -> class.  Only the most fundamental class present in one transition is reported (a covariance
# disagreement implies probability / conservation disagreements, which would multiply signatures).
_AGREE_COV = ("cov_gaussian_vs_fock",)
_REF_COV = ("cov_gaussian_vs_reference", "cov_fock_vs_reference")
_PROBS = ("probs_gaussian_vs_fock", "probs_gaussian_vs_reference", "probs_fock_vs_reference")
_ALWAYS = ("crash", "fock_covariance_crash", "reference_no_reading")
_STATE_LEVEL = ("covariance_not_real_skew", "correlation_spectrum", "fock_probabilities_shape", "fock_probabilities_order",
                "occupation_not_binary", "fock_map_keys", "prob_range", "fock_detection_probability", "prob_sum")


def _reduce(raw, base):
    """raw findings of one transition / one state -> list of (signature, message)."""
    subs = {}
    for sub, msg, extra in raw:
        subs.setdefault(sub, (msg, extra))
    out = []

    def emit(sub, msg, extra, with_gate=True):
        s = {"check": "C17", "sub": sub}
        if with_gate:
            s.update({k: v for k, v in base.items() if k in ("gate", "modes_class")})
        s.update(extra)
        out.append((s, msg))

    for sub in _ALWAYS:
        if sub in subs:
            msg, extra = subs[sub]
            emit(sub, msg, extra, with_gate=(sub != "fock_covariance_crash"))
    if any(s in subs for s in _AGREE_COV):
        f, g = "cov_fock_vs_reference" in subs, "cov_gaussian_vs_reference" in subs
        differs = "both" if (f and g) else "fock" if f else "gaussian" if g else "neither"
        msg, extra = subs["cov_gaussian_vs_fock"]
        msgs = [msg] + [subs[s][0] for s in _REF_COV if s in subs]
        emit("cov_gaussian_vs_fock", "; ".join(msgs), dict(extra, differs_from_reference=differs))
        return out
    if any(s in subs for s in _REF_COV):
        f, g = "cov_fock_vs_reference" in subs, "cov_gaussian_vs_reference" in subs
        sim = "both" if (f and g) else "fock" if f else "gaussian"
        emit("cov_vs_reference", "; ".join(subs[s][0] for s in _REF_COV if s in subs), {"sim": sim})
        return out
    if any(s in subs for s in _PROBS):
        gf, gr, fr = (s in subs for s in _PROBS)
        if gr and not fr:
            odd = "gaussian"
        elif fr and not gr:
            odd = "fock"
        elif gf and not gr and not fr:
            odd = "gaussian_vs_fock_only"
        else:
            odd = "both_vs_reference"
        # covariances agree, probabilities do not: the defect is in the probability interface, not in the gate
        emit("probabilities", "; ".join(subs[s][0] for s in _PROBS if s in subs), {"odd_one_out": odd}, with_gate=False)
        return out
    done = set()
    for sub, msg, extra in raw:
        if sub in _ALWAYS or (sub, extra.get("sim")) in done:
            continue
        done.add((sub, extra.get("sim")))
        emit(sub, msg, extra, with_gate=(sub not in _STATE_LEVEL))
    return out


def _key(L):
    import numpy as np

    cov = np.round(L.obs["covG"], 7) + 0.0
    h = hashlib.sha1(cov.tobytes()).hexdigest()[:20]
    return "%d/%d/%d/%s" % (L.d, L.cutoff, 1 if L.F is not None else 0, h)


def _root(d, cutoff, occ):
    import piquasso as pq
    from mc.refmodel import fermiref as R

    gs, fs = _sims(d, cutoff)
    G = gs.execute_instructions([pq.NumberState(tuple(occ))]).state
    F = fs.execute_instructions([pq.NumberState(tuple(occ))]).state
    return Live(d, cutoff, G, F, R.basis_state(occ))


_ROOT_BASE = {"gate": "NumberState", "modes_class": "root"}


def _transition(par, a, viols, stats=None, cache_key=None):
    """Apply action a to the live state par.  Appends (signature, message) to viols; returns
    (successor Live or None, expandable)."""
    import numpy as np
    from mc.refmodel import fermiref as R

    d = par.d
    gs, fs = _sims(d, par.cutoff)
    base = {"gate": CLS[a["g"]], "modes_class": a["mc"]}
    raw = []

    def V(sub, msg, **extra):
        raw.append((sub, msg, extra))

    def stat(k):
        if stats is not None:
            stats[k] = stats.get(k, 0) + 1

    def done(succ, expandable):
        viols.extend(_reduce(raw, base))
        return succ, expandable

    G, errG = _apply(gs, par.G, a)
    F, errF = (None, None)
    if par.F is not None and a["g"] != "GH":
        F, errF = _apply(fs, par.F, a)
    elif par.F is not None:
        stat("fock_unsupported_GaussianHamiltonian")
    for name, err in (("gaussian", errG), ("fock", errF)):
        if err is None:
            continue
        if err[0] == "refusal":
            stat("unsupported_%s_%s_%s" % (name, a["g"], a["mc"]))
        else:
            V("crash", "%s simulator raised %s: %s" % (name, type(err[1]).__name__, str(err[1])[:300]), sim=name, exc=type(err[1]).__name__)
    if G is None and F is None:
        return done(None, False)
    # reference
    cands = _ref_unitaries(d, a, cache_key)
    chosen = None
    if len(cands) == 1:
        chosen = cands[0]
    else:
        # the documented readings differ (IsingXX off the windows): follow the reading the Gaussian result reproduces
        cov_impl = None
        try:
            cov_impl = np.asarray(G.covariance_matrix) if G is not None else np.asarray(F.covariance_matrix)
        except Exception:
            pass
        if cov_impl is None:
            return done(None, False)
        for nm, U in cands:
            if np.abs(R.covariance(U @ par.psi) - cov_impl).max() <= TOL:
                chosen = (nm, U)
                break
        if chosen is None:
            V("reference_no_reading", "result matches none of the documented readings of the gate (%s)" % ", ".join(n for n, _ in cands))
            return done(None, False)
        stat("reading_%s_%s" % (a["g"], chosen[0]))
    psi = chosen[1] @ par.psi
    if G is None:
        # Fock only (Gaussian refused): leaf comparison with the reference
        stat("fock_only_transitions")
        pR = R.probabilities(psi)
        fm = {tuple(int(x) for x in k): float(np.real(v)) for k, v in F.fock_probabilities_map.items()}
        if max(abs(fm.get(o, 0.0) - p) for o, p in pR.items()) > TOL:
            V("probs_fock_vs_reference", "Fock-only transition: probabilities differ from the reference")
        return done(None, False)
    succ = Live(d, par.cutoff, G, F, psi)
    obs = _observe(succ, raw)
    pobs = par.obs
    # conservation laws, on the implementations' own numbers
    tolG = max(obs["tolG"], pobs["tolG"])
    if abs(obs["oddG"] - pobs["oddG"]) > tolG:
        V("parity_not_conserved", "Gaussian P(odd N): %.12g -> %.12g" % (pobs["oddG"], obs["oddG"]), sim="gaussian")
    if "oddF" in obs and "oddF" in pobs and abs(obs["oddF"] - pobs["oddF"]) > TOL:
        V("parity_not_conserved", "Fock P(odd N): %.12g -> %.12g" % (pobs["oddF"], obs["oddF"]), sim="fock")
    if a["g"] in PASSIVE:
        if np.abs(obs["ndG"] - pobs["ndG"]).max() > tolG:
            V("number_not_conserved", "Gaussian N-distribution %s -> %s" % (pobs["ndG"].tolist(), obs["ndG"].tolist()), sim="gaussian")
        if "ndF" in obs and "ndF" in pobs and np.abs(obs["ndF"] - pobs["ndF"]).max() > TOL:
            V("number_not_conserved", "Fock N-distribution %s -> %s" % (pobs["ndF"].tolist(), obs["ndF"].tolist()), sim="fock")
    # a successor is expanded further when it came from a jointly supported transition, from a
    # GaussianHamiltonian, or from a Gaussian-only parent; a Fock refusal makes it a Gaussian-vs-reference leaf
    expandable = True
    if par.F is not None and F is None and a["g"] != "GH":
        expandable = False
    return done(succ, expandable)


def _pnm_subsets(d):
    subs = []
    if d <= 3:
        for k in range(1, d + 1):
            subs += list(itertools.combinations(range(d), k))
    else:
        subs += [(m,) for m in range(d)]
        subs += [(m, m + 1) for m in range(d - 1)]
        subs += [tuple(range(d)), (0, d - 1), (0, 2, d - 1)]
    if d >= 2:
        subs += [(d - 1, 0)]
    if d >= 3:
        subs += [(2, 0, 1)]
    return subs


def _pnm(L, modes, viols, stats=None):
    """ParticleNumberMeasurement(shots=None) outcome weights of the Fock simulator vs the Gaussian
    reduced-state detection probabilities vs the reference marginal."""
    import numpy as np
    import piquasso as pq
    from mc.refmodel import fermiref as R

    d = L.d
    gs, fs = _sims(d, L.cutoff)

    def V(sub, msg, **extra):
        s = {"check": "C17", "gate": "ParticleNumberMeasurement", "sub": sub}
        s.update(extra)
        viols.append((s, msg))

    ref = R.marginal(R.probabilities(L.psi), modes)
    outcomes = list(itertools.product((0, 1), repeat=len(modes)))
    pg = {}
    try:
        red = L.G.reduced(tuple(modes))
        for o in outcomes:
            pg[o] = float(red.get_particle_detection_probability(np.array(o, dtype=int)))
    except Exception as e:
        if _exc_class(e) != "refusal":
            V("crash", "GaussianState.reduced/detection probability raised %s: %s" % (type(e).__name__, str(e)[:200]), sim="gaussian", exc=type(e).__name__)
        pg = None
    if pg is not None:
        bad = [o for o in outcomes if not _prob_close(pg[o], ref.get(o, 0.0))]
        if bad:
            V("marginal_gaussian_vs_reference", "modes %s outcome %s: reduced-state probability %.12g, reference marginal %.12g"
              % (modes, bad[0], pg[bad[0]], ref.get(bad[0], 0.0)))
    # the real samplers, one shot, every path under harness-owned randomness: the induced law of the
    # sampled occupations must be the reference marginal (the Gaussian sampler is a chain of conditional
    # draws over the mode list AS GIVEN, so non-ascending lists are a case of their own)
    for simname, sim, st in (("gaussian", gs, L.G), ("fock", fs, L.F)):
        if st is not None:
            _sampler_law(simname, sim, st, modes, ref, V, stats)
    if L.F is None:
        return
    try:
        res = fs.execute_instructions([pq.ParticleNumberMeasurement().on_modes(*modes)], initial_state=L.F, shots=None)
    except Exception as e:
        if _exc_class(e) == "refusal":
            if stats is not None:
                stats["unsupported_fock_pnm_shots_none"] = stats.get("unsupported_fock_pnm_shots_none", 0) + 1
        else:
            V("crash", "Fock ParticleNumberMeasurement(shots=None) raised %s: %s" % (type(e).__name__, str(e)[:200]), sim="fock", exc=type(e).__name__)
        return
    w = {}
    for b in res.branches:
        o = tuple(int(x) for x in b.outcome)
        w[o] = w.get(o, 0.0) + float(b.frequency)
    if any(x not in (0, 1) for o in w for x in o) or any(len(o) != len(modes) for o in w):
        V("occupation_not_binary", "PNM outcomes %s" % (sorted(w),))
    for o in outcomes:
        p = ref.get(o, 0.0)
        if o in w:
            if abs(w[o] - p) > TOL:
                V("pnm_weights_fock_vs_reference", "modes %s outcome %s: weight %.12g, reference %.12g" % (modes, o, w[o], p))
                break
            if pg is not None and not _prob_close(pg[o], w[o]):
                V("pnm_weights_fock_vs_gaussian", "modes %s outcome %s: Fock weight %.12g, Gaussian reduced-state probability %.12g" % (modes, o, w[o], pg[o]))
                break
        elif p > PNM_DROP:
            V("pnm_weights_fock_vs_reference", "modes %s outcome %s missing, reference %.12g" % (modes, o, p))
            break


SAMPLER_TOL = 1e-6  # law of the sampler: a chain of <= d clipped ratios of sqrt(det(.)) values (each ~1e-8 near zero)


def _sampler_law(simname, sim, state, modes, ref, V, stats):
    import piquasso as pq
    from mc import core
    from mc.choice import ChoiceController, owned_randomness

    ctl = ChoiceController(max_paths=4096)

    def fn():
        res = sim.execute_instructions([pq.ParticleNumberMeasurement().on_modes(*modes)], initial_state=state, shots=1)
        return tuple(tuple(int(x) if float(x) == int(x) else float(x) for x in smp) for smp in res.samples)

    with owned_randomness(ctl):
        ex = ctl.explore(fn)
    if not ex.complete:
        raise core.HarnessError("C17: HARNESS-CAP sampler exploration cut (%s)" % (ex.cap_reasons,))
    if stats is not None:
        stats["sampler_paths_" + simname] = stats.get("sampler_paths_" + simname, 0) + ex.n_paths
        stats["sampler_laws_" + simname] = stats.get("sampler_laws_" + simname, 0) + 1
    order = "ascending" if list(modes) == sorted(modes) else "permuted"
    law = {}
    for pth in ex.paths:
        if pth.exception is not None:
            e = pth.exception
            if _exc_class(e) == "refusal":
                if stats is not None:
                    stats["unsupported_sampler_" + simname] = stats.get("unsupported_sampler_" + simname, 0) + 1
                return
            V("crash", "%s ParticleNumberMeasurement(shots=1) on modes %s raised %s: %s" % (simname, modes, type(e).__name__, str(e)[:200]),
              sim=simname, exc=type(e).__name__, order=order)
            return
        r = pth.result
        if len(r) != 1 or len(r[0]) != len(modes) or any(x not in (0, 1) for x in r[0]):
            V("sampler_occupation_not_binary", "%s sampler on modes %s returned %r" % (simname, modes, r), sim=simname, order=order)
            return
        law[r[0]] = law.get(r[0], 0.0) + pth.prob
    if abs(sum(law.values()) - 1.0) > SAMPLER_TOL:
        raise core.HarnessError("C17: sampler path probabilities sum to %r" % (sum(law.values()),))
    for o in sorted(set(law) | set(ref)):
        if abs(law.get(o, 0.0) - ref.get(o, 0.0)) > SAMPLER_TOL:
            V("sampler_law_vs_reference", "%s sampler, modes %s: P(sample = %s) = %.12g over all %d paths, reference marginal %.12g"
              % (simname, modes, o, law.get(o, 0.0), ex.n_paths, ref.get(o, 0.0)), sim=simname, order=order)
            return


# ----------------------------------------------------------------------------------------------
# from-scratch evaluation of one case (used for the mandatory second run and for replay)


def _check_root(L, viols):
    raw = []
    _observe(L, raw, direct_calls=True)
    viols.extend(_reduce(raw, _ROOT_BASE))


def _rebuild(d, cutoff, root, path):
    """Live state reached by `path` (list of decoded actions) from the root; no violations are collected
    (every prefix transition was checked when it was first traversed)."""
    L = _root(d, cutoff, root)
    _observe(L, [])
    for a in path:
        L, _ = _transition(L, a, [])
        if L is None:
            from mc import core

            raise core.HarnessError("C17: path prefix could not be rebuilt (refused / crashed): %r" % (a["g"],))
    return L


def evaluate_case(case):
    """-> sorted list of (signature-json, signature, message)"""
    d, cutoff = int(case["d"]), int(case["cutoff"])
    root = tuple(int(x) for x in case["root"])
    path = [_decode_action(a) for a in case.get("path", [])]
    viols = []
    if case.get("action") is None and case.get("pnm") is None and not path:
        _check_root(_root(d, cutoff, root), viols)
    else:
        L = _rebuild(d, cutoff, root, path)
        if case.get("pnm") is not None:
            _pnm(L, tuple(int(m) for m in case["pnm"]), viols)
        elif case.get("action") is not None:
            _transition(L, _decode_action(case["action"]), viols)
        else:
            raw = []
            _observe(L, raw, direct_calls=True)
            viols.extend(_reduce([r for r in raw if r[0] in ("fock_probabilities_order", "fock_detection_probability")], {}))
    out = []
    for s, m in viols:
        out.append((json.dumps(s, sort_keys=True), s, m))
    out.sort(key=lambda t: t[0])
    return out


def replay(ctx, case, signature):
    for _, s, m in evaluate_case(case):
        ctx.violation(s, case, m)


# ----------------------------------------------------------------------------------------------
# worker


def _case(d, cutoff, root, path, action=None, pnm=None):
    def enc(a):
        return {"g": a["g"], "modes": list(a["modes"]), "p": a["p"], "tag": a["tag"]}

    return {"d": d, "cutoff": cutoff, "root": list(root), "path": [enc(a) for a in path],
            "action": enc(action) if action is not None else None, "pnm": list(pnm) if pnm is not None else None}


class _Reporter:
    def __init__(self, ctx):
        self.ctx = ctx
        self.n = {}

    def report(self, viols, case):
        """second run from scratch, then record (capped per signature)"""
        if not viols:
            return
        from mc import core

        case = core.jsonable(case)
        first = sorted({json.dumps(s, sort_keys=True) for s, _ in viols})
        second = sorted({k for k, _, _ in evaluate_case(case)})
        if first != second:
            raise core.HarnessError("HARNESS-NONDETERMINISM C17: first run %s, second run %s, case %s" % (first, second, json.dumps(case)[:600]))
        seen = set()
        for s, m in viols:
            k = json.dumps(s, sort_keys=True)
            if k in seen:
                continue
            seen.add(k)
            self.n[k] = self.n.get(k, 0) + 1
            self.ctx.count("violating_observations")
            if self.n[k] <= MAX_RECORDED_PER_SIG:
                self.ctx.violation(s, case, m)
            else:
                self.ctx.count("violations_not_recorded_same_signature")


def _hard(viols):
    """violations that make the successor untrustworthy for further expansion"""
    return [v for v in viols if v[0]["sub"] != "fock_covariance_crash"]


def _number_state_keys(d, cutoff):
    """canonical keys of the 2^d number states (with both implementations live)"""
    import numpy as np
    from mc.refmodel import fermiref as R

    out = {}
    for occ in R.occupations(d):
        cov = np.round(R.covariance(R.basis_state(occ)), 7) + 0.0
        out["%d/%d/%d/%s" % (d, cutoff, 1, hashlib.sha1(cov.tobytes()).hexdigest()[:20])] = occ
    return out


def _levels(tier, d, cutoff):
    plan = _plan(tier)[d]
    return plan if cutoff == d + 1 else plan[: _lowcut_depth(tier)]


def work(ctx, item):
    """item = (d, cutoff, root, part, nparts): BFS below one root; at level 1 only the actions with
    index % nparts == part are taken (the root itself is checked by part 0)."""
    import numpy as np
    from mc import core

    d, cutoff, root, part, nparts = item
    root = tuple(root)
    rep = _Reporter(ctx)
    stats = {}
    max_det = 0.0
    ckey = (ctx.tier, ctx.seed)
    acts = alphabet(d, ctx.tier, ctx.seed)
    levels = _levels(ctx.tier, d, cutoff)
    full = cutoff == d + 1
    number_keys = _number_state_keys(d, cutoff)

    L0 = _root(d, cutoff, root)
    viols = []
    _check_root(L0, viols)
    if part == 0:
        ctx.count("root_states_checked")
        ctx.note_distinct("state:" + _key(L0))
        rep.report(viols, _case(d, cutoff, root, []))
    if _hard(viols):
        return
    seen = {_key(L0)}
    frontier = [(L0, ())]
    for level, mode in enumerate(levels, 1):
        is_last = level == len(levels)
        nxt = []
        for L, pidx in frontier:
            path = [acts[i] for i in pidx]
            if pidx:
                # interfaces that are only exercised on expanded states
                raw = []
                _observe(L, raw, direct_calls=True)
                viols = _reduce([r for r in raw if r[0] in ("fock_probabilities_order", "fock_detection_probability")], {})
                rep.report(viols, _case(d, cutoff, root, path))
            snap = (np.array(L.G._D).copy(), np.array(L.G._E).copy(), None if L.F is None else np.array(L.F._state_vector).copy())
            if pidx or part == 0:
                for modes in _pnm_subsets(d):
                    viols = []
                    _pnm(L, modes, viols, stats)
                    ctx.count("pnm_distributions_checked")
                    rep.report(viols, _case(d, cutoff, root, path, pnm=modes))
            for a in acts:
                if not full and not _lowcut_ok(a):
                    continue
                if mode == "lean" and not a["lean"]:
                    continue
                if level == 1 and a["i"] % nparts != part:
                    continue
                viols = []
                S, expandable = _transition(L, a, viols, stats, ckey)
                ctx.count("transitions")
                ctx.count("transitions_d%d" % d)
                ctx.count("transitions_%s" % a["g"])
                ctx.count("transitions_modes_%s" % a["mc"])
                if L.F is None or (S is not None and S.F is None):
                    ctx.count("transitions_gaussian_vs_reference_only")
                elif S is not None:
                    ctx.count("transitions_both_simulators")
                if S is not None:
                    ctx.count("reference_comparisons")
                    max_det = max(max_det, S.obs["det_err"])
                rep.report(viols, _case(d, cutoff, root, path, action=a))
                if S is None or _hard(viols):
                    continue
                k = _key(S)
                ctx.note_distinct("state:" + k)
                if not expandable:
                    ctx.count("leaf_successors_not_expanded")
                elif not is_last:
                    if k in seen:
                        ctx.count("frontier_duplicates_pruned")
                    elif k in number_keys:
                        # a number state: expanded (deeper, with a superset alphabet) as a root of its own
                        ctx.count("frontier_number_states_pruned")
                    else:
                        seen.add(k)
                        nxt.append((S, pidx + (a["i"],)))
                if len(ctx.samples) < 1 and a["g"] == "S2" and L.F is not None and len(pidx) >= 1 and d >= 2:
                    ctx.sample({"d": d, "root": list(root), "path": ["%s%s" % (CLS[x["g"]], list(x["modes"])) for x in path + [a]],
                                "covariance_row0": np.round(S.obs["covG"][0], 6).tolist(),
                                "probabilities_binary_order": np.round(S.obs["pG"], 6).tolist()})
            # the parent must not have been modified by execute_instructions(initial_state=parent)
            if not (np.array_equal(snap[0], np.array(L.G._D)) and np.array_equal(snap[1], np.array(L.G._E))
                    and (snap[2] is None or np.array_equal(snap[2], np.array(L.F._state_vector)))):
                raise core.HarnessError("C17: the parent state was modified by execute_instructions(initial_state=...); "
                                        "the exploration below it is not trustworthy")
            ctx.count("states_expanded")
            ctx.counters["max_depth"] = max(ctx.counters.get("max_depth", 0), level)
        frontier = nxt
    for k, n in stats.items():
        ctx.count(k, n)
    ctx.extra["max_gaussian_det_abs_err"] = max_det


# ----------------------------------------------------------------------------------------------
# parent


def _assumptions(ctx):
    ctx.assume("Fock simulator runs with cutoff = d+1 (the whole 2^d-dimensional space) in the main exploration; "
               "the 'lowcut' cells run number-conserving programs (passive gates on windows) at cutoff = N+1")
    ctx.assume("covariance matrices are compared in the order the implementations use (x_1,p_1,...,x_d,p_d; "
               "piquasso.fermionic._utils.get_majorana_operators), not the (x..,p..) order of the package docstring")
    ctx.assume("reference conventions where the documentation is ambiguous: Interferometer/Beamsplitter matrix = one-particle "
               "unitary (transfer matrix of the docstring; the operator formula exp(theta e^{i phi} a_i^+ a_j - h.c.) of the "
               "Beamsplitter docstring generates its transpose and is not used); Squeezing2 = exp((conj(z)(f_i^+ f_j^+)^+ - z f_i^+ f_j^+)/2), "
               "the unitary reading that reproduces the documented action on |00>, |11>; GaussianHamiltonian: "
               "f = [f_1..f_d, f_1^+..f_d^+] in 'H^ = f H f^+' as in fermionic/_utils.get_fermionic_hamiltonian")
    ctx.assume("IsingXX on mode tuples other than (i, i+1): the documented forms exp(i phi X(x)X) (Pauli, no Jordan-Wigner string) and "
               "-i m_2 m_3 (Majorana) differ; the reference follows whichever the Gaussian simulator reproduces, the two simulators "
               "must still agree with each other")
    ctx.assume("tolerance 1e-9 absolute everywhere, except Gaussian detection probabilities, which the implementation computes as "
               "sqrt(det(.)): they pass if |p-q| <= 1e-9 or |p^2-q^2| <= 1e-13 (a zero probability carries sqrt(eps_det)); "
               "the largest |p^2-q^2| observed is reported as max_gaussian_det_abs_err")
    ctx.assume("shots=None drops outcomes with np.isclose(p, 0): a missing outcome is accepted iff its reference probability <= 2e-8")
    ctx.assume("GaussianSimulator refuses ParticleNumberMeasurement with shots=None (unsupported cell); its reduced-state detection "
               "probabilities (what its sampler uses) are compared with the Fock simulator's shots=None weights instead")
    ctx.assume("samplers: ParticleNumberMeasurement(shots=1) of both simulators is executed on every path of its random draws "
               "(harness-owned Config.rng / Config._random); the induced law must equal the reference marginal within 1e-6 "
               "(the Gaussian sampler chains <= d clipped ratios of sqrt(det) values)")
    ctx.assume("only the most fundamental disagreement of a transition is reported (covariance G-vs-F, then covariance vs reference, "
               "then probabilities, then invariants); a transition with a violation is not expanded")


def _nparts(tier, d, cutoff):
    if cutoff != d + 1:
        return 1
    if tier == "quick":
        return {1: 1, 2: 1, 3: 4, 4: 2}.get(d, 1)
    return {1: 1, 2: 2, 3: 8, 4: 8, 5: 6}.get(d, 1)


def run(ctx, builddir):
    from mc import core
    from mc.refmodel import fermiref as R

    try:
        R.self_test()
    except AssertionError as e:  # pragma: no cover
        raise core.HarnessError("C17: reference model self-test failed: %r" % (e,))
    _assumptions(ctx)
    plan = _plan(ctx.tier)
    only = getattr(ctx, "only", None)
    if only:
        plan = {d: v for d, v in plan.items() if "d%d" % d in only.split(",")}
    lowdepth = _lowcut_depth(ctx.tier)
    ctx.rule = (
        "BFS below each of ALL 2^d NumberState inputs for every d in the bound (plus the same inputs at cutoff N+1 for "
        "number-conserving programs); in every state every action of the level's alphabet is executed on both simulators "
        "and on the Jordan-Wigner reference and all oracles are evaluated; states are de-duplicated (frontier pruning only) by "
        "the rounded (1e-7) covariance matrix + d + cutoff + live implementations; successors that are number states are "
        "pruned because they are roots of their own; non-trivial = every state (each exercises covariance, 2^d detection "
        "probabilities, parity/number laws)"
    )
    items = []
    for d in sorted(plan):
        for occ in R.occupations(d):
            n = _nparts(ctx.tier, d, d + 1)
            for part in range(n):
                items.append((d, d + 1, tuple(occ), part, n))
        for occ in R.occupations(d):
            if sum(occ) + 1 < d + 1:
                items.append((d, sum(occ) + 1, tuple(occ), 0, 1))
    # expensive items first (load balance at the tail); deterministic order
    items.sort(key=lambda it: (-(it[0] if it[1] == it[0] + 1 else 0), it))
    alphabet_sizes = {}
    for d in plan:
        acts = alphabet(d, ctx.tier, ctx.seed)
        alphabet_sizes["alphabet_d%d" % d] = len(acts)
        alphabet_sizes["alphabet_lean_d%d" % d] = sum(1 for a in acts if a["lean"])
    core.pmap(ctx, "mc.checks.c17", "work", items, builddir)
    c = ctx.counters
    cov = {
        "states": max(1, len(ctx.distinct)),
        "transitions": c.get("transitions", 0),
        "traces_validated_against_impl": c.get("reference_comparisons", 0),
        "max_depth": c.get("max_depth", 0),
        "states_expanded": c.get("states_expanded", 0),
        "unsupported_cells": sum(n for k, n in c.items() if k.startswith("unsupported_")),
        "explanation": "states = distinct canonical (rounded covariance, d, cutoff, live implementations) states reached, "
        "including leaves (distinct over the whole run); states_expanded = states in which the whole alphabet was applied "
        "(de-duplicated per sub-exploration = per root and first-action class); transitions = instruction applications "
        "executed on the real simulators and checked (both simulators + reference, or Gaussian simulator + reference "
        "where the Fock simulator refuses / for GaussianHamiltonian); traces_validated_against_impl = transitions after "
        "which the implementations' covariance matrix and all 2^d probabilities were compared with the Jordan-Wigner "
        "reference state that followed the same path",
    }
    cov.update(alphabet_sizes)
    cov["bounds"] = {"levels_by_d": {str(d): v for d, v in plan.items()}, "lowcut_depth": lowdepth, "tier": ctx.tier}
    return cov
