"""C16 -- relabelling modes relabels the result; disjoint gates commute.

Explicit-state breadth-first search over instruction sequences on each simulator (GaussianSimulator, PureFockSimulator, FockSimulator,
PassiveSimulator, fermionic GaussianSimulator / PureFockSimulator) with d! lock-step TRACKS: track pi holds the live state of the program
in which every mode index m was replaced by pi[m] (root occupation tuples / moments permuted accordingly).  A transition applies the
action a to the identity track and pi(a) to track pi, each through `Simulator.execute_instructions([instr], initial_state=...)`.

(a) relabelling, on EVERY transition and EVERY permutation pi of the d labels: the observables of track pi pulled back through pi
    (Fock amplitudes / density matrices through the occupation-tuple dictionary, Gaussian mean, C, G and the passive transmission matrix
    through index arrays, fermionic covariance through Majorana index pairs, probability tables through their keys) equal those of the
    identity track.  In every new state up to the box's measurement depth: shots=None ParticleNumberMeasurement on every ordered mode
    subset M (track pi measures pi(M)) gives the same {outcome tuple -> weight} map and correspondingly permuted branch states; Gaussian
    homodyne / heterodyne / general-dyne on M with a harness-owned Config.rng receives the same (mean, covariance) of the outcome law and
    leaves correspondingly permuted conditional states.  Root preparations are additionally relabelled by `.on_modes(pi)` with
    unchanged parameters (sub 'prep_modes').
(b) commutation, in every explored state up to the box's commutation depth and for EVERY unordered pair {a, b} of alphabet actions with
    disjoint mode supports (mode tuples in any order): both orders are executed and compared: on all components for the Gaussian, passive
    and fermionic Gaussian simulators and for number-conserving pairs on the Fock simulators, on the total-photon-number sectors < E
    (mc.lockstep.Exactness, min over both orders) for the other pairs on the Fock simulators.

(c) sampling path (fam "samp"; PassiveSimulator, PureFockSimulator, FockSimulator, fermionic GaussianSimulator / PureFockSimulator): DETERMINISTIC
    circuits -- a number state with pairwise different occupations (fermionic: every arrangement of 1 / d-1 particles) followed by a permutation
    interferometer on all modes / on an ordered mode subset, so that exactly one outcome is possible and is known from a two-line reference
    (cross-validated against mc.refmodel.passiveref / fermiref at start-up) -- are executed with INTEGER shots for every relabelling pi and
    ParticleNumberMeasurement on EVERY ordered mode tuple M (all modes in every order, every subset in every order): `Result.samples` must be
    exactly shots copies of the tuple (n_m for m in M), whatever the seed stream (two seed_sequence values, fresh simulator per run).

An instruction that one track refuses (PiquassoException) while another executes it is counted (asymmetric_refusal), a non-piquasso
exception raised only by a relabelled / reordered program is reported (sub relabel_crash).
"""

import itertools
import json

LEVEL = "model_checking"
TOL = 1e-9
PNM_DROP = 2e-8  # shots=None drops outcomes with np.isclose(p, 0)
MAX_RECORDED_PER_SIG = 2
SAMP_KINDS = ("passive", "purefock", "fock", "fgauss", "ffock")
SIM_CLASS = {"gaussian": "GaussianSimulator", "purefock": "PureFockSimulator", "fock": "FockSimulator", "passive": "PassiveSimulator",
             "fgauss": "fermionic.GaussianSimulator", "ffock": "fermionic.PureFockSimulator"}


# ---------------------------------------------------------------------------------------
# bounds


def _boxes(tier):
    """kind, d, cutoff, hbar, depth, level, roots, meas (depth up to which measurement maps are compared), comm (depth up to which all
    disjoint pairs are executed in both orders; -1 = never), chunks"""
    B = []

    def box(**kw):
        kw.setdefault("level", "quick")
        kw.setdefault("roots", "all")
        kw.setdefault("chunks", 1)
        kw.setdefault("fam", "bos")
        B.append(kw)

    if tier == "quick":
        # sized for <= ~4 CPU-minutes in total
        box(kind="gaussian", d=1, cutoff=3, hbar=2.0, depth=2, meas=-1, comm=-1)
        box(kind="gaussian", d=2, cutoff=3, hbar=0.5, depth=2, meas=1, comm=1, chunks=2)
        box(kind="gaussian", d=3, cutoff=2, hbar=3.7, depth=1, meas=0, comm=0, roots=["vac", "mixed"], chunks=2)
        box(kind="gaussian", d=4, cutoff=2, hbar=2.0, depth=1, meas=-1, comm=-1, roots=["mixed"], chunks=4)
        for kind in ("purefock", "fock", "passive"):
            box(kind=kind, d=2, cutoff=3, hbar=2.0, depth=2, meas=1, comm=1, roots=["n11", "sup", "mix"])
            box(kind=kind, d=2, cutoff=3, hbar=2.0, depth=1, meas=1, comm=0, roots=["n00", "n10", "n02"])
            box(kind=kind, d=2, cutoff=5 if kind != "fock" else 4, hbar=1.0, depth=1, meas=1, comm=1, roots="vac+1")
            box(kind=kind, d=3, cutoff=3, hbar=2.0, depth=1, meas=0, comm=0, roots=["n110", "n200", "sup", "mix"], chunks=2)
        box(kind="purefock", d=4, cutoff=3, hbar=2.0, depth=1, meas=-1, comm=-1, roots=["n0110"], chunks=4)
        box(fam="fermi", d=2, depth=2, meas=1, comm=1)
        box(fam="fermi", d=3, depth=1, meas=1, comm=1)
        for kind in SAMP_KINDS:  # one item per simulator: the numba / import warm-up of a simulator is paid once
            box(fam="samp", kind=kind, d=3, ds=(2, 3), depth=1, meas=0, comm=-1)
    else:
        for h, c in ((0.5, 2), (2.0, 4)):
            box(kind="gaussian", d=1, cutoff=c, hbar=h, depth=3, meas=-1, comm=-1, level="thorough")
        for h, c in ((0.5, 3), (3.7, 2)):
            box(kind="gaussian", d=2, cutoff=c, hbar=h, depth=2, meas=1, comm=1, level="thorough", chunks=2)
        box(kind="gaussian", d=2, cutoff=2, hbar=1.0, depth=2, meas=-1, comm=2, roots=["mixed"], chunks=6)
        box(kind="gaussian", d=3, cutoff=2, hbar=3.7, depth=2, meas=1, comm=1, roots=["vac", "mixed"], chunks=12)
        box(kind="gaussian", d=3, cutoff=3, hbar=1.0, depth=1, meas=1, comm=1, level="thorough", roots=["thermal"], chunks=6)
        box(kind="gaussian", d=4, cutoff=2, hbar=2.0, depth=1, meas=0, comm=0, chunks=8)
        for kind in ("purefock", "fock", "passive"):
            for c in (1, 2, 3, 4, 5):
                box(kind=kind, d=2, cutoff=c, hbar=(2.0, 1.0)[c % 2], depth=2 if c <= 3 else 1, meas=1, comm=1 if c <= 3 else 0,
                    level="thorough" if c <= 2 else "quick", roots="all" if c <= 3 else "vac+1", chunks=2)
            if kind != "fock":
                box(kind=kind, d=2, cutoff=3, hbar=0.5, depth=2, meas=-1, comm=2, roots=["n11"], chunks=8)
            box(kind=kind, d=3, cutoff=2, hbar=2.0, depth=2 if kind == "purefock" else 1, meas=1, comm=0, roots="vac+1", chunks=8 if kind == "purefock" else 2)
            box(kind=kind, d=3, cutoff=3, hbar=2.0, depth=1, meas=1, comm=0, chunks=2)
            box(kind=kind, d=3, cutoff=3, hbar=1.0, depth=1, meas=-1, comm=1, roots=["n110"], chunks=16)
            box(kind=kind, d=3, cutoff=4, hbar=2.0, depth=1, meas=1, comm=0, roots="vac+1", chunks=2)
            box(kind=kind, d=4, cutoff=3, hbar=2.0, depth=1, meas=0, comm=0, roots=["n0110", "sup", "mix"], chunks=8)
        box(fam="fermi", d=2, depth=3, meas=2, comm=2)
        box(fam="fermi", d=3, depth=2, meas=2, comm=1)
        box(fam="fermi", d=4, depth=1, meas=1, comm=0)
        for kind in SAMP_KINDS:
            box(fam="samp", kind=kind, d=3, ds=(2, 3), depth=1, meas=0, comm=-1)
            box(fam="samp", kind=kind, d=4, ds=(4,), depth=1, meas=0, comm=-1)
    return B


def _items(tier, seed):
    from mc.checks import c08

    items = []
    for bi, bx in enumerate(_boxes(tier)):
        if bx["fam"] == "bos":
            for rn in c08._root_names(bx, seed):
                for ch in range(bx["chunks"]):
                    it = dict(bx)
                    it.update(root=rn, chunk=ch, bi=bi)
                    items.append(it)
        elif bx["fam"] == "samp":
            it = dict(bx)
            it.update(root="samp", bi=bi, level="-", hbar=2.0, cutoff=None, tier=tier)
            items.append(it)
        else:
            d = bx["d"]
            for occ in itertools.product((0, 1), repeat=d):
                it = dict(bx)
                it.update(root=list(occ), cutoff=d + 1, bi=bi, kind="fermi")
                items.append(it)
    return items


def _cost(it):
    from math import factorial

    d = it["d"]
    if it.get("fam") == "samp":
        return 400 * factorial(d) ** 2
    n = {1: 14, 2: 50, 3: 110, 4: 300}.get(d, 300)
    return factorial(d) * n ** it["depth"] / it.get("chunks", 1) + (n * n * n ** max(it["comm"], 0) if it["comm"] >= 0 else 0)


# ---------------------------------------------------------------------------------------
# run


def run(ctx, builddir):
    from mc import core

    items = _items(ctx.tier, ctx.seed)
    only = getattr(ctx, "only", None)
    if only:
        for t in only.split(","):
            if t in ("gaussian", "purefock", "fock", "passive", "fermi", "fgauss", "ffock"):
                items = [it for it in items if it["kind"] == t]
            elif t in ("samp", "bos"):
                items = [it for it in items if it["fam"] == t or (t == "bos" and it["fam"] == "fermi")]
            elif t.startswith("d"):
                items = [it for it in items if it["d"] == int(t[1:])]
            elif t.startswith("c"):
                items = [it for it in items if it.get("cutoff") == int(t[1:])]
            elif t.startswith("D"):
                for it in items:
                    it["depth"] = min(it["depth"], int(t[1:]))
        ctx.exhaustive = False
    items.sort(key=lambda it: -_cost(it))
    ctx.rule = (
        "per box (simulator, d, cutoff, hbar, depth): every root (Gaussian: vacuum, thermal, generic mixed covariance + mean; Fock family: number "
        "states with <= 2 photons, a superposition / mixture; fermionic: all 2^d number states), every instruction sequence up to the depth over "
        "the full alphabet (every gate kind on every ORDERED mode tuple); for each such program ALL d! relabellings are executed in lock-step; "
        "in every state up to the commutation depth every unordered pair of alphabet actions with disjoint supports is executed in both orders; "
        "sampling path: per simulator and d every root x every permutation gate of the box x every relabelling x every ordered measured mode tuple x (shots, seed); "
        "a case = (program, permutation) or (state, pair) or (state, measured mode tuple, permutation); distinct = canonical hash of the identity "
        "track's state + configuration (every distinct state is the target of d! compared executions)"
    )
    ctx.assume("tolerance 1e-9 (abs, rel to max(1,|x|)) for every comparison; Fock simulators: pairs that are not both number-conserving are compared only "
               "on total-photon-number sectors < E of mc.lockstep.Exactness (min over the two orders), roots other than number states only for conserving pairs")
    ctx.assume("shots=None outcome maps: an outcome missing in one map is accepted iff its weight in the other is <= 2e-8 (np.isclose filter of the library)")
    ctx.assume("relabelled roots: per-mode parameter tuples (occupation numbers, mean photon numbers, mean, covariance) are permuted and the preparation stays on all "
               "modes; the variant that keeps the tuple and relabels the preparation with on_modes(pi) is checked at the roots only (sub prep_modes)")
    ctx.assume("fermionic PureFockSimulator: amplitudes change sign under relabelling (ordering convention of the Fock basis), so probability tables and "
               "outcome maps are compared, not amplitudes; fermionic commutation is asserted on the Gaussian simulator (always) and for passive pairs on the Fock simulator")
    if ctx.tier == "quick":
        ctx.assume("quick tier is sized for <= ~4 CPU-minutes: depth 2 only at d<=2, d=3 and d=4 at depth 1 (d=4: relabelling only), commutation in the states of depth <= 1 at "
                   "d=2 and in the roots at d=3, fermionic d<=3; the thorough tier (measured 61 CPU-minutes) carries the deeper boxes and all cutoffs 1..5")
    ctx.assume("general-dyne measurements: Config.rng is replaced by a lattice generator; compared are the (mean, covariance) the sampler is called with and the "
               "conditional states of the lattice outcomes")
    ctx.assume("sampling path (integer shots): only deterministic circuits (number state + permutation interferometer; reference n'[m] = n[p] for the matrix entry "
               "T[m, p] = 1, cross-validated against passiveref.dilation_table and fermiref.u_interferometer at start-up) so that Result.samples is independent of the "
               "seed stream; seed_sequence in {1 + VERIF_SEED, 77 + VERIF_SEED}, shots 3 (every ordered tuple) and 1 (every order of all modes); FockSimulator roots are "
               "DensityMatrix(ket=n, bra=n); fermionic PureFockSimulator: the permutation gate is written as the equivalent d x d matrix on modes (0..d-1), "
               "because that simulator refuses non-consecutive mode tuples")
    _samp_selftest()
    core.pmap(ctx, "mc.checks.c16", "work", items, builddir)
    c = ctx.counters
    if not only:
        for k in ("relabel_compared", "commute_pairs_compared", "outcome_maps_compared") + tuple("sample_lists_compared/" + k for k in SAMP_KINDS):
            if c.get(k, 0) < 10:
                raise core.HarnessError("HARNESS-VACUOUS C16: counter %s = %d" % (k, c.get(k, 0)))
    boxes = {}
    for it in items:
        if it["fam"] == "samp":
            boxes.setdefault("sampling path (integer shots, deterministic circuits) %s" % it["kind"], set()).update(
                "d=%d roots=%s gates=%d relabellings=all measured=every ordered tuple" % (d, _samp_roots(it["kind"], d, it["tier"]), len(_samp_gates(d))) for d in it["ds"])
            continue
        k = "%s d=%d cutoff=%s hbar=%s depth=%d alphabet=%s meas<=%d comm<=%d" % (it["kind"], it["d"], it.get("cutoff"), it.get("hbar"), it["depth"], it["level"], it["meas"], it["comm"])
        boxes.setdefault(k, set()).add(it["root"] if isinstance(it["root"], str) else "".join(map(str, it["root"])))
    return {
        "states": max(1, len(ctx.distinct)),
        "transitions": c.get("transitions", 0),
        "traces_validated_against_impl": c.get("relabel_compared", 0) + c.get("commute_pairs_compared", 0) + c.get("outcome_maps_compared", 0) + c.get("sample_lists_compared", 0),
        "sample_lists_compared": c.get("sample_lists_compared", 0),
        "sample_lists_compared_per_simulator": {k.split("/", 1)[1]: v for k, v in sorted(c.items()) if k.startswith("sample_lists_compared/")},
        "max_depth": c.get("max_depth", 0),
        "relabelled_executions_compared": c.get("relabel_compared", 0),
        "commuting_pairs_compared": c.get("commute_pairs_compared", 0),
        "outcome_maps_compared": c.get("outcome_maps_compared", 0),
        "branch_states_compared": c.get("branch_states_compared", 0),
        "unsupported_cells": c.get("cells/unsupported", 0),
        "boxes": {k: sorted(v) for k, v in sorted(boxes.items())},
        "explanation": "state = distinct canonical state of the identity track (+ configuration), merged over workers by hash; transition = one alphabet "
        "action applied to the identity track (each is followed by d!-1 relabelled executions); traces_validated = relabelled executions compared + "
        "pairs executed in both orders and compared + outcome maps compared + sample lists (integer shots, deterministic circuits) compared with the reference",
    }


# ---------------------------------------------------------------------------------------
# reporting


class _Rep:
    def __init__(self, ctx, base, replaying=False):
        self.ctx, self.base, self.replaying = ctx, dict(base), replaying
        self.n = ctx.__dict__.setdefault("_c16_sig_seen", {})

    def report(self, sig, case_extra, msg):
        from mc import core

        case = dict(self.base)
        case.update(case_extra)
        sig = dict(sig, check="C16", simulator=SIM_CLASS[case["kind"]])
        text = "%s %s: %s [%s]" % (sig["simulator"], sig["sub"], msg, _describe(case))
        if self.replaying:
            self.ctx.violation(sig, case, text)
            return
        k = json.dumps(sig, sort_keys=True)
        self.n[k] = self.n.get(k, 0) + 1
        self.ctx.count("violating_cases")
        if self.n[k] > MAX_RECORDED_PER_SIG:
            return
        probe = core.Check(self.ctx.prop, self.ctx.tier, self.ctx.seed, self.ctx.level)
        _replay_case(probe, core.jsonable(case))
        if not any(v.signature == sig for v in probe.violations):
            raise core.HarnessError("HARNESS-NONDETERMINISM C16: %s not reproduced on re-execution of %s (got %s)" % (
                k, json.dumps(core.jsonable(case))[:900], [v.signature for v in probe.violations]))
        self.ctx.violation(sig, case, text)


def _tname(t):
    return "%s%s" % ((t[0], tuple(t[1])) if isinstance(t, (list, tuple)) else (t.get("g"), tuple(t.get("modes", ()))))


def _describe(case):
    s = "d=%s cutoff=%s hbar=%s root=%s history=%s" % (case.get("d"), case.get("cutoff"), case.get("hbar"), case.get("root"), [_tname(t) for t in case.get("history", [])])
    if case.get("action"):
        s += " action=" + _tname(case["action"])
    if case.get("pair"):
        s += " pair=%s,%s" % (_tname(case["pair"][0]), _tname(case["pair"][1]))
    if case.get("measure"):
        s += " measure=%s%s" % (case["measure"][0], tuple(case["measure"][1]))
    if case.get("measured") is not None:
        s += " gate=%s measured=%s shots=%s seed_sequence=%s" % (case.get("gate"), tuple(case["measured"]), case.get("shots"), case.get("seed_sequence"))
    if case.get("pi") is not None:
        s += " pi=%s" % (tuple(case["pi"]),)
    return s


# ---------------------------------------------------------------------------------------
# bosonic exploration


def _try(sim, st, t, seed):
    from mc import c08_lib as K

    return K.try_step(sim, st, t, seed)


def _fail_kind(f):
    return f.cls  # unsupported | refused | crash


def _mask(kind, d, cutoff, E):
    from mc import lockstep as L

    return L.sector_mask(L.fock_basis(d, cutoff), E)


def _relabel_sig(kind, a_cls, pm):
    from mc import lockstep as L
    from mc import c08_lib as K

    return {"sub": "relabel", "gate_kind": K.gate_class(a_cls), "relabelled_mode_order": L.mode_order_class(pm)}


def _compare_tracks(ctx, rep, kind, ident, tracks, P, a, hist_j, what="state"):
    """compare every live relabelled track with the identity track.  Returns True when all agree."""
    from mc import lockstep as L
    from mc import c16_lib as R

    ok = True
    base_view = R.view(ident, tuple(range(len(P[0]))))
    for pi in P[1:]:
        st = tracks.get(pi)
        if st is None or isinstance(st, L.Failure):
            continue
        ctx.count("relabel_compared")
        bad = R.compare_views(base_view, R.view(st, pi), TOL)
        if bad is None and a is not None and len(hist_j) >= 1 and len(ctx.samples) < 1 and len(a[1]) >= 2 and pi != tuple(range(len(pi))):
            ctx.sample({"relation": "relabel", "simulator": SIM_CLASS[kind], "root": rep.base["root"], "cutoff": rep.base["cutoff"], "hbar": rep.base["hbar"],
                        "program": hist_j + [_tj(a)], "pi": list(pi), "relabelled_program": [_tj(R.relabel(tuple(t), pi)) for t in hist_j] + [_tj(R.relabel(a, pi))],
                        "observables_compared": sorted(base_view)})
        if bad is not None:
            ok = False
            pm = R.relabel(a, pi)[1] if a is not None else pi
            sig = dict(_relabel_sig(kind, a[0] if a is not None else "root", pm), observable=bad[0])
            rep.report(sig, {"history": hist_j, "action": _tj(a), "pi": list(pi)},
                       "%s of the relabelled program differs from the permuted original by %.3e" % (bad[0], bad[1]))
            break  # one permutation per transition is enough
    return ok


def _tj(t):
    from mc import c08_lib as K

    return K.tjson(t) if t is not None else None


def _work_bos(ctx, it):
    from mc import core
    from mc import lockstep as L
    from mc import c08_lib as K
    from mc import c16_lib as R
    from mc.checks import c08

    kind, d, cutoff, hbar, seed = it["kind"], it["d"], it["cutoff"], it["hbar"], ctx.seed
    sim = c08._env(kind, d, cutoff, hbar)
    root_t, _pure = c08._root(kind, d, cutoff, seed, it["root"])
    actions = list(L.alphabet(kind, d, it["level"], seed))
    if kind == "passive":
        actions += K.passive_extras(d, it["level"], seed)
    P = R.perms(d)
    ident_pi = P[0]
    base = {"fam": "bos", "kind": kind, "d": d, "cutoff": cutoff, "hbar": hbar, "seed": seed, "root": it["root"], "level": it["level"]}
    rep = _Rep(ctx, base)
    chunk, chunks = it["chunk"], it["chunks"]
    # roots of all tracks
    tracks = {}
    for pi in P:
        try:
            tracks[pi] = K.execute(sim, None, R.relabel_root(root_t, pi), seed).state
        except core.HarnessError:
            raise
        except Exception as e:
            tracks[pi] = L.Failure(e)
    if isinstance(tracks[ident_pi], L.Failure):
        ctx.count("cells/root_refused")
        return
    occ = _root_occ(kind, d, cutoff, it["root"])
    exact0 = L.Exactness.root(occ, cutoff) if (occ is not None and kind in ("purefock", "fock")) else None
    if chunk == 0:
        ctx.note_distinct(c08._canon(tracks[ident_pi]) + repr((kind, d, cutoff, hbar)).encode())
        _compare_tracks(ctx, rep, kind, tracks[ident_pi], tracks, P, None, [])
        _prep_modes(ctx, rep, sim, kind, root_t, tracks[ident_pi], P, seed)
        if it["meas"] >= 0:
            _measure_maps(ctx, rep, sim, kind, tracks, P, [], it)
    seen = {c08._canon(tracks[ident_pi])}
    frontier = [(tracks, (), exact0)]
    keep_to = max(it["depth"] - 1, it["comm"])  # deepest level whose states are still needed (expansion or commutation)
    L_ = 0
    while frontier and L_ <= keep_to:
        nxt = []
        for trk, hist, exact in frontier:
            hist_j = [K.tjson(t) for t in hist]
            ident = trk[ident_pi]
            children = {}
            if L_ < it["depth"]:
                for ai, a in enumerate(actions):
                    if L_ == 0 and ai % chunks != chunk:
                        continue
                    child = _try(sim, ident, a, seed)
                    ctx.count("transitions")
                    ctx.counters["max_depth"] = max(ctx.counters.get("max_depth", 0), L_ + 1)
                    children[ai] = child
                    if isinstance(child, L.Failure):
                        ctx.count("cells/" + child.cls)
                        if child.cls == "crash":
                            ctx.count("cells/crash/%s/%s/%s" % (kind, a[0], child.exc_type))
                        continue
                    ctr = {ident_pi: child}
                    for pi in P[1:]:
                        if isinstance(trk.get(pi), L.Failure) or trk.get(pi) is None:
                            continue
                        c2 = _try(sim, trk[pi], R.relabel(a, pi), seed)
                        if isinstance(c2, L.Failure):
                            if c2.cls == "crash":
                                rep.report({"sub": "relabel_crash", "gate_kind": K.gate_class(a[0]), "exc": c2.exc_type,
                                            "relabelled_mode_order": L.mode_order_class(R.relabel(a, pi)[1])},
                                           {"history": hist_j, "action": K.tjson(a), "pi": list(pi)},
                                           "the relabelled program raises %s: %s while the original runs" % (c2.exc_type, c2.message[:160]))
                            else:
                                ctx.count("asymmetric_refusal")
                                ctx.count("asymmetric_refusal/%s/%s/%s" % (kind, a[0], c2.exc_type))
                        ctr[pi] = c2
                    ok = _compare_tracks(ctx, rep, kind, child, ctr, P, a, hist_j)
                    key = c08._canon(child)
                    if key in seen:
                        continue
                    seen.add(key)
                    ctx.note_distinct(key + repr((kind, d, cutoff, hbar)).encode())
                    if not ok or not isinstance(child, sim._state_class):
                        continue
                    if L_ + 1 <= it["meas"]:
                        _measure_maps(ctx, rep, sim, kind, ctr, P, hist_j + [K.tjson(a)], it)
                    if L_ + 1 <= keep_to:
                        ex2 = exact.step(a, d) if (exact is not None and a[0] in L.GATES) else None
                        nxt.append((ctr, hist + (a,), ex2))
            if L_ <= it["comm"]:
                _commute(ctx, rep, sim, kind, d, cutoff, ident, children, actions, hist_j, exact, chunk if L_ == 0 else 0, chunks if L_ == 0 else 1, seed)
        frontier = nxt
        L_ += 1


def _root_occ(kind, d, cutoff, name):
    from mc import c08_lib as K

    if kind == "gaussian":
        return None
    return K.fock_roots(kind, d, cutoff, 2)[name][2]


def _pair_mode(kind, a, b, exact, d):
    """-> ('all', None) | ('sectors', E) | None (pair not asserted)"""
    from mc import lockstep as L
    from mc import c08_lib as K

    if kind in ("gaussian", "passive"):
        return ("all", None)
    if a[0] in K.NUMBER_CONSERVING and b[0] in K.NUMBER_CONSERVING:
        return ("all", None)
    if exact is None or a[0] not in L.GATES or b[0] not in L.GATES:
        return None
    E = min(exact.step(a, d).step(b, d).E, exact.step(b, d).step(a, d).E)
    return ("sectors", E) if E > 0 else None


def _commute(ctx, rep, sim, kind, d, cutoff, st, children, actions, hist_j, exact, chunk, chunks, seed):
    """all unordered pairs of alphabet actions with disjoint supports, both orders, from state st (children[ai] = st after action ai)"""
    from mc import lockstep as L
    from mc import c08_lib as K
    from mc import c16_lib as R

    sup = [R.support(a, d) for a in actions]
    idn = tuple(range(d))
    n = 0
    def get(i):
        if i not in children:
            children[i] = _try(sim, st, actions[i], seed)
            ctx.count("transitions")
        c = children[i]
        return None if (isinstance(c, L.Failure) or not isinstance(c, sim._state_class)) else c

    for i in range(len(actions)):
        for j in range(i + 1, len(actions)):
            if sup[i] & sup[j]:
                continue
            n += 1
            if chunks > 1 and n % chunks != chunk:
                continue
            if get(i) is None or get(j) is None:
                continue
            a, b = actions[i], actions[j]
            mode = _pair_mode(kind, a, b, exact, d)
            if mode is None:
                ctx.count("commute_pairs_not_asserted")
                continue
            ab = _try(sim, children[i], b, seed)
            ba = _try(sim, children[j], a, seed)
            ctx.count("transitions", 2)
            if isinstance(ab, L.Failure) or isinstance(ba, L.Failure):
                ctx.count("cells/pair_failure")
                continue
            if type(ab) is not type(ba):
                ctx.count("cells/pair_state_class_differs")
                continue
            mask = _mask(kind, d, cutoff, mode[1]) if mode[0] == "sectors" else None
            bad = R.compare_views(R.view(ab, idn, internal=False), R.view(ba, idn, internal=False), TOL, mask=mask)
            ctx.count("commute_pairs_compared")
            ctx.count("commute_pairs_compared/" + mode[0])
            if bad is None and len(ctx.samples) < 2 and len(a[1]) + len(b[1]) >= 3 and mode[0] == ("sectors" if kind in ("purefock", "fock") else "all"):
                ctx.sample({"relation": "commute", "simulator": SIM_CLASS[kind], "root": rep.base["root"], "cutoff": cutoff, "history": hist_j,
                            "pair": [K.tjson(a), K.tjson(b)], "compared": mode[0] if mask is None else "sectors < %d" % mode[1]})
            if bad is not None:
                kinds = sorted([K.gate_class(a[0]), K.gate_class(b[0])])
                rep.report({"sub": "commute", "pair_kinds": "+".join(kinds), "observable": bad[0], "compared": mode[0]},
                           {"history": hist_j, "pair": [K.tjson(a), K.tjson(b)]},
                           "%s then %s differs from the opposite order on %s by %.3e%s" % (K.short(a), K.short(b), bad[0], bad[1],
                                                                                             "" if mask is None else " (sectors < %d)" % mode[1]))


def _prep_modes(ctx, rep, sim, kind, root_t, ident, P, seed):
    """the root preparations relabelled with on_modes(pi) and unchanged parameter tuples"""
    from mc import core
    from mc import lockstep as L
    from mc import c08_lib as K
    from mc import c16_lib as R

    if all(t[0] == "Vacuum" for t in root_t):
        return
    d = len(P[0])
    base_view = R.view(ident, tuple(range(d)))
    for pi in P[1:]:
        try:
            st = K.execute(sim, None, R.relabel_root(root_t, pi, variant="modes"), seed).state
        except core.HarnessError:
            raise
        except Exception as e:
            f = L.Failure(e)
            ctx.count("cells/prep_modes_" + f.cls)
            continue
        ctx.count("prep_modes_compared")
        bad = R.compare_views(base_view, R.view(st, pi), TOL)
        if bad is not None:
            rep.report({"sub": "prep_modes", "instruction": "+".join(sorted({t[0] for t in root_t}))},
                       {"history": [], "action": None, "pi": list(pi), "prep_modes": True},
                       "%s.on_modes%s with unchanged parameters does not prepare the permuted state (%s differs by %.3e)" % (
                           root_t[0][0], tuple(pi), bad[0], bad[1]))
            return


def _measure_maps(ctx, rep, sim, kind, tracks, P, hist_j, it):
    """outcome -> weight maps (and branch states) of every ordered mode subset, for every permutation"""
    import numpy as np
    from mc import lockstep as L
    from mc import c08_lib as K
    from mc import c16_lib as R
    from mc.checks import c08

    seed = ctx.seed
    ident_pi = P[0]
    st0 = tracks[ident_pi]
    d = st0.d
    if kind == "gaussian":
        shots = 3
        specs = [(cls, M, params) for M in K.ordered_subsets(d, 1, d - 1) for cls, params in c08._gauss_measurements(d, "quick")]
    else:
        shots = None
        specs = [("ParticleNumberMeasurement", M, {}) for M in K.ordered_subsets(d, 1, d)]
    for t in specs:
        ref = _run_measure(sim, st0, t, shots, seed)
        ctx.count("transitions")
        if ref is None:
            ctx.count("cells/measurement_refused")
            continue
        for pi in P[1:]:
            st = tracks.get(pi)
            if st is None or isinstance(st, L.Failure):
                continue
            t2 = R.relabel(t, pi)
            got = _run_measure(sim, st, t2, shots, seed)
            if got is None:
                ctx.count("asymmetric_refusal")
                continue
            ctx.count("outcome_maps_compared")
            msg = _compare_measure(ctx, kind, ref, got, R.reduced_perm(pi, t[1]))
            if msg is not None:
                sub, obs, text = msg
                rep.report({"sub": sub, "observable": obs, "measurement": t[0], "measured": "all-modes" if len(t[1]) == d else "subset"},
                           {"history": hist_j, "action": None, "measure": K.tjson(t), "pi": list(pi)}, text)
                break


def _run_measure(sim, st, t, shots, seed):
    """-> dict(law=..., branches=[(outcome, weight, state)]) or None when refused"""
    import numpy as np
    from mc import core
    from mc import c08_lib as K

    rng = getattr(sim.config, "rng", None)
    if isinstance(rng, K.LatticeRng):
        rng.calls = []
    try:
        res = K.execute(sim, st, [t], seed, shots=shots)
    except core.HarnessError:
        raise
    except Exception:
        return None
    out = {"law": None, "branches": []}
    if isinstance(rng, K.LatticeRng) and rng.calls:
        out["law"] = (rng.calls[0][0], rng.calls[0][1])
    for b in res.branches:
        out["branches"].append((tuple(float(x) for x in b.outcome), float(b.frequency), b.state))
    return out


def _compare_measure(ctx, kind, ref, got, sigma):
    import numpy as np
    from mc import c16_lib as R

    if ref["law"] is not None and got["law"] is not None:
        for x, y, nm in ((ref["law"][0], got["law"][0], "mean"), (ref["law"][1], got["law"][1], "covariance")):
            if x.shape != y.shape or np.abs(x - y).max() > TOL * max(1.0, np.abs(x).max()):
                return ("relabel_outcome_law", nm, "the %s of the outcome distribution differs by %.3e" % (nm, np.abs(x - y).max() if x.shape == y.shape else float("inf")))
    if kind != "gaussian":
        A, B = {}, {}
        for o, w, _ in ref["branches"]:
            A[o] = A.get(o, 0.0) + w
        for o, w, _ in got["branches"]:
            B[o] = B.get(o, 0.0) + w
        for o in sorted(set(A) | set(B)):
            wa, wb = A.get(o), B.get(o)
            if wa is None or wb is None:
                if max(wa or 0.0, wb or 0.0) > PNM_DROP:
                    return ("relabel_outcome_map", "weights", "outcome %s has weight %r in the original and %r in the relabelled program" % (o, wa, wb))
            elif abs(wa - wb) > TOL:
                return ("relabel_outcome_map", "weights", "outcome %s has weight %.12g in the original and %.12g in the relabelled program" % (o, wa, wb))
    # branch states, matched by outcome (Gaussian: by position, the lattice outcomes follow the law)
    if kind == "gaussian":
        pairs = list(zip(ref["branches"], got["branches"]))
    else:
        gmap = {o: s for o, w, s in got["branches"]}
        pairs = [((o, w, s), (o, w, gmap[o])) for o, w, s in ref["branches"] if o in gmap]
    idn = tuple(range(len(sigma)))
    for (o, w, s1), (_, _, s2) in pairs:
        if s1 is None or s2 is None or s1.d == 0:
            continue
        if kind != "gaussian" and w < 1e-6:
            continue  # a branch state is divided by its weight: rounding noise is amplified by 1/w
        ctx.count("branch_states_compared")
        bad = R.compare_views(R.view(s1, idn), R.view(s2, sigma), 1e-8 if kind != "gaussian" else TOL)
        if bad is not None:
            return ("relabel_branch_state", bad[0], "branch state of outcome %s: %s differs by %.3e" % (o, bad[0], bad[1]))
    return None


# ---------------------------------------------------------------------------------------
# fermionic exploration (alphabet and execution helpers of C17)


def _f_relabel(a, pi):
    b = dict(a)
    b["modes"] = tuple(int(pi[m]) for m in a["modes"])
    return b


def _f_enc(a):
    return {"g": a["g"], "modes": list(a["modes"]), "p": a["p"], "tag": a.get("tag", "")}


def _work_fermi(ctx, it):
    import piquasso as pq
    from mc import core
    from mc import c16_lib as R
    from mc.checks import c08

    try:
        from mc.checks import c17
    except Exception as e:  # pragma: no cover
        raise core.HarnessError("C16: cannot import mc.checks.c17: %r" % (e,))
    d, cutoff, occ = it["d"], it["d"] + 1, tuple(it["root"])
    acts = c17.alphabet(d, ctx.tier, ctx.seed)
    P = R.perms(d)
    idn = P[0]
    gs, fs = c17._sims(d, cutoff)
    for kind, sim in (("fgauss", gs), ("ffock", fs)):
        base = {"fam": "fermi", "kind": kind, "d": d, "cutoff": cutoff, "hbar": 2.0, "seed": ctx.seed, "root": list(occ), "tier": ctx.tier}
        rep = _Rep(ctx, base)
        tracks = {}
        for pi in P:
            try:
                tracks[pi] = sim.execute_instructions([pq.NumberState(tuple(R.permute_tuple(list(occ), pi)))]).state
            except Exception:
                tracks[pi] = None
        if tracks[idn] is None:
            continue
        ctx.note_distinct(c08._canon(tracks[idn]) + kind.encode())
        _f_compare(ctx, rep, tracks[idn], tracks, P, None, [])
        _f_prep_modes(ctx, rep, sim, occ, tracks[idn], P)
        if kind == "ffock" and it["meas"] >= 0:
            _f_measure(ctx, rep, sim, tracks, P, [])
        seen = {c08._canon(tracks[idn])}
        frontier = [(tracks, ())]
        keep_to = max(it["depth"] - 1, it["comm"])
        L_ = 0
        while frontier and L_ <= keep_to:
            nxt = []
            for trk, hist in frontier:
                path = [_f_enc(acts[i]) for i in hist]
                children = {}
                for a in acts:
                    if kind == "ffock" and a["g"] == "GH":
                        continue
                    child, err = c17._apply(sim, trk[idn], a)
                    ctx.count("transitions")
                    if child is None:
                        ctx.count("cells/" + ("unsupported" if err[0] == "refusal" else "crash"))
                        continue
                    children[a["i"]] = child
                    if L_ >= it["depth"]:
                        continue
                    ctx.counters["max_depth"] = max(ctx.counters.get("max_depth", 0), L_ + 1)
                    ctr = {idn: child}
                    for pi in P[1:]:
                        if trk.get(pi) is None:
                            continue
                        c2, err2 = c17._apply(sim, trk[pi], _f_relabel(a, pi))
                        if c2 is None:
                            if err2[0] == "crash":
                                rep.report({"sub": "relabel_crash", "gate": c17.CLS[a["g"]], "exc": type(err2[1]).__name__,
                                            "relabelled_modes_class": c17._modes_class(_f_relabel(a, pi)["modes"])},
                                           {"history": path, "action": _f_enc(a), "pi": list(pi)},
                                           "the relabelled program raises %s: %s" % (type(err2[1]).__name__, str(err2[1])[:160]))
                            else:
                                ctx.count("asymmetric_refusal")
                                ctx.count("asymmetric_refusal/%s/%s/%s/%s" % (kind, a["g"], c17._modes_class(_f_relabel(a, pi)["modes"]), type(err2[1]).__name__))
                        ctr[pi] = c2
                    ok = _f_compare(ctx, rep, child, ctr, P, a, path)
                    key = c08._canon(child)
                    if key in seen:
                        continue
                    seen.add(key)
                    ctx.note_distinct(key + kind.encode())
                    if not ok:
                        continue
                    if kind == "ffock" and L_ + 1 <= it["meas"]:
                        _f_measure(ctx, rep, sim, ctr, P, path + [_f_enc(a)])
                    if L_ + 1 <= keep_to:
                        nxt.append((ctr, hist + (a["i"],)))
                if L_ <= it["comm"]:
                    _f_commute(ctx, rep, sim, kind, d, trk[idn], children, acts, path)
            frontier = nxt
            L_ += 1


def _f_prep_modes(ctx, rep, sim, occ, ident, P):
    """NumberState(occ).on_modes(pi) with the unchanged tuple must prepare the permuted state"""
    import piquasso as pq
    from mc import c16_lib as R

    if sum(occ) in (0, len(occ)):
        return
    base_view = R.view(ident, P[0])
    tol = 1e-8 if rep.base["kind"] == "ffock" else TOL
    for pi in P[1:]:
        try:
            st = sim.execute_instructions([pq.NumberState(tuple(occ)).on_modes(*pi)]).state
        except Exception:
            ctx.count("cells/prep_modes_refused")
            continue
        ctx.count("prep_modes_compared")
        bad = R.compare_views(base_view, R.view(st, pi), tol)
        if bad is not None:
            rep.report({"sub": "prep_modes", "instruction": "NumberState"},
                       {"history": [], "action": None, "pi": list(pi), "prep_modes": True},
                       "NumberState%s.on_modes%s does not prepare the permuted state (%s differs by %.3e)" % (tuple(occ), tuple(pi), bad[0], bad[1]))
            return


def _f_compare(ctx, rep, ident, tracks, P, a, path):
    from mc import c16_lib as R
    from mc.checks import c17

    base_view = R.view(ident, P[0])
    for pi in P[1:]:
        st = tracks.get(pi)
        if st is None:
            continue
        ctx.count("relabel_compared")
        bad = R.compare_views(base_view, R.view(st, pi), 1e-8 if rep.base["kind"] == "ffock" else TOL)
        if bad is not None:
            sig = {"sub": "relabel", "gate": c17.CLS[a["g"]] if a is not None else "NumberState", "observable": bad[0],
                   "relabelled_modes_class": c17._modes_class(_f_relabel(a, pi)["modes"]) if a is not None else "root",
                   "history_has_IsingXX": bool(any(x["g"] == "XX" for x in path) or (a is not None and a["g"] == "XX"))}
            rep.report(sig, {"history": path, "action": _f_enc(a) if a is not None else None, "pi": list(pi)},
                       "%s of the relabelled program differs from the permuted original by %.3e" % (bad[0], bad[1]))
            return False
    return True


def _f_pnm(sim, st, M):
    import piquasso as pq

    try:
        res = sim.execute_instructions([pq.ParticleNumberMeasurement().on_modes(*M)], initial_state=st, shots=None)
    except Exception:
        return None
    out = {}
    for b in res.branches:
        o = tuple(int(x) for x in b.outcome)
        out[o] = out.get(o, 0.0) + float(b.frequency)
    return out


def _f_measure(ctx, rep, sim, tracks, P, path):
    from mc import c08_lib as K
    from mc.checks import c17

    d = len(P[0])
    for M in K.ordered_subsets(d, 1, d):
        ref = _f_pnm(sim, tracks[P[0]], M)
        ctx.count("transitions")
        if ref is None:
            ctx.count("cells/unsupported")
            continue
        for pi in P[1:]:
            if tracks.get(pi) is None:
                continue
            M2 = tuple(pi[m] for m in M)
            got = _f_pnm(sim, tracks[pi], M2)
            if got is None:
                ctx.count("asymmetric_refusal")
                continue
            ctx.count("outcome_maps_compared")
            for o in sorted(set(ref) | set(got)):
                wa, wb = ref.get(o), got.get(o)
                bad = (max(wa or 0.0, wb or 0.0) > PNM_DROP) if (wa is None or wb is None) else abs(wa - wb) > 1e-8
                if bad:
                    rep.report({"sub": "relabel_outcome_map", "observable": "weights", "measurement": "ParticleNumberMeasurement",
                                "relabelled_modes_class": c17._modes_class(M2), "history_has_IsingXX": bool(any(x["g"] == "XX" for x in path))},
                               {"history": path, "action": None, "measure": ["ParticleNumberMeasurement", list(M), {}], "pi": list(pi)},
                               "outcome %s has weight %r in the original and %r in the relabelled program" % (o, wa, wb))
                    return


def _f_commute(ctx, rep, sim, kind, d, st, children, acts, path):
    from mc import c16_lib as R
    from mc.checks import c17

    idn = tuple(range(d))
    live = [a for a in acts if a["i"] in children]
    for x in range(len(live)):
        for y in range(x + 1, len(live)):
            a, b = live[x], live[y]
            if set(a["modes"]) & set(b["modes"]):
                continue
            if kind == "ffock" and not (a["g"] in c17.PASSIVE and b["g"] in c17.PASSIVE):
                ctx.count("commute_pairs_not_asserted")
                continue
            ab, e1 = c17._apply(sim, children[a["i"]], b)
            ba, e2 = c17._apply(sim, children[b["i"]], a)
            ctx.count("transitions", 2)
            if ab is None or ba is None:
                ctx.count("cells/pair_failure")
                continue
            ctx.count("commute_pairs_compared")
            if kind == "ffock":
                import numpy as np

                dev = float(np.abs(np.asarray(ab.state_vector) - np.asarray(ba.state_vector)).max())
                bad = ("state_vector", dev) if dev > TOL else None
            else:
                bad = R.compare_views(R.view(ab, idn), R.view(ba, idn), TOL)
            if bad is not None:
                rep.report({"sub": "commute", "pair_kinds": "+".join(sorted([c17.CLS[a["g"]], c17.CLS[b["g"]]])), "observable": bad[0],
                            "modes_classes": "+".join(sorted([a["mc"], b["mc"]]))},
                           {"history": path, "pair": [_f_enc(a), _f_enc(b)]},
                           "%s%s then %s%s differs from the opposite order on %s by %.3e" % (a["g"], a["modes"], b["g"], b["modes"], bad[0], bad[1]))


# ---------------------------------------------------------------------------------------
# sampling path: deterministic circuits, integer shots, every ordered measured mode tuple, every relabelling


def _samp_roots(kind, d, tier="thorough"):
    if kind in ("fgauss", "ffock"):
        return {2: [(1, 0)], 3: [(1, 0, 0)] + ([(0, 1, 1)] if tier != "quick" else []), 4: [(1, 0, 0, 0), (0, 1, 1, 1), (1, 1, 0, 0)]}[d]
    # (every arrangement of the occupations is reached through the relabellings and the permutation gates)
    # d = 4: three photons (two modes share the occupation 0) -- the pairwise different root (0, 1, 2, 3) costs ~1.7 s per PassiveSimulator sample
    return {2: [(0, 1), (2, 1)], 3: [(0, 1, 2)], 4: [(1, 0, 2, 0)]}[d]


def _samp_gates(d):
    """None (no gate) or [gate modes G, s] : Interferometer(P).on_modes(*G) with the permutation matrix P[s[b], b] = 1 (a particle entering through
    G[b] leaves through G[s[b]])"""
    if d == 2:
        return [None, [[0, 1], [1, 0]], [[1, 0], [1, 0]]]
    if d == 3:
        return [None] + [[[0, 1, 2], list(s)] for s in ((1, 2, 0), (2, 0, 1), (1, 0, 2))] + [[[2, 0], [1, 0]], [[2, 0, 1], [1, 2, 0]]]
    return [None, [[0, 1, 2, 3], [1, 2, 3, 0]], [[0, 1, 2, 3], [2, 0, 3, 1]], [[3, 0, 2], [1, 2, 0]], [[1, 3], [1, 0]], [[2, 1, 0, 3], [3, 2, 0, 1]]]


def _samp_matrix(s):
    import numpy as np

    P = np.zeros((len(s), len(s)))
    for b, a in enumerate(s):
        P[a, b] = 1.0
    return P


def _samp_ref(occ, gate):
    """the single possible outcome: occupation numbers after the permutation interferometer"""
    final = list(occ)
    if gate is not None:
        G, s = gate
        for b, a in enumerate(s):
            final[G[a]] = occ[G[b]]
    return tuple(int(x) for x in final)


def _samp_selftest():
    """the two-line reference against the independent references of the passive and the fermionic simulators"""
    import numpy as np
    from mc import core
    from mc.refmodel import passiveref, fermiref

    for d in (2, 3):
        for gate in _samp_gates(d):
            if gate is None:
                continue
            G, s = gate
            T = np.eye(d)
            T[np.ix_(G, G)] = _samp_matrix(s)
            for occ in _samp_roots("passive", d):
                tab = passiveref.dilation_table(occ, T)
                best = max(tab, key=lambda k: tab[k])
                if tuple(best) != _samp_ref(occ, gate) or abs(tab[best] - 1) > 1e-12:
                    raise core.HarnessError("HARNESS-SELFTEST C16 sampling reference disagrees with passiveref for %r %r" % (occ, gate))
            for occ in _samp_roots("ffock", d):
                psi = fermiref.u_interferometer(d, tuple(G), _samp_matrix(s).astype(complex)) @ fermiref.basis_state(occ)
                pm = fermiref.probabilities(psi)
                best = max(pm, key=lambda k: pm[k])
                if tuple(best) != _samp_ref(occ, gate) or abs(pm[best] - 1) > 1e-12:
                    raise core.HarnessError("HARNESS-SELFTEST C16 sampling reference disagrees with fermiref for %r %r" % (occ, gate))


def _samp_sim(kind, d, cutoff, seed_sequence):
    import piquasso as pq
    import piquasso.fermionic as pf

    cls = {"passive": pq.PassiveSimulator, "purefock": pq.PureFockSimulator, "fock": pq.FockSimulator, "fgauss": pf.GaussianSimulator, "ffock": pf.PureFockSimulator}[kind]
    return cls(d=d, config=pq.Config(cutoff=int(cutoff), seed_sequence=int(seed_sequence)))


def _samp_program(kind, d, occ, gate, pi, M):
    """the relabelled program as templates"""
    from mc import c16_lib as R

    occ2 = R.permute_tuple(list(occ), pi)
    prep = ("DensityMatrix", (), {"ket": occ2, "bra": occ2}) if kind == "fock" else ("NumberState", (), {"occupation_numbers": occ2})
    prog = [prep]
    if gate is not None:
        G, s = gate
        if kind == "ffock":
            # the fermionic PureFockSimulator refuses gates on non-consecutive / non-ascending mode tuples: the same operator written on all modes
            import numpy as np

            T = np.eye(d)
            ix = [int(pi[m]) for m in G]
            T[np.ix_(ix, ix)] = _samp_matrix(s)
            prog.append(("Interferometer", tuple(range(d)), {"matrix": T.tolist()}))
        else:
            prog.append(("Interferometer", tuple(int(pi[m]) for m in G), {"matrix": _samp_matrix(s).tolist()}))
    prog.append(("ParticleNumberMeasurement", tuple(int(pi[m]) for m in M), {}))
    return prog


def _samp_run(kind, d, cutoff, occ, gate, pi, M, shots, seed_sequence):
    """-> ('ok', samples) | ('refused' | 'crash', exception type name, message)"""
    from mc import core
    from mc import lockstep as L
    from mc import c08_lib as K

    sim = _samp_sim(kind, d, cutoff, seed_sequence)
    try:
        res = K.execute(sim, None, _samp_program(kind, d, occ, gate, pi, M), 0, shots=shots)
        return ("ok", [tuple(x for x in smp) for smp in res.samples])
    except core.HarnessError:
        raise
    except Exception as e:
        f = L.Failure(e)
        return ("crash" if f.cls == "crash" else "refused", f.exc_type, f.message[:200])


def _samp_case(ctx, rep, kind, d, cutoff, occ, gate, pi, M, shots, seed_sequence):
    """one execution; returns 'ok' / 'refused' / 'crash' / 'violation'"""
    from mc import lockstep as L

    final = _samp_ref(occ, gate)
    want = [tuple(final[m] for m in M)] * shots
    got = _samp_run(kind, d, cutoff, occ, gate, pi, M, shots, seed_sequence)
    M2 = tuple(int(pi[m]) for m in M)
    extra = {"gate": gate, "pi": list(pi), "measured": list(M), "shots": shots, "seed_sequence": seed_sequence, "history": [], "action": None}
    sig = {"sub": "relabel_samples", "measured": "all-modes" if len(M) == d else "subset", "measured_mode_order": L.mode_order_class(M2)}
    if got[0] != "ok":
        if got[0] == "crash":
            rep.report(dict(sig, defect="raises", exc=got[1]), extra, "sampling ParticleNumberMeasurement on modes %s (shots=%d) raises %s: %s" % (M2, shots, got[1], got[2]))
            return "violation"
        return got[0]
    samples = got[1]
    ok = len(samples) == len(want) and all(len(a) == len(b) and all(int(x) == y and x == y for x, y in zip(a, b)) for a, b in zip(samples, want))
    if ok:
        return "ok"
    same_multiset = len(samples) == len(want) and all(sorted(a) == sorted(b) for a, b in zip(samples, want))
    rep.report(dict(sig, defect="outcome_order" if same_multiset else "outcome_values", observable="Result.samples"), extra,
               "Result.samples of the deterministic circuit is %s, the only possible outcome on modes %s is %s (final occupation of the relabelled program: %s)" % (
                   samples, M2, want[0], tuple(_perm_tuple(final, pi))))
    return "violation"


def _perm_tuple(x, pi):
    from mc import c16_lib as R

    return R.permute_tuple(list(x), pi)


def _work_samp(ctx, it):
    from mc import c08_lib as K
    from mc import c16_lib as R

    for d in it["ds"]:
        for occ in _samp_roots(it["kind"], d, it["tier"]):
            for gate in _samp_gates(d):
                _work_samp1(ctx, it["kind"], d, (d + 1) if it["kind"] in ("fgauss", "ffock") else sum(occ) + 1, tuple(occ), gate)


def _work_samp1(ctx, kind, d, cutoff, occ, gate):
    from mc import c08_lib as K
    from mc import c16_lib as R

    base = {"fam": "samp", "kind": kind, "d": d, "cutoff": cutoff, "hbar": 2.0, "seed": ctx.seed, "root": list(occ), "level": "-"}
    rep = _Rep(ctx, base)
    ss = (1 + int(ctx.seed), 77 + int(ctx.seed))
    P = R.perms(d)
    # the unrelabelled program measured on all modes in ascending order: if the simulator does not sample it, the cell is unsupported
    first = _samp_run(kind, d, cutoff, occ, gate, P[0], tuple(range(d)), 3, ss[0])
    ctx.count("transitions")
    if first[0] != "ok":
        ctx.count("cells/" + ("unsupported" if first[0] == "refused" else "crash"))
        ctx.count("cells/samp_%s/%s/%s" % (first[0], kind, first[1]))
        return
    ctx.counters["max_depth"] = max(ctx.counters.get("max_depth", 0), 1 if gate is not None else 0)
    for pi in P:
        for M in K.ordered_subsets(d, 1, d):
            for shots, seq in ((3, ss[0]),) + (((1, ss[1]),) if len(M) == d and d <= 3 else ()):
                r = _samp_case(ctx, rep, kind, d, cutoff, occ, gate, pi, M, shots, seq)
                ctx.count("transitions")
                if r in ("ok", "violation"):
                    ctx.count("sample_lists_compared")
                    ctx.count("sample_lists_compared/" + kind)
                    ctx.count("sample_lists_compared/%s/%s" % ("all-modes" if len(M) == d else "subset", kind))
                else:
                    ctx.count("asymmetric_refusal")
                    ctx.count("asymmetric_refusal/samp/%s" % kind)
            ctx.note_distinct(repr(("samp", kind, d, occ, gate, pi, M)))
    if len(ctx.samples) < ctx.max_samples and gate is not None and len(gate[0]) == d and d == 3 and kind == "passive":
        pi, M = P[4], (2, 0, 1)
        ctx.sample({"relation": "relabel_samples", "simulator": SIM_CLASS[kind], "program": [list(t[:2]) + [K.tjson(t)[2]] for t in _samp_program(kind, d, occ, gate, pi, M)],
                    "pi": list(pi), "shots": 3, "expected_samples": [list(tuple(_samp_ref(occ, gate)[m] for m in M))] * 3})


# ---------------------------------------------------------------------------------------
# work / replay


def work(ctx, item):
    import time

    t0 = time.process_time()
    try:
        _work(ctx, item)
    finally:
        ctx.extra["timing_cpu_ms_in_workers"] = ctx.extra.get("timing_cpu_ms_in_workers", 0) + int(1000 * (time.process_time() - t0))


def _work(ctx, item):
    if item["fam"] == "bos":
        _work_bos(ctx, item)
    elif item["fam"] == "samp":
        _work_samp(ctx, item)
    else:
        _work_fermi(ctx, item)


def _replay_case(ctx, case):
    import piquasso as pq
    from mc import core
    from mc import lockstep as L
    from mc import c08_lib as K
    from mc import c16_lib as R
    from mc.checks import c08

    kind, d, cutoff = case["kind"], case["d"], case["cutoff"]
    seed = case.get("seed", ctx.seed)
    ctx.seed = seed
    base = {k: case.get(k) for k in ("fam", "kind", "d", "cutoff", "hbar", "seed", "root", "level", "tier")}
    rep = _Rep(ctx, base, replaying=True)
    idn = tuple(range(d))
    pi = tuple(case["pi"]) if case.get("pi") is not None else idn
    if case["fam"] == "samp":
        _samp_case(ctx, rep, kind, d, cutoff, tuple(case["root"]), case["gate"], pi, tuple(case["measured"]), case["shots"], case["seed_sequence"])
        return
    if case["fam"] == "fermi":
        from mc.checks import c17

        gs, fs = c17._sims(d, cutoff)
        sim = gs if kind == "fgauss" else fs
        occ = tuple(case["root"])
        hist = [c17._decode_action(a) for a in case.get("history", [])]
        tracks = {}
        for p in {idn, pi}:
            st = sim.execute_instructions([pq.NumberState(tuple(R.permute_tuple(list(occ), p)))]).state
            for a in hist:
                st, err = c17._apply(sim, st, _f_relabel(a, p))
                if st is None:
                    break
            tracks[p] = st
        P = [idn] + ([pi] if pi != idn else [])
        path = [_f_enc(a) for a in hist]
        if case.get("prep_modes"):
            _f_prep_modes(ctx, rep, sim, occ, tracks[idn], P)
            return
        if case.get("pair"):
            a, b = [c17._decode_action(x) for x in case["pair"]]
            a["i"], b["i"] = 0, 1
            ch = {}
            for x in (a, b):
                ch[x["i"]], _ = c17._apply(sim, tracks[idn], x)
            _f_commute(ctx, rep, sim, kind, d, tracks[idn], {k: v for k, v in ch.items() if v is not None}, [a, b], path)
            return
        if case.get("measure"):
            sub = core.Check(ctx.prop, ctx.tier, seed, ctx.level)
            rep2 = _Rep(sub, base, replaying=True)
            _f_measure(sub, rep2, sim, tracks, P, path)
            for v in sub.violations:
                if v.case.get("measure") == case["measure"]:
                    ctx.violation(v.signature, v.case, v.message)
            return
        a = c17._decode_action(case["action"]) if case.get("action") else None
        if a is None:
            _f_compare(ctx, rep, tracks[idn], tracks, P, None, [])
            return
        ctr = {}
        for p in P:
            if tracks.get(p) is None:
                continue
            c2, err2 = c17._apply(sim, tracks[p], _f_relabel(a, p))
            if c2 is None and p != idn and err2[0] == "crash":
                rep.report({"sub": "relabel_crash", "gate": c17.CLS[a["g"]], "exc": type(err2[1]).__name__,
                            "relabelled_modes_class": c17._modes_class(_f_relabel(a, p)["modes"])},
                           {"history": path, "action": _f_enc(a), "pi": list(p)}, "the relabelled program raises %s" % type(err2[1]).__name__)
            ctr[p] = c2
        if ctr.get(idn) is not None:
            _f_compare(ctx, rep, ctr[idn], ctr, P, a, path)
        return
    hbar = case["hbar"]
    sim = c08._env(kind, d, cutoff, hbar)
    root_t, _ = c08._root(kind, d, cutoff, seed, case["root"])
    hist = [K.as_t(t) for t in case.get("history", [])]
    hist_j = [K.tjson(t) for t in hist]
    P = [idn] + ([pi] if pi != idn else [])
    if case.get("prep_modes"):
        ident = K.execute(sim, None, root_t, seed).state
        _prep_modes(ctx, rep, sim, kind, root_t, ident, P, seed)
        return
    tracks = {}
    for p in P:
        st = K.execute(sim, None, R.relabel_root(root_t, p), seed).state
        for t in hist:
            st = K.execute(sim, st, [R.relabel(t, p) if p != idn else t], seed).state
        tracks[p] = st
    if case.get("pair"):
        a, b = [K.as_t(x) for x in case["pair"]]
        occ = _root_occ(kind, d, cutoff, case["root"])
        exact = L.Exactness.root(occ, cutoff) if (occ is not None and kind in ("purefock", "fock")) else None
        for t in hist:
            exact = exact.step(t, d) if (exact is not None and t[0] in L.GATES) else None
        children = {0: _try(sim, tracks[idn], a, seed), 1: _try(sim, tracks[idn], b, seed)}
        _commute(ctx, rep, sim, kind, d, cutoff, tracks[idn], children, [a, b], hist_j, exact, 0, 1, seed)
        return
    if case.get("measure"):
        sub = core.Check(ctx.prop, ctx.tier, seed, ctx.level)
        rep2 = _Rep(sub, base, replaying=True)
        _measure_maps(sub, rep2, sim, kind, tracks, P, hist_j, {"level": case.get("level", "quick")})
        for v in sub.violations:
            if v.case.get("measure") == case["measure"]:
                ctx.violation(v.signature, v.case, v.message)
        return
    a = K.as_t(case["action"]) if case.get("action") else None
    if a is None:
        _compare_tracks(ctx, rep, kind, tracks[idn], tracks, P, None, [])
        return
    ctr = {}
    for p in P:
        c2 = _try(sim, tracks[p], R.relabel(a, p) if p != idn else a, seed)
        if isinstance(c2, L.Failure) and p != idn and c2.cls == "crash" and not isinstance(ctr.get(idn), L.Failure):
            rep.report({"sub": "relabel_crash", "gate_kind": K.gate_class(a[0]), "exc": c2.exc_type,
                        "relabelled_mode_order": L.mode_order_class(R.relabel(a, p)[1])},
                       {"history": hist_j, "action": K.tjson(a), "pi": list(p)}, "the relabelled program raises %s" % c2.exc_type)
        ctr[p] = c2
    if not isinstance(ctr[idn], L.Failure):
        _compare_tracks(ctx, rep, kind, ctr[idn], ctr, P, a, hist_j)


def replay(ctx, case, signature):
    _replay_case(ctx, case)
    same = [v for v in ctx.violations if v.signature == signature]
    if same:
        ctx.violations[:] = same
