"""Containment for C04 sub-explorations that call native code able to take the whole process
down (a C++ `throw std::string` crossing the XLA FFI boundary ends in std::terminate): the
work item, or a single recorded case, runs in a child process; the parent merges what the child
exported, or learns that -- and on which case -- it died.

    python -m mc.c04_child item <tier> <seed> <builddir> '<json item>'
    python -m mc.c04_child case <tier> <seed> <builddir> '<json case>'
"""

import json
import os
import subprocess
import sys
import tempfile

MARK = "C04-CHILD-EXPORT "


def _encode(exported):
    e = dict(exported)
    e["distinct"] = [d.hex() for d in e["distinct"]]
    return json.dumps(e)


def _decode(text):
    e = json.loads(text)
    e["distinct"] = [bytes.fromhex(d) for d in e["distinct"]]
    e["violations"] = [tuple(v) for v in e["violations"]]
    return e


def trace(case):
    """Called by the check right before a call that may kill the process."""
    path = os.environ.get("C04_TRACE_FILE")
    if path:
        with open(path, "w") as fh:
            json.dump(case, fh)


def run_contained(mode, tier, seed, builddir, payload, timeout=3600):
    """Returns (exported dict or None, crash info or None)."""
    fd, tpath = tempfile.mkstemp(prefix="c04trace", suffix=".json", dir=os.path.join(builddir, "vec") if os.path.isdir(os.path.join(builddir, "vec")) else None)
    os.close(fd)
    env = dict(os.environ)
    env["C04_TRACE_FILE"] = tpath
    verif = os.path.dirname(os.path.dirname(os.path.abspath(__file__)))
    try:
        p = subprocess.run(
            [sys.executable, "-m", "mc.c04_child", mode, tier, str(seed), builddir, json.dumps(payload)],
            capture_output=True, text=True, env=env, cwd=verif, timeout=timeout, errors="replace",
        )
        line = next((l for l in p.stdout.splitlines() if l.startswith(MARK)), None)
        if p.returncode == 0 and line is not None:
            return _decode(line[len(MARK):]), None
        last = None
        try:
            with open(tpath) as fh:
                txt = fh.read()
            last = json.loads(txt) if txt.strip() else None
        except (OSError, ValueError):
            last = None
        return None, {"returncode": p.returncode, "last_case": last, "stderr_tail": (p.stderr or "")[-1500:]}
    finally:
        try:
            os.unlink(tpath)
        except OSError:
            pass


def main():
    mode, tier, seed, builddir, payload = sys.argv[1], sys.argv[2], int(sys.argv[3]), sys.argv[4], json.loads(sys.argv[5])
    from mc import build, core

    build.install_native(builddir)
    from mc.checks import c04

    ctx = core.Check("C04", tier, seed, c04.LEVEL)
    ctx.max_samples = 2
    if mode == "item":
        c04.work_uncontained(ctx, tuple(payload))
    else:
        res = c04.evaluate_case(payload)
        if res is not None:
            ctx.violation(res[0], payload, res[1])
    sys.stdout.write("\n" + MARK + _encode(ctx.export()) + "\n")
    sys.stdout.flush()


if __name__ == "__main__":
    main()
