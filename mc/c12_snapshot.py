"""C12 helper: object-graph snapshot of everything a caller hands to piquasso.

A snapshot is a flat dict  path(tuple) -> leaf(tuple).  Leaves only contain plain
Python values, so two snapshots taken at different times are compared with `==`.
Identities (id()) are recorded only where identity is the thing the caller relies on: the
Program.instructions list and its entries, callables, Expression objects (conditions), the
shared rng and the connector.  Arrays, dicts and lists inside parameters / states / configs
are compared by value (an equal copy is not a modification).  ids are only ever compared
inside one process between "before" and "after" of the same live objects.

What is recorded (DESIGN 2.7):
  program     : id of Program.instructions (list identity), its length, ids of the entries
  instruction : type, public .modes (value + element types), params by key
                (type + value; arrays by bytes+dtype+shape+strides+flags; callables /
                Expression objects by identity, Expression also by source), condition
                (identity + type [+ source]), keys of _unresolved_params
  state       : every field of initial_state.__dict__, recursively (arrays by bytes)
  config      : Config.__dict__; the shared numpy Generator `rng` (and the shared
                random.Random `_random`, where the tree has it) only by identity: their
                internal state is advanced by sampling on purpose
  arrays      : every ndarray argument (bytes of the array AND of its base buffer)
"""

import hashlib
import random as _random_mod

import numpy as np

_PRIMS = (type(None), bool, int, float, complex, str, bytes)


def _sha(b):
    return hashlib.sha1(b).hexdigest()[:16]


def array_leaf(a):
    """bytes + dtype + shape + strides + flags (+ the base buffer if `a` is a view).
    Value only: an array replaced by an equal copy is not a modification."""
    base = a.base if isinstance(a.base, np.ndarray) else None
    return (
        "ndarray",
        a.dtype.str,
        tuple(a.shape),
        tuple(a.strides),
        bool(a.flags.writeable),
        bool(a.flags.c_contiguous),
        bool(a.flags.f_contiguous),
        _sha(a.tobytes()),
        None if base is None else _sha(base.tobytes()),
    )


def _is_expression(v):
    return type(v).__name__ == "Expression" and hasattr(v, "_src") and hasattr(v, "_tree")


def snap_value(out, path, v, depth=0, seen=None):
    """Record `v` under `path` (recursively) into the flat dict `out`."""
    if seen is None:
        seen = set()
    if isinstance(v, _PRIMS):
        out[path] = ("py", type(v).__name__, repr(v))
        return
    if isinstance(v, np.generic):
        out[path] = ("np", v.dtype.str, repr(v.item()))
        return
    if isinstance(v, np.ndarray):
        out[path] = array_leaf(v)
        return
    if isinstance(v, np.random.Generator):
        out[path] = ("rng", id(v))  # internal state deliberately excluded
        return
    if isinstance(v, _random_mod.Random):
        out[path] = ("random.Random", id(v))  # owned + shared by the Config like rng; state excluded
        return
    if _is_expression(v):
        out[path] = ("Expression", id(v), v._src)
        return
    if isinstance(v, type):
        out[path] = ("class", v.__module__ + "." + v.__qualname__)
        return
    if isinstance(v, tuple):
        out[path] = ("tuple", len(v))
        for i, x in enumerate(v):
            snap_value(out, path + (i,), x, depth + 1, seen)
        return
    if id(v) in seen or depth > 8:
        out[path] = ("ref", type(v).__name__, id(v))
        return
    if isinstance(v, list):
        seen.add(id(v))
        out[path] = ("list", len(v))
        for i, x in enumerate(v):
            snap_value(out, path + (i,), x, depth + 1, seen)
        return
    if isinstance(v, dict):
        seen.add(id(v))
        out[path] = ("dict", tuple(repr(k) for k in v))
        for k, x in v.items():
            snap_value(out, path + (repr(k),), x, depth + 1, seen)
        return
    if isinstance(v, (set, frozenset)):
        out[path] = ("set", tuple(sorted(repr(x) for x in v)))
        return
    tname = type(v).__module__ + "." + type(v).__qualname__
    if callable(v):
        out[path] = ("callable", tname, id(v))
        return
    if tname.startswith("fractions."):
        out[path] = ("py", "Fraction", repr(v))
        return
    if type(v).__name__.endswith("Connector"):
        out[path] = ("connector", tname, id(v))
        return
    d = getattr(v, "__dict__", None)
    if d is None:
        out[path] = ("opaque", tname, id(v))
        return
    seen.add(id(v))
    out[path] = ("obj", tname, tuple(d))
    for k, x in d.items():
        snap_value(out, path + (k,), x, depth + 1, seen)


def snap_instruction(out, path, ins):
    out[path + ("type",)] = ("class", type(ins).__module__ + "." + type(ins).__qualname__)
    out[path + ("id",)] = ("id", id(ins))
    modes = ins.modes
    out[path + ("modes",)] = (
        "modes",
        type(modes).__name__,
        tuple(int(m) for m in modes) if isinstance(modes, (tuple, list)) else repr(modes),
    )
    params = ins.params
    out[path + ("params",)] = ("dict", tuple(params))
    for k, v in params.items():
        snap_value(out, path + ("param", k), v)
    c = ins.condition
    if c is None:
        out[path + ("condition",)] = ("py", "NoneType", "None")
    elif _is_expression(c):
        out[path + ("condition",)] = ("Expression", id(c), c._src)
    else:
        out[path + ("condition",)] = ("callable", type(c).__module__ + "." + type(c).__qualname__, id(c))
    un = getattr(ins, "_unresolved_params", None)
    out[path + ("unresolved_keys",)] = ("keys", None if un is None else tuple(un))


def snap_instructions(out, path, instructions):
    out[path + ("list",)] = ("list", id(instructions), len(instructions), tuple(id(i) for i in instructions))
    for k, ins in enumerate(instructions):
        snap_instruction(out, path + (k,), ins)


def snap_config(out, path, config):
    out[path] = ("obj", type(config).__name__, tuple(config.__dict__))
    for k, v in config.__dict__.items():
        snap_value(out, path + (k,), v)


def snapshot(program=None, instructions=None, initial_state=None, config=None, simulator=None, arrays=None):
    out = {}
    if program is not None:
        out[("program", "id")] = ("id", id(program))
        out[("program", "keys")] = ("keys", tuple(program.__dict__))
        snap_instructions(out, ("instr",), program.instructions)
    elif instructions is not None:
        snap_instructions(out, ("instr",), instructions)
    if initial_state is not None:
        snap_value(out, ("initial_state",), initial_state)
    if config is not None:
        snap_config(out, ("config",), config)
    if simulator is not None:
        out[("simulator", "d")] = ("py", type(simulator.d).__name__, repr(simulator.d))
        snap_config(out, ("simconfig",), simulator.config)
    for name, a in (arrays or {}).items():
        out[("array", name)] = array_leaf(a)
    return out


def diff(before, after):
    """Sorted list of (path, before_leaf_or_None, after_leaf_or_None) that differ."""
    res = []
    for p in before:
        if p not in after:
            res.append((p, before[p], None))
        elif before[p] != after[p]:
            res.append((p, before[p], after[p]))
    for p in after:
        if p not in before:
            res.append((p, None, after[p]))
    res.sort(key=lambda t: repr(t[0]))
    return res


def _kind_of_param_leaf(leaf):
    if leaf is None:
        return "missing"
    if leaf[0] == "py":
        return "str" if leaf[1] == "str" else "value"
    if leaf[0] in ("np", "ndarray"):
        return "value"
    if leaf[0] == "Expression":
        return "Expression"
    if leaf[0] == "callable":
        return "callable"
    return leaf[0]


def classify(differences):
    """Turn raw differences into (sub, attrs, path, before, after) records.

    sub in: modes, params, condition, unresolved_keys, program, instruction_identity,
            initial_state, config, simulator_config, array, other.
    For params attrs has  param_kind (kind before) and became (kind after):
      str -> Expression with the same source        : the compiled object was written back
      str/callable -> value                         : the parameter was left resolved
    """
    recs = []
    handled_param_dicts = set()
    for path, b, a in differences:
        head = path[0]
        if head == "instr":
            if len(path) >= 3 and path[2] == "modes":
                recs.append(("modes", {}, path, b, a))
            elif len(path) >= 4 and path[2] == "param":
                if len(path) > 4:
                    # inside a container parameter: report once per parameter
                    key = path[:4]
                    if key in handled_param_dicts:
                        continue
                    handled_param_dicts.add(key)
                kb, ka = _kind_of_param_leaf(b), _kind_of_param_leaf(a)
                became = ka
                if kb == "str" and ka == "Expression" and b is not None and a is not None:
                    try:
                        src = eval(b[2])  # repr of the original str
                    except Exception:
                        src = None
                    became = "Expression" if (src is not None and src.strip() == a[2]) else "Expression_other_source"
                elif kb in ("str", "callable", "Expression") and ka == "value":
                    became = "resolved_value"
                elif kb == ka:
                    became = "changed_" + ka
                recs.append(("params", {"param_kind": kb, "became": became}, path, b, a))
            elif len(path) >= 3 and path[2] == "params":
                # key set / dict identity of the params dict
                recs.append(("params", {"param_kind": "dict", "became": "dict_changed"}, path, b, a))
            elif len(path) >= 3 and path[2] == "condition":
                recs.append(("condition", {}, path, b, a))
            elif len(path) >= 3 and path[2] == "unresolved_keys":
                recs.append(("unresolved_keys", {}, path, b, a))
            elif len(path) >= 3 and path[2] in ("id", "type"):
                recs.append(("instruction_identity", {}, path, b, a))
            elif path[1] == "list":
                recs.append(("program", {}, path, b, a))
            else:
                recs.append(("other", {}, path, b, a))
        elif head == "program":
            recs.append(("program", {}, path, b, a))
        elif head == "initial_state":
            recs.append(("initial_state", {"field": str(path[1]) if len(path) > 1 else ""}, path, b, a))
        elif head == "config":
            recs.append(("config", {"field": str(path[1]) if len(path) > 1 else ""}, path, b, a))
        elif head in ("simconfig", "simulator"):
            recs.append(("simulator_config", {"field": str(path[1]) if len(path) > 1 else ""}, path, b, a))
        elif head == "array":
            recs.append(("array", {"array": str(path[1])}, path, b, a))
        else:
            recs.append(("other", {}, path, b, a))
    return recs


def describe(rec):
    sub, attrs, path, b, a = rec

    def short(leaf):
        if leaf is None:
            return "<absent>"
        leaf = tuple(x for x in leaf if not (isinstance(x, int) and x > 10**6))  # drop ids
        return repr(leaf)

    return "%s: %s -> %s" % ("/".join(str(p) for p in path), short(b), short(a))
