"""Input catalogues of the C04 check: matrix alphabets (exact Gaussian-rational /
dyadic-rational, so that the float handed to the kernel IS the exact number the
reference uses), multiplicity-vector enumerations, memory layouts.

No piquasso imports.  ``seed`` (VERIF_SEED) only changes the *generic* matrices.
"""

import itertools
import math
import random

from mc.refmodel import kernels as K

DEN = 16  # generic entries are (p + q i)/16 with |p|,|q| <= 24: exact in float32 and float64


def _rnd(seed, *tag):
    return random.Random("c04|%d|%s" % (seed, "|".join(str(t) for t in tag)))


def _gen_entry(r, real=False):
    while True:
        p = r.randint(-24, 24)
        q = 0 if real else r.randint(-24, 24)
        if p or q:
            return (p, q)


def generic(seed, k, l, idx):
    r = _rnd(seed, "generic", k, l, idx)
    return ([[_gen_entry(r) for _ in range(l)] for _ in range(k)], DEN)


def generic_symmetric(seed, m, idx):
    r = _rnd(seed, "sym", m, idx)
    a = [[None] * m for _ in range(m)]
    for i in range(m):
        for j in range(i, m):
            a[i][j] = a[j][i] = _gen_entry(r)
    return (a, DEN)


def generic_vector(seed, m, idx):
    r = _rnd(seed, "vec", m, idx)
    return ([_gen_entry(r) for _ in range(m)], DEN)


def _ints(rows):
    return [[(int(x), 0) if not isinstance(x, tuple) else x for x in row] for row in rows]


I = (0, 1)
MI = (0, -1)


# ---------------------------------------------------------------------------------------
# permanent: matrices per shape


def alpha2():
    """All 81 2x2 matrices over {0, 1, i}."""
    out = []
    alpha = [(0, 0), (1, 0), (0, 1)]
    names = {(0, 0): "0", (1, 0): "1", (0, 1): "i"}
    for e in itertools.product(alpha, repeat=4):
        out.append(("a2_" + "".join(names[x] for x in e), ([[e[0], e[1]], [e[2], e[3]]], 1)))
    return out


def perm_matrices(seed, k, l, tier):
    """[(name, (num, den))] for the k x l permanent (without the {0,1,i} alphabet)."""
    ngen = 3 if tier == "quick" else 6
    out = []
    if (k, l) == (2, 2):
        out += [
            ("herm", ([[(2, 0), (1, 1)], [(1, -1), (-1, 0)]], 2)),
            ("sym", ([[(1, 1), (2, -1)], [(2, -1), (-3, 0)]], 2)),
            ("rank1", ([[(2, 0), (0, -1)], [(2, 2), (1, -1)]], 2)),
            ("hadamard", (_ints([[1, -1], [1, 1]]), 1)),
        ]
        out += [("generic%d" % g, generic(seed, 2, 2, g)) for g in range(ngen)]
    elif (k, l) == (3, 3):
        out += [
            ("zero", (_ints([[0] * 3] * 3), 1)),
            ("identity", (_ints([[1, 0, 0], [0, 1, 0], [0, 0, 1]]), 1)),
            ("ones", (_ints([[1] * 3] * 3), 1)),
            ("rank1", ([[(2, 0), (0, -1), (1, 1)], [(2, 2), (1, -1), (0, 2)], [(-2, 0), (0, 1), (-1, -1)]], 2)),
            ("cyclic", (_ints([[0, 1, 0], [0, 0, 1], [1, 0, 0]]), 1)),
            ("zero_row", ([[(1, 0), (0, 1), (1, 1)], [(0, 0), (0, 0), (0, 0)], [(2, 0), (-1, 0), (0, -1)]], 1)),
            ("zero_col", ([[(1, 0), (0, 0), (1, 1)], [(0, 1), (0, 0), (3, 0)], [(2, 0), (0, 0), (0, -1)]], 1)),
            ("herm", ([[(2, 0), (1, 1), (0, -3)], [(1, -1), (-1, 0), (2, 2)], [(0, 3), (2, -2), (4, 0)]], 4)),
            ("sym", ([[(1, 1), (2, -1), (0, 3)], [(2, -1), (-3, 0), (1, 1)], [(0, 3), (1, 1), (2, -2)]], 4)),
            ("phases", ([[(1, 0), (1, 0), (1, 0)], [(1, 0), I, (-1, 0)], [(1, 0), (-1, 0), MI]], 1)),
        ]
        out += [("generic%d" % g, generic(seed, 3, 3, g)) for g in range(2 if tier == "quick" else 6)]
    elif k == l:
        out.append(("ones", (_ints([[1] * l] * k), 1)))
        out.append(("generic0", generic(seed, k, l, 0)))
        if tier != "quick":
            band = [[(0, 0)] * l for _ in range(k)]
            for i in range(k):
                band[i][i] = (1, 0)
                band[i][(i + 1) % l] = I
            out.append(("band", (band, 1)))
    else:
        out.append(("ones", (_ints([[1] * l] * k), 1)))
        out.append(("generic0", generic(seed, k, l, 0)))
    return out


def find_perm_matrix(seed, k, l, name, tier="thorough"):
    if name.startswith("a2_"):
        return dict(alpha2())[name]
    for t in ("quick", "thorough"):
        d = dict(perm_matrices(seed, k, l, t))
        if name in d:
            return d[name]
    raise KeyError(name)


# ---------------------------------------------------------------------------------------
# multiplicity vectors


def compositions(total, parts):
    return K.compositions_bounded(total, (total,) * parts)


def partitions(total, maxparts):
    """Partitions of total into at most maxparts parts, each as a descending tuple padded
    with zeros."""

    def rec(left, maxpart, slots):
        if left == 0:
            yield (0,) * slots
            return
        if slots == 0:
            return
        for p in range(min(left, maxpart), 0, -1):
            for rest in rec(left - p, p, slots - 1):
                yield (p,) + rest

    return list(rec(total, total, maxparts))


def representative_cols(total, l):
    """Column multiplicities used where the full product rows x cols is too large: every
    partition of the total, once descending from the left and once ascending (the column
    multiplicities enter the kernel only as exponents; the Gray-code walk, the binomial
    weights and the job partition are functions of the ROW vector, which stays exhaustive)."""
    out = []
    seen = set()
    for p in partitions(total, l):
        for c in (p, p[::-1]):
            if c not in seen:
                seen.add(c)
                out.append(c)
    return out


def few_cols(total, l):
    """A handful of column vectors for the high-multiplicity band."""
    out = []
    seen = set()
    cands = [(total,) + (0,) * (l - 1), (0,) * (l - 1) + (total,)]
    if l >= 2:
        cands.append((total // 2,) + (0,) * (l - 2) + (total - total // 2,))
        cands.append((1,) + (0,) * (l - 2) + (total - 1,) if total >= 1 else (0,) * l)
        base = [total // l] * l
        base[0] += total - sum(base)
        cands.append(tuple(base))
    for c in cands:
        if len(c) == l and sum(c) == total and c not in seen:
            seen.add(c)
            out.append(c)
    return out


def weight_bound(rows):
    """Upper bound of every value the kernel's 32-bit `int binomial_coeff` (and the products
    formed while updating it) can take for this row-multiplicity vector: the kernel splits
    one copy off the smallest non-zero row and weights a sign pattern by
    prod_i C(r'_i, k_i); the update multiplies by a factor <= max r'_i before dividing."""
    r = [int(x) for x in rows]
    nz = [i for i, x in enumerate(r) if x > 0]
    if not nz:
        return 1
    i = min(nz, key=lambda i: (r[i], i))
    r[i] -= 1
    w = 1
    for x in r:
        w *= math.comb(x, x // 2)
    return w * max(max(r), 1)


def weight_class(rows):
    return "binomial_weight>=2^31" if weight_bound(rows) >= 2**31 else "binomial_weight<2^31"


# ---------------------------------------------------------------------------------------
# hafnian inputs


def haf_matrices(seed, m, tier):
    ngen = 2 if tier == "quick" else 4
    out = [
        ("zero", (_ints([[0] * m] * m), 1)),
        ("identity", (_ints([[1 if i == j else 0 for j in range(m)] for i in range(m)]), 1)),
        ("ones", (_ints([[1] * m] * m), 1)),
        ("all_i", ([[I] * m for _ in range(m)], 1)),
        ("offdiag", (_ints([[0 if i == j else 1 for j in range(m)] for i in range(m)]), 1)),
    ]
    if m >= 2:
        u = [(1, 0), (0, 1), (-1, 1), (2, 0), (1, -2), (0, -1)][:m]
        out.append(("rank1", ([[K.g_mul(a, b) for b in u] for a in u], 2)))
        path = [[(0, 0)] * m for _ in range(m)]
        for i in range(m - 1):
            path[i][i + 1] = path[i + 1][i] = (1, 0) if i % 2 == 0 else I
        out.append(("path", (path, 1)))
    out += [("generic%d" % g, generic_symmetric(seed, m, g)) for g in range(ngen)]
    return out


def haf_diagonals(seed, m, tier):
    out = [("dzero", ([(0, 0)] * m, 1)), ("dgeneric0", generic_vector(seed, m, 0))]
    if tier != "quick":
        out.append(("dones", ([(1, 0)] * m, 1)))
    return out


# ---------------------------------------------------------------------------------------
# torontonian inputs: A = 1 - M with M symmetric positive definite, dyadic entries.
# M = L L^T with L lower triangular => every principal sub-matrix of M is positive definite.


def _llt(L, den):
    n = len(L)
    M = [[sum(L[i][k] * L[j][k] for k in range(n)) for j in range(n)] for i in range(n)]
    return M, den * den


def tor_matrices(seed, n, tier):
    """[(name, (A_num, den))], A = A_num/den real symmetric 2n x 2n in xpxp ordering with
    1 - A_Z positive definite for every mode subset Z."""
    dim = 2 * n
    out = []

    def from_L(name, L, den):
        M, d2 = _llt(L, den)
        A = [[(d2 if i == j else 0) - M[i][j] for j in range(dim)] for i in range(dim)]
        out.append((name, (A, d2)))

    out.append(("zero", ([[0] * dim for _ in range(dim)], 1)))
    # diagonal: independent modes
    out.append(("diag", ([[((i % 3) + 1) * 2 if i == j else 0 for j in range(dim)] for i in range(dim)], 16)))
    # thermal-like: A = c * identity with different c per mode
    out.append(("thermal", ([[(1 + (i // 2) % 3) * 4 if i == j else 0 for j in range(dim)] for i in range(dim)], 32)))
    if n >= 1:
        # single-mode-squeezed like 2x2 blocks: M = diag(s, 1/s)-ish (dyadic): blocks [[3/4+..]]
        L = [[0] * dim for _ in range(dim)]
        for m in range(n):
            L[2 * m][2 * m] = 6 + (m % 2)
            L[2 * m + 1][2 * m] = 1 + (m % 3)
            L[2 * m + 1][2 * m + 1] = 9 - (m % 2)
        from_L("blocks", L, 8)
    if n >= 2:
        # nearest-neighbour coupled chain
        L = [[0] * dim for _ in range(dim)]
        for i in range(dim):
            L[i][i] = 7 + (i % 3)
            if i >= 1:
                L[i][i - 1] = 1 if i % 2 else -2
            if i >= 2:
                L[i][i - 2] = -1
        from_L("chain", L, 8)
        # two-mode-squeezing like: couple x_m with x_{m+1}, p_m with -p_{m+1}
        L = [[0] * dim for _ in range(dim)]
        for i in range(dim):
            L[i][i] = 8
        for m in range(n - 1):
            L[2 * (m + 1)][2 * m] = 3
            L[2 * (m + 1) + 1][2 * m + 1] = -3
        from_L("tms", L, 8)
    ngen = 2 if tier == "quick" else 5
    for g in range(ngen):
        r = _rnd(seed, "tor", n, g)
        L = [[0] * dim for _ in range(dim)]
        for i in range(dim):
            L[i][i] = r.randint(12, 20)
            for j in range(i):
                L[i][j] = r.randint(-4, 4)
        from_L("generic%d" % g, L, 16)
    return out


def tor_displacements(seed, n, tier):
    dim = 2 * n
    out = [("yzero", ([0] * dim, 1)), ("yunit", ([8 if i == 0 else 0 for i in range(dim)], 16))]
    r = _rnd(seed, "tory", n)
    out.append(("ygeneric", ([r.randint(-12, 12) for _ in range(dim)], 16)))
    if tier != "quick":
        out.append(("ysparse", ([(5 if i % 3 == 1 else 0) for i in range(dim)], 16)))
    return out


# ---------------------------------------------------------------------------------------
# Pfaffian inputs (real antisymmetric, dyadic)


def antisym_from_upper(n, upper):
    a = [[0] * n for _ in range(n)]
    it = iter(upper)
    for i in range(n):
        for j in range(i + 1, n):
            v = next(it)
            a[i][j] = v
            a[j][i] = -v
    return a


def pf_structured(seed, n, tier):
    """[(name, (num, den))] real antisymmetric n x n."""
    out = [("zero", ([[0] * n for _ in range(n)], 1))]
    if n >= 2:
        # canonical symplectic form
        J = [[0] * n for _ in range(n)]
        for m in range(n // 2):
            J[2 * m][2 * m + 1] = 1
            J[2 * m + 1][2 * m] = -1
        out.append(("J", (J, 1)))
        # every leading pivot zero: pairs (i, n-1-i)
        P = [[0] * n for _ in range(n)]
        for i in range(n // 2):
            P[i][n - 1 - i] = i + 1
            P[n - 1 - i][i] = -(i + 1)
        out.append(("antidiag_zero_pivots", (P, 1)))
        # ones above the diagonal
        out.append(("upper_ones", (antisym_from_upper(n, [1] * (n * (n - 1) // 2)), 1)))
        # rank deficient: first row/col zero
        Z = antisym_from_upper(n, [((i * 7 + 3) % 11) - 5 for i in range(n * (n - 1) // 2)])
        for j in range(n):
            Z[0][j] = Z[j][0] = 0
        out.append(("zero_first_row", (Z, 1)))
        # pivot (0,1) zero but the column is not: needs the row swap
        S = antisym_from_upper(n, [((i * 5 + 1) % 9) - 4 for i in range(n * (n - 1) // 2)])
        S[0][1] = S[1][0] = 0
        out.append(("zero_01_pivot", (S, 4)))
    ngen = 3 if tier == "quick" else 8
    for g in range(ngen):
        r = _rnd(seed, "pf", n, g)
        out.append(("generic%d" % g, (antisym_from_upper(n, [r.randint(-24, 24) for _ in range(n * (n - 1) // 2)]), DEN)))
    return out
