"""Private helpers of C08 (physicality invariants); the template / instantiate / explorer part is also used by C16.

Nothing here decides a property by itself except the predicate functions `*_findings`, which take a LIVE
piquasso state and return a list of raw findings `(sub, observable, message)`; an empty list means that the
state satisfies every invariant of C08 that applies to its class.

templates
    (cls_name, modes, params) as in mc.lockstep, extended: parameter values may be floats, "@name" (a matrix of
    mc.lockstep.catalogue), nested lists of floats (-> ndarray) or lists of ints for the keys in INT_KEYS
    (occupation tuples, photon counts).  `tjson` / `as_t` convert to and from the JSON form of replay cases.
"""

import itertools

import numpy as np

INT_KEYS = ("occupation_numbers", "photon_counts", "ket", "bra")
PREPARATIONS = ("Vacuum", "Thermal", "Mean", "Covariance", "NumberState", "DensityMatrix", "StateVector")
MEASUREMENTS = ("ParticleNumberMeasurement", "PostSelectPhotons", "HomodyneMeasurement", "HeterodyneMeasurement",
                "GeneraldyneMeasurement")
# instructions that conserve the total photon number on a truncated Fock space (block diagonal in the sectors)
NUMBER_CONSERVING = ("Phaseshifter", "Fourier", "Beamsplitter", "Beamsplitter5050", "MachZehnder", "Interferometer",
                     "Kerr", "CrossKerr", "SNAP")
CHANNELS = ("Attenuator", "DeterministicGaussianChannel", "Loss", "UniformLoss", "LossyInterferometer")

PROB_TOL = 1e-12      # every reported probability must lie in [-PROB_TOL, 1 + PROB_TOL]
NORM_TOL = 1e-12      # pure Fock norm <= 1 + NORM_TOL, preserved to NORM_TOL by number conserving gates
TOL = 1e-9            # spectra, purity, traces, symmetry


# ---------------------------------------------------------------------------------------
# templates


def as_t(x):
    cls, modes, params = x
    return (str(cls), tuple(int(m) for m in modes), dict(params))


def tjson(t):
    cls, modes, params = t
    out = {}
    for k, v in params.items():
        if isinstance(v, str):
            out[k] = v
        elif isinstance(v, (list, tuple, np.ndarray)):
            out[k] = np.asarray(v).tolist()
        else:
            out[k] = float(v)
    return [cls, [int(m) for m in modes], out]


def short(t):
    return "%s%s" % (t[0], tuple(t[1]))


def gate_class(cls):
    """coarse, stable class of an instruction for signatures"""
    from mc import lockstep as L

    if cls in L.GATES:
        return L.gate_kind(cls)
    if cls in ("SNAP",):
        return "kerr"
    if cls in ("CubicPhase",):
        return "cubic_phase"
    if cls in ("DeterministicGaussianChannel",):
        return "gaussian_channel"
    if cls in ("Loss", "UniformLoss", "LossyInterferometer"):
        return "loss"
    if cls in PREPARATIONS:
        return "preparation"
    if cls in ("HomodyneMeasurement", "HeterodyneMeasurement", "GeneraldyneMeasurement"):
        return "generaldyne_branch"
    if cls == "ParticleNumberMeasurement":
        return "particle_number_branch"
    if cls == "PostSelectPhotons":
        return "postselection"
    if cls in ("IsingXX", "GaussianHamiltonian", "ControlledPhase"):
        return "fermionic_active"
    return "other"


def is_unitary_gate(cls):
    return cls not in CHANNELS and cls not in MEASUREMENTS and cls not in PREPARATIONS


def instantiate(t, seed=0):
    """fresh Instruction object for a template"""
    import piquasso as pq
    from mc import lockstep as L

    cls, modes, params = as_t(t)
    p = {}
    for k, v in params.items():
        if isinstance(v, str) and v.startswith("@"):
            p[k] = np.array(L.catalogue(seed)[v[1:]])
        elif isinstance(v, (list, tuple, np.ndarray)):
            p[k] = tuple(int(x) for x in v) if k in INT_KEYS else np.array(v, dtype=float)
        else:
            p[k] = v
    if cls in ("IsingXX", "GaussianHamiltonian", "ControlledPhase"):
        import piquasso.fermionic as pf

        ins = getattr(pf, cls)(**p)
    else:
        ins = getattr(pq, cls)(**p)
    return ins.on_modes(*modes) if modes else ins


def execute(sim, state, templates, seed=0, shots=1):
    """public path; `state` None = the simulator's own initial state (templates then start with preparations)"""
    return sim.execute_instructions([instantiate(t, seed) for t in templates], initial_state=state, shots=shots)


def try_step(sim, state, t, seed=0):
    from mc import lockstep as L

    try:
        return execute(sim, state, [t], seed).state
    except Exception as e:  # classified by the caller
        return L.Failure(e)


def ordered_subsets(d, kmin=1, kmax=None):
    kmax = d if kmax is None else kmax
    out = []
    for k in range(kmin, kmax + 1):
        out += list(itertools.permutations(range(d), k))
    return out


# ---------------------------------------------------------------------------------------
# extra alphabets (what mc.lockstep.alphabet does not contain)


def _rot(a):
    return np.array([[np.cos(a), -np.sin(a)], [np.sin(a), np.cos(a)]])


def _omega(k):
    return np.kron(np.eye(k), np.array([[0.0, 1.0], [-1.0, 0.0]]))


def channel_noise_floor(X):
    """smallest y such that (X, y*I) satisfies BOTH the documented condition  Y + i Om - i X Om X^T >= 0  and the
    condition the library's validation actually tests  Y - i Om - i X Om X^T >= 0"""
    k = len(X) // 2
    Om = _omega(k)
    XO = X @ Om @ X.T
    a = np.abs(np.linalg.eigvalsh(1j * (Om - XO))).max()
    b = np.abs(np.linalg.eigvalsh(1j * (Om + XO))).max()
    return float(a), float(b)


def gaussian_channels(d, tier, seed):
    """-> (templates, refused_expected): DeterministicGaussianChannel lattice (valid under the documented AND the tested
    condition, margin 0.02) on every mode / on ordered pairs, thermal Attenuators; plus documented-valid channels that the
    library's validation is known to refuse (counted as refused cells, never a violation)."""
    from mc import lockstep as L

    g = L.generic(seed)
    S = _rot(0.4) @ np.diag([np.exp(0.3), np.exp(-0.3)]) @ _rot(-0.9)  # det 1
    one = [
        ("replace", np.zeros((2, 2)), None),
        ("noise", np.eye(2), None),
        ("attenuate_rotate", np.cos(g["att_theta"]) * _rot(0.7), None),
        ("amplify", 1.3 * _rot(-0.3), S),
        ("conjugate", 0.8 * np.diag([1.0, -1.0]), None),
        ("generic", np.array([[0.9, 0.4], [-0.2, 0.7]]), S),
        ("singular", np.array([[1.0, 0.0], [0.0, 0.0]]), None),
    ]
    if tier == "quick":
        one = [o for o in one if o[0] in ("replace", "attenuate_rotate", "amplify", "conjugate", "generic")]
    out = []
    for m in range(d):
        out.append(("Attenuator", (m,), {"theta": g["att_theta"], "mean_thermal_excitation": 0.7}))
        for name, X, shape in one:
            a, b = channel_noise_floor(X)
            y = max(a, b) + 0.02
            Y = y * (np.eye(2) if shape is None else shape @ shape.T)
            out.append(("DeterministicGaussianChannel", (m,), {"X": X.tolist(), "Y": Y.tolist()}))
    if d >= 2:
        P = np.eye(4)[[0, 2, 1, 3]]  # xpxp -> xxpp; a real beamsplitter rotates (x1,x2) and (p1,p2) alike
        bs = P.T @ np.kron(np.eye(2), _rot(0.6)) @ P
        X2 = 0.85 * bs + 0.05 * np.array([[0, 1, 0, 0], [0, 0, 2, 0], [1, 0, 0, -1], [0, -1, 0, 0.5]])
        a, b = channel_noise_floor(X2)
        Y2 = (max(a, b) + 0.02) * np.eye(4)
        pairs = list(itertools.permutations(range(d), 2)) if tier != "quick" else sorted({(d - 1, 0), (0, 1)})
        for mm in pairs:
            out.append(("DeterministicGaussianChannel", mm, {"X": X2.tolist(), "Y": Y2.tolist()}))
    c = np.cos(g["att_theta"])
    refused = [
        ("DeterministicGaussianChannel", (0,), {"X": (c * np.eye(2)).tolist(), "Y": ((1 - c * c) * np.eye(2)).tolist()}),
        ("DeterministicGaussianChannel", (d - 1,), {"X": np.eye(2).tolist(), "Y": (0.3 * np.eye(2)).tolist()}),
    ]
    return out, refused


def fock_extras(kind, d, cutoff, tier, seed):
    """SNAP (number conserving, diagonal) and CubicPhase (non-Gaussian active) on every mode"""
    from mc import lockstep as L

    if kind not in ("purefock", "fock"):
        return []
    g = L.generic(seed)
    theta = [round(0.3 + 0.47 * k * (1 + 0.1 * k) + (g["kerr_xi"] - 0.41), 6) for k in range(cutoff)]
    out = []
    for m in range(d):
        out.append(("SNAP", (m,), {"theta": theta}))
        out.append(("CubicPhase", (m,), {"gamma": 0.07}))
    return out


def passive_extras(d, tier, seed):
    """Loss / UniformLoss / LossyInterferometer of the passive simulator"""
    out = []
    for m in range(d):
        out.append(("Loss", (m,), {"transmissivity": 0.35}))
    out.append(("Loss", (d - 1,), {"transmissivity": 0.0}))
    out.append(("UniformLoss", (), {"transmissivity": 0.8}))
    if d >= 2:
        out.append(("LossyInterferometer", (d - 1, 0), {"matrix": "@T2lossy"}))
    if d >= 3:
        out.append(("LossyInterferometer", () if d == 3 else (2, 0, 1), {"matrix": "@T3lossy"}))
        out.append(("UniformLoss", (2, 0), {"transmissivity": 0.5}))
    return out


def gaussian_roots(d, seed):
    """name -> (templates, pure?)"""
    nbar = [0.3, 0.0, 1.2, 0.6][:d]
    rng = np.random.default_rng([808, int(seed), d])
    W = rng.uniform(-1, 1, size=(2 * d, 2 * d))
    W = (W + W.T) / 2
    W *= 0.25 / np.abs(np.linalg.eigvalsh(W)).max()
    cov = 1.3 * np.eye(2 * d) + W  # >= 1.05 > spectral radius of i*Omega: physical, mixed, correlated
    mean = np.round(rng.uniform(-0.5, 0.5, size=2 * d), 6)
    return {
        "vac": ([("Vacuum", (), {})], True),
        "thermal": ([("Thermal", (), {"mean_photon_numbers": nbar})], False),
        "mixed": ([("Covariance", (), {"cov": np.round(cov, 9).tolist()}), ("Mean", (), {"mean": mean.tolist()})], False),
    }


def gd3_histories(seed):
    """name -> (root name of gaussian_roots(3, seed), templates): unitary histories on d = 3 that entangle ALL three modes
    (single-mode squeezers of different strength / angle on every mode, then beamsplitters 0-1 and 1-2, optionally a two-mode
    squeezer closing the triangle and a displacement), so that the conditional state of the unmeasured mode(s) depends on how the
    detection covariances of SEVERAL measured modes are assembled.  VERIF_SEED moves the values by <= 0.04."""
    from mc import lockstep as L

    g = L.generic(seed)
    e = g["sq_r"] - 0.23, g["bs_theta"] - 0.37, g["sq_phi"] - 0.67  # 0 for seed 0
    sq = [("Squeezing", (m,), {"r": round(r + e[0], 6), "phi": round(p + e[2], 6)}) for m, (r, p) in enumerate(((0.5, 0.3), (0.4, -0.7), (0.3, 1.9)))]
    bs = [("Beamsplitter", (0, 1), {"theta": round(0.7 + e[1], 6), "phi": 0.4}), ("Beamsplitter", (1, 2), {"theta": round(1.1 - e[1], 6), "phi": -0.3})]
    s2 = ("Squeezing2", (2, 0), {"r": round(0.35 + e[0], 6), "phi": 1.13})
    dp = ("Displacement", (1,), {"r": 0.31, "phi": 0.47})
    return {
        "sq3bs2": ("vac", sq + bs),
        "sq3bs2s2": ("vac", sq + bs + [s2, dp]),
        "th_s2bs": ("thermal", [("Squeezing2", (0, 1), {"r": round(0.6 + e[0], 6), "phi": 0.2}), bs[1], sq[2], ("Beamsplitter", (2, 0), {"theta": 0.5, "phi": 1.0})]),
    }


def gd3_measurements(level):
    """general-dyne lattice of the d = 3 box: homodyne angles x detector squeezings z (anisotropic detectors diag(z^2, 1/z^2)), general-dyne with
    pure anisotropic (diagonal both ways, tilted), noisy anisotropic and isotropic detection covariances, heterodyne"""
    R = _rot(0.7)
    out = [("HomodyneMeasurement", {"phi": p}) for p in (0.0, 0.3, round(np.pi / 2, 12), -1.2)]
    out += [("HomodyneMeasurement", {"phi": 0.7, "z": 0.01}), ("HomodyneMeasurement", {"phi": 2.5, "z": 0.5})]
    out += [("HeterodyneMeasurement", {})]
    covs = [[[2.0, 0.3], [0.3, 0.545]], [[0.2, 0.0], [0.0, 5.0]], [[5.0, 0.0], [0.0, 0.2]], (R @ np.diag([0.1, 10.0]) @ R.T).tolist(),
            [[0.5, 0.0], [0.0, 4.0]], [[1.5, 0.0], [0.0, 1.5]]]
    if level == "thorough":
        out += [("HomodyneMeasurement", {"phi": -2.9, "z": 2.0}), ("HomodyneMeasurement", {"phi": 1.0, "z": 1e-6})]
        covs += [(R.T @ np.diag([25.0, 0.05]) @ R).tolist(), [[1.0, 0.0], [0.0, 1.0]]]
    out += [("GeneraldyneMeasurement", {"detection_covariance": c}) for c in covs]
    return out


def fock_roots(kind, d, cutoff, max_photons):
    """name -> (templates, pure?, occupation or None).  kind in purefock / fock / passive"""
    from mc import lockstep as L

    out = {}
    occs = L.number_roots(d, max_photons, cutoff)
    for occ in occs:
        name = "n" + "".join(map(str, occ))
        if sum(occ) == 0 and kind != "passive":
            out[name] = ([("Vacuum", (), {})], True, occ)
        elif kind == "fock":
            out[name] = ([("DensityMatrix", (), {"ket": list(occ), "bra": list(occ)})], True, occ)
        else:
            out[name] = ([("NumberState", (), {"occupation_numbers": list(occ)})], True, occ)
    # a superposition / mixture of two number states of different total photon number
    if cutoff >= 2:
        o1 = tuple([1] + [0] * (d - 1))
        o2 = tuple([0] * (d - 1) + [2]) if cutoff >= 3 else tuple([0] * d)
        if kind == "fock":
            out["mix"] = ([
                ("DensityMatrix", (), {"ket": list(o1), "bra": list(o1), "coefficient": 0.55}),
                ("DensityMatrix", (), {"ket": list(o2), "bra": list(o2), "coefficient": 0.45}),
                ("DensityMatrix", (), {"ket": list(o1), "bra": list(o2), "coefficient": 0.2}),
                ("DensityMatrix", (), {"ket": list(o2), "bra": list(o1), "coefficient": 0.2}),
            ], False, None)
        elif kind == "purefock" or sum(o1) == sum(o2):
            out["sup"] = ([
                ("NumberState", (), {"occupation_numbers": list(o1), "coefficient": 0.6}),
                ("NumberState", (), {"occupation_numbers": list(o2), "coefficient": 0.8}),
            ], True, None)
        elif kind == "passive" and d >= 2:
            o3 = tuple([0] * (d - 1) + [1])
            out["sup"] = ([
                ("NumberState", (), {"occupation_numbers": list(o1), "coefficient": 0.6}),
                ("NumberState", (), {"occupation_numbers": list(o3), "coefficient": 0.8}),
            ], True, None)
    return out


# ---------------------------------------------------------------------------------------
# harness-owned randomness for general-dyne measurements


class LatticeRng:
    """stands in for Config.rng: multivariate_normal answers with a fixed lattice of outcomes around the requested mean
    (in units of sqrt(hbar)); every other attribute is an uncaptured seam (HarnessError)."""

    OFFSETS = (0.0, 2.5, -7.0, 40.0)

    def __init__(self, hbar):
        self.scale = float(np.sqrt(hbar))
        self.calls = []

    def multivariate_normal(self, mean, cov, size=None, tol=None, **kw):
        mean = np.asarray(mean, dtype=float)
        self.calls.append((mean.copy(), np.asarray(cov, dtype=float).copy(), size))
        n = int(size)
        out = np.empty((n, len(mean)))
        for j in range(n):
            off = self.OFFSETS[j % len(self.OFFSETS)]
            vec = np.array([off * (1.0 if (i % 2 == 0 or j % 2 == 0) else -0.5) for i in range(len(mean))])
            if j % len(self.OFFSETS) == 3:
                vec = np.zeros(len(mean))
                vec[0] = off
            out[j] = mean + self.scale * vec
        return out

    def __deepcopy__(self, memo):
        return self

    def __copy__(self):
        return self

    def __getattr__(self, name):
        from mc import core

        if name.startswith("__"):
            raise AttributeError(name)
        raise core.HarnessError("HARNESS-UNCAPTURED C08: Config.rng.%s used during a general-dyne exploration" % name)


# ---------------------------------------------------------------------------------------
# predicates


def _rng_ok(vals, what, out, lo=-PROB_TOL, hi=1 + PROB_TOL, sum_hi=None):
    """vals: iterable of reported probabilities"""
    a = np.asarray(list(vals) if not isinstance(vals, np.ndarray) else vals)
    if a.size == 0:
        return
    if a.dtype.kind == "c":
        if np.abs(a.imag).max() > PROB_TOL:
            out.append(("probability_range", what, "%s has an imaginary part %.3e" % (what, np.abs(a.imag).max())))
        a = a.real
    a = a.astype(float)
    if not np.all(np.isfinite(a)):
        out.append(("probability_range", what, "%s contains a non-finite value" % what))
        return
    if a.min() < lo or a.max() > hi:
        out.append(("probability_range", what, "%s outside [0,1]: min %.3e max-1 %.3e" % (what, a.min(), a.max() - 1)))
    if sum_hi is not None and a.sum() > sum_hi:
        out.append(("probability_sum", what, "%s sums to 1 + %.3e" % (what, a.sum() - 1)))


def _unsupported(exc):
    from piquasso.api.exceptions import NotImplementedCalculation

    return isinstance(exc, (NotImplementedCalculation, NotImplementedError))


def gaussian_findings(state, pure_expected=None, full=False, stats=None):
    """C08 invariants of a bosonic GaussianState.  pure_expected: True = the history is unitary from a pure root."""
    from piquasso.api.exceptions import InvalidState

    out = []
    d = state.d
    hbar = float(state._config.hbar)
    if d == 0:
        return out
    cov = np.asarray(state.xpxp_covariance_matrix)
    mean = np.asarray(state.xpxp_mean_vector)
    if cov.shape != (2 * d, 2 * d) or mean.shape != (2 * d,):
        return [("covariance_shape", "xpxp_covariance_matrix", "shapes %s %s for d=%d" % (cov.shape, mean.shape, d))]
    if cov.dtype.kind == "c" or mean.dtype.kind == "c":
        out.append(("covariance_not_real", "xpxp_covariance_matrix", "complex dtype %s / %s" % (cov.dtype, mean.dtype)))
        cov, mean = cov.real, mean.real
    if not (np.all(np.isfinite(cov)) and np.all(np.isfinite(mean))):
        return out + [("covariance_not_finite", "xpxp_covariance_matrix", "non-finite moments")]
    # the internal representation must be the one of a real symmetric sigma: C Hermitian, G symmetric
    C, G = np.asarray(state._C), np.asarray(state._G)
    scale = max(1.0, float(np.abs(cov).max()) / hbar)
    asym = max(float(np.abs(cov - cov.T).max()) / hbar, float(np.abs(C - C.conj().T).max()), float(np.abs(G - G.T).max()))
    if asym > TOL * scale:
        out.append(("covariance_not_symmetric", "xpxp_covariance_matrix", "asymmetry %.3e (sigma/hbar, C, G)" % asym))
    sym = (cov + cov.T) / (2 * hbar)
    ev = np.linalg.eigvalsh(sym + 1j * _omega(d))
    if stats is not None:
        stats["min_uncertainty_eig"] = min(stats.get("min_uncertainty_eig", 0.0), float(ev.min()) / scale)
    if ev.min() < -TOL * scale:
        out.append(("uncertainty_relation", "xpxp_covariance_matrix", "lambda_min(sigma/hbar + i Omega) = %.6e (scale %.2f, hbar %g)" % (ev.min(), scale, hbar)))
    # symplectic eigenvalues -> reference purity (used only to decide what is_pure() must answer)
    nu = np.sort(np.abs(np.linalg.eigvals(1j * _omega(d) @ sym)))[::2]
    p_ref = float(1.0 / np.prod(nu)) if np.all(nu > 0) else float("nan")
    try:
        p = float(np.real(state.get_purity()))
    except Exception as e:
        p = None
        out.append(("purity_range", "get_purity", "get_purity raised %s: %s" % (type(e).__name__, str(e)[:120])))
    if p is not None:
        if not (np.isfinite(p) and 0.0 < p <= 1.0 + TOL):
            out.append(("purity_range", "get_purity", "purity %.12g not in (0, 1] (hbar %g, d %d; 1/prod(nu) = %.12g)" % (p, hbar, d, p_ref)))
        elif pure_expected and abs(p - 1.0) > TOL:
            out.append(("purity_of_pure_state", "get_purity", "purity - 1 = %.3e after a unitary history from a pure root (hbar %g)" % (p - 1.0, hbar)))
        if stats is not None and np.isfinite(p_ref) and np.isfinite(p):
            stats["max_purity_vs_symplectic_spectrum"] = max(stats.get("max_purity_vs_symplectic_spectrum", 0.0), abs(p - p_ref))
            if pure_expected:
                stats["max_pure_purity_dev"] = max(stats.get("max_pure_purity_dev", 0.0), abs(p - 1.0))
        isp = bool(state.is_pure())
        if pure_expected and not isp:
            out.append(("is_pure_inconsistent", "is_pure", "is_pure() is False after a unitary history from a pure root (purity %.12g)" % p))
        elif np.isfinite(p_ref) and p_ref < 1 - 1e-3 and isp:
            out.append(("is_pure_inconsistent", "is_pure", "is_pure() is True for a mixed state (1/prod(nu) = %.6g, purity %.6g)" % (p_ref, p)))
        elif isp != bool(np.isclose(p, 1.0)):
            out.append(("is_pure_inconsistent", "is_pure", "is_pure() = %s but get_purity() = %.12g" % (isp, p)))
    if not out:
        try:
            state.validate()
        except InvalidState as e:
            out.append(("validate_raises", "validate", "validate() raised on a physical state: %s" % str(e)[:160]))
    if full and not any(f[0] == "uncertainty_relation" for f in out):
        # (the probabilities reported by a state whose covariance is already unphysical are consequences, not further defects)
        out += gaussian_probability_findings(state)
    return out


def gaussian_probability_findings(state):
    from mc import lockstep as L

    out = []
    d, cutoff = state.d, int(state._config.cutoff)
    basis = L.fock_basis(d, cutoff)

    def call(name, fn):
        try:
            return fn()
        except Exception as e:
            if not _unsupported(e):
                out.append(("probability_interface_raises", name, "%s raised %s: %s" % (name, type(e).__name__, str(e)[:120])))
            return None

    fp = call("fock_probabilities", lambda: np.asarray(state.fock_probabilities))
    if fp is not None:
        _rng_ok(fp, "fock_probabilities", out, sum_hi=1 + TOL)
    pdp = call("get_particle_detection_probability", lambda: np.array([state.get_particle_detection_probability(np.array(b)) for b in basis]))
    if pdp is not None:
        _rng_ok(pdp, "get_particle_detection_probability", out, sum_hi=1 + TOL)
    pats = list(itertools.product((0, 1), repeat=d))
    th = call("get_threshold_detection_probability", lambda: np.array([state.get_threshold_detection_probability(np.array(p)) for p in pats]))
    if th is not None:
        _rng_ok(th, "get_threshold_detection_probability", out, sum_hi=1 + TOL)
    for M in ordered_subsets(d, 1, d):
        mp = call("get_marginal_fock_probabilities", lambda: np.array(list(state.get_marginal_fock_probabilities(M).values())))
        if mp is not None:
            _rng_ok(mp, "get_marginal_fock_probabilities", out, sum_hi=1 + TOL)
    return out


def purefock_findings(state, parent_norm=None, conserving=False, full=False, normalised_expected=False, stats=None):
    """C08 invariants of a PureFockState.  parent_norm/conserving: norm preservation across a number conserving gate."""
    from piquasso.api.exceptions import InvalidState
    from mc import lockstep as L

    out = []
    sv = np.asarray(state.state_vector)
    if not np.all(np.isfinite(sv)):
        return [("state_not_finite", "state_vector", "non-finite amplitudes")]
    own = float(np.sum(np.abs(sv) ** 2))
    norm = float(np.real(state.norm))
    if abs(norm - own) > NORM_TOL:
        out.append(("norm_interface", "norm", "state.norm %.15g differs from sum |amplitude|^2 %.15g" % (norm, own)))
    if norm > 1 + NORM_TOL:
        out.append(("norm_exceeds_one", "norm", "norm - 1 = %.3e" % (norm - 1)))
    if stats is not None:
        stats["max_norm_minus_one"] = max(stats.get("max_norm_minus_one", -1.0), norm - 1)
    if conserving and parent_norm is not None:
        dev = abs(norm - parent_norm)
        if stats is not None:
            stats["max_norm_change_conserving"] = max(stats.get("max_norm_change_conserving", 0.0), dev)
        if dev > NORM_TOL:
            out.append(("norm_not_preserved", "norm", "norm changed by %.3e across a number-conserving gate (%.15g -> %.15g)" % (norm - parent_norm, parent_norm, norm)))
    if normalised_expected and abs(norm - 1) > TOL:
        out.append(("branch_not_normalised", "norm", "post-measurement branch state has norm %.12g" % norm))
    _rng_ok(np.asarray(state.fock_probabilities), "fock_probabilities", out, sum_hi=1 + NORM_TOL)
    pur = state.get_purity()
    if not (float(pur) == 1.0):
        out.append(("purity_of_pure_state", "get_purity", "PureFockState.get_purity() = %r" % (pur,)))
    if not out and abs(own - 1) <= TOL:
        try:
            state.validate()
        except InvalidState as e:
            out.append(("validate_raises", "validate", "validate() raised on a normalised state: %s" % str(e)[:160]))
    if full:
        d, cutoff = state.d, int(state._config.cutoff)
        if d >= 1 and len(sv) == len(L.fock_basis(d, cutoff)):
            basis = L.fock_basis(d, cutoff)
            _rng_ok(np.array([state.get_particle_detection_probability(np.array(b)) for b in basis]), "get_particle_detection_probability", out, sum_hi=1 + NORM_TOL)
            for M in ordered_subsets(d, 1, d - 1):
                sub = L.fock_basis(len(M), cutoff)
                try:
                    vals = np.array([state.get_particle_detection_probability_on_modes(np.array(o), M) for o in sub])
                    _rng_ok(vals, "get_particle_detection_probability_on_modes", out, sum_hi=1 + 1e-11)
                    red = state.reduced(M)
                    out += [(s, "reduced()." + o, m) for s, o, m in fock_findings(red)]
                except Exception as e:
                    if not _unsupported(e):
                        out.append(("probability_interface_raises", "marginal", "marginal interface on modes %s raised %s: %s" % (M, type(e).__name__, str(e)[:120])))
    return out


def fock_findings(state, pure_expected=False, full=False, normalised_expected=False, stats=None, relax=1.0):
    """C08 invariants of a (mixed) FockState.  relax >= 1 multiplies the tolerances: a post-measurement branch state is the projected
    state divided by the branch probability w, which amplifies the rounding noise of rho by 1/w (relax = 1/min(1, w))."""
    from piquasso.api.exceptions import InvalidState
    from mc import lockstep as L

    out = []
    rho = np.asarray(state.density_matrix)
    if not np.all(np.isfinite(rho)):
        return [("state_not_finite", "density_matrix", "non-finite entries")]
    if rho.size == 0:
        return out
    TOL = globals()["TOL"] * relax
    PROB_TOL = globals()["PROB_TOL"] * relax
    herm = float(np.abs(rho - rho.conj().T).max())
    if herm > TOL:
        out.append(("density_matrix_not_hermitian", "density_matrix", "max |rho - rho^+| = %.3e" % herm))
    ev = np.linalg.eigvalsh((rho + rho.conj().T) / 2)
    tr = float(np.real(np.trace(rho)))
    if stats is not None:
        stats["min_density_eig"] = min(stats.get("min_density_eig", 0.0), float(ev.min()))
        stats["max_trace_minus_one"] = max(stats.get("max_trace_minus_one", -1.0), tr - 1)
    if ev.min() < -TOL:
        out.append(("density_matrix_not_positive", "density_matrix", "lambda_min = %.3e" % ev.min()))
    if tr > 1 + TOL:
        out.append(("trace_exceeds_one", "density_matrix", "trace - 1 = %.3e" % (tr - 1)))
    nrm = float(np.real(state.norm))
    if abs(nrm - tr) > TOL:
        out.append(("norm_interface", "norm", "state.norm %.12g differs from the trace %.12g" % (nrm, tr)))
    if normalised_expected and abs(tr - 1) > TOL:
        out.append(("branch_not_normalised", "norm", "post-measurement branch state has trace %.12g" % tr))
    _rng_ok(np.asarray(state.fock_probabilities), "fock_probabilities", out, lo=-PROB_TOL, hi=1 + PROB_TOL, sum_hi=1 + TOL)
    p = float(np.real(state.get_purity()))
    if not (np.isfinite(p) and p <= 1 + TOL and (p > 0 or tr <= TOL)):
        out.append(("purity_range", "get_purity", "purity %.12g not in (0, 1] (trace %.12g)" % (p, tr)))
    elif pure_expected and abs(p - 1) > TOL:
        out.append(("purity_of_pure_state", "get_purity", "purity - 1 = %.3e after a number-conserving unitary history from a pure root" % (p - 1)))
    if not out and abs(tr - 1) <= TOL:
        try:
            state.validate()
        except InvalidState as e:
            out.append(("validate_raises", "validate", "validate() raised on a normalised physical state: %s" % str(e).split("\n")[0][:160]))
    if full:
        d, cutoff = state.d, int(state._config.cutoff)
        if d >= 1 and rho.shape[0] == len(L.fock_basis(d, cutoff)):
            basis = L.fock_basis(d, cutoff)
            _rng_ok(np.array([state.get_particle_detection_probability(np.array(b)) for b in basis]), "get_particle_detection_probability", out,
                    lo=-PROB_TOL, hi=1 + PROB_TOL, sum_hi=1 + TOL)
            for M in ordered_subsets(d, 1, d - 1):
                try:
                    red = state.reduced(M)
                    out += [(s, "reduced()." + o, m) for s, o, m in fock_findings(red, relax=relax)]
                except Exception as e:
                    if not _unsupported(e):
                        out.append(("probability_interface_raises", "reduced", "reduced(%s) raised %s: %s" % (M, type(e).__name__, str(e)[:120])))
    return out


def passive_findings(state, parent_norm=None, conserving=False, full=False, stats=None):
    """C08 invariants of a PassiveState (probabilities, norm, purity, validate)"""
    from piquasso.api.exceptions import InvalidState, PiquassoException

    out = []
    unsupported = []

    def call(name, fn):
        try:
            return fn()
        except Exception as e:
            if _unsupported(e):
                unsupported.append(name)
            elif isinstance(e, PiquassoException):
                unsupported.append(name + ":refused")
            else:
                out.append(("probability_interface_raises", name, "%s raised %s: %s" % (name, type(e).__name__, str(e)[:120])))
            return None

    T = np.asarray(state.interferometer)
    sv_max = float(np.linalg.svd(T, compute_uv=False).max()) if T.size else 0.0
    if sv_max > 1 + TOL:
        out.append(("transmission_not_contraction", "interferometer", "largest singular value - 1 = %.3e" % (sv_max - 1)))
    norm = call("norm", lambda: float(np.real(state.norm)))
    if norm is not None:
        if stats is not None:
            stats["max_norm_minus_one"] = max(stats.get("max_norm_minus_one", -1.0), norm - 1)
        if norm > 1 + 1e-11:
            out.append(("norm_exceeds_one", "norm", "norm - 1 = %.3e" % (norm - 1)))
        if conserving and parent_norm is not None and abs(norm - parent_norm) > 1e-11:
            out.append(("norm_not_preserved", "norm", "norm changed by %.3e across a number-conserving gate" % (norm - parent_norm)))
    fp = call("fock_probabilities", lambda: np.asarray(state.fock_probabilities))
    if fp is not None:
        _rng_ok(fp, "fock_probabilities", out, sum_hi=1 + 1e-11)
    pur = call("get_purity", lambda: float(state.get_purity()))
    if pur is not None and pur != 1.0:
        out.append(("purity_of_pure_state", "get_purity", "PassiveState.get_purity() = %r" % (pur,)))
    if not out and norm is not None and abs(norm - 1) <= TOL and not state.is_lossy and not state._is_postselected():
        try:
            state.validate()
        except InvalidState as e:
            out.append(("validate_raises", "validate", "validate() raised on a normalised lossless state: %s" % str(e)[:160]))
    if full:
        d = state.d
        fm = call("fock_probabilities_map", lambda: dict(state.fock_probabilities_map))
        if fm is not None:
            keys = [tuple(int(x) for x in k) for k in fm]
            _rng_ok(np.array([np.real(v) for v in fm.values()]), "fock_probabilities_map", out, sum_hi=1 + 1e-11)
            vals = call("get_particle_detection_probability", lambda: np.array([state.get_particle_detection_probability(np.array(k)) for k in keys]))
            if vals is not None:
                _rng_ok(vals, "get_particle_detection_probability", out, sum_hi=1 + 1e-11)
        for M in ordered_subsets(d, 1, d):
            mp = call("get_marginal_fock_probabilities", lambda: np.array([np.real(v) for v in state.get_marginal_fock_probabilities(M).values()]))
            if mp is not None:
                _rng_ok(mp, "get_marginal_fock_probabilities", out, sum_hi=1 + 1e-11)
        sv = call("state_vector", lambda: np.asarray(state.state_vector))
        if sv is not None:
            n2 = float(np.sum(np.abs(sv) ** 2))
            if n2 > 1 + 1e-11:
                out.append(("norm_exceeds_one", "state_vector", "sum |state_vector|^2 - 1 = %.3e" % (n2 - 1)))
    if stats is not None:
        for u in unsupported:
            stats["unsupported/" + u] = stats.get("unsupported/" + u, 0) + 1
    return out


def passive_input_class(state):
    """stable classes of a PassiveState configuration (the ones C05 uses for the defects of the general probability routine):
    loss_kernel = 'complex-nonuniform' when the loss kernel 1 - T^+T restricted to the occupied input modes is not symmetric,
    gram = 'complex' for a Gram matrix of particle overlaps that is not symmetric"""
    out = {"loss_kernel": "symmetric-or-lossless", "gram": "symmetric-or-none"}
    try:
        ov = state._particle_overlap
        if ov is not None and not np.isscalar(ov):
            G = np.asarray(ov)
            if G.size and np.abs(G - G.T).max() > 1e-9:
                out["gram"] = "complex"
        if state.is_lossy and len(state._occupation_numbers) >= 1:
            occ = np.asarray(state._occupation_numbers[0], dtype=int)
            r = [m for m, k in enumerate(occ) for _ in range(int(k))]
            T = np.asarray(state.interferometer)
            if r:
                Tr = T[:, r]
                Lk = np.eye(len(r)) - Tr.conj().T @ Tr
                if np.abs(Lk - Lk.T).max() > 1e-9:
                    out["loss_kernel"] = "complex-nonuniform"
    except Exception:
        out = {"loss_kernel": "unclassified", "gram": "unclassified"}
    return out


def fermi_gaussian_findings(state, full=False, stats=None):
    """fermionic GaussianState: covariance real skew with spectrum of i*Gamma in [-1,1]; correlation matrix Hermitian with
    spectrum in [0,1]; probabilities in [0,1]"""
    from piquasso.api.exceptions import InvalidState

    out = []
    d = state.d
    cov = np.asarray(state.covariance_matrix)
    if cov.dtype.kind == "c" or cov.shape != (2 * d, 2 * d):
        out.append(("covariance_not_real", "covariance_matrix", "dtype %s shape %s" % (cov.dtype, cov.shape)))
        cov = np.real(cov)
    if np.abs(cov + cov.T).max() > TOL:
        out.append(("covariance_not_skew", "covariance_matrix", "max |G + G^T| = %.3e" % np.abs(cov + cov.T).max()))
    ev = np.linalg.eigvalsh(1j * (cov - cov.T) / 2)
    if np.abs(ev).max() > 1 + TOL:
        out.append(("covariance_spectrum", "covariance_matrix", "spectral radius of i*Gamma - 1 = %.3e" % (np.abs(ev).max() - 1)))
    Gam = np.asarray(state.correlation_matrix)
    herm = np.abs(Gam - Gam.conj().T).max()
    ev = np.linalg.eigvalsh((Gam + Gam.conj().T) / 2)
    if stats is not None:
        stats["min_correlation_eig"] = min(stats.get("min_correlation_eig", 0.0), float(ev.min()))
        stats["max_correlation_eig_minus_one"] = max(stats.get("max_correlation_eig_minus_one", -1.0), float(ev.max()) - 1)
    if herm > TOL or ev.min() < -TOL or ev.max() > 1 + TOL:
        out.append(("correlation_spectrum", "correlation_matrix", "|G-G^+| = %.2e, spectrum in [%.3e, 1 + %.3e]" % (herm, ev.min(), ev.max() - 1)))
    if not out:
        try:
            state.validate()
        except InvalidState as e:
            out.append(("validate_raises", "validate", "validate() raised on a physical state: %s" % str(e)[:160]))
    if full:
        # sqrt(det) probabilities: a zero probability carries sqrt(eps) ~ 1e-8 of noise (see C17's assumptions)
        fp = np.asarray(state.fock_probabilities)
        _rng_ok(fp, "fock_probabilities", out, lo=-PROB_TOL, hi=1 + 1e-8, sum_hi=1 + 1e-6)
        pe = float(np.real(state.get_parity_operator_expectation_value()))
        if not (-1 - TOL <= pe <= 1 + TOL):
            out.append(("expectation_range", "get_parity_operator_expectation_value", "parity expectation %.12g outside [-1,1]" % pe))
    return out


def fermi_fock_findings(state, parent_norm=None, conserving=False, full=False, normalised_expected=False, stats=None):
    from piquasso.api.exceptions import InvalidState

    out = []
    sv = np.asarray(state.state_vector)
    own = float(np.sum(np.abs(sv) ** 2))
    norm = float(np.real(state.norm))
    if abs(norm - own) > NORM_TOL:
        out.append(("norm_interface", "norm", "state.norm %.15g differs from sum |amplitude|^2 %.15g" % (norm, own)))
    if norm > 1 + NORM_TOL:
        out.append(("norm_exceeds_one", "norm", "norm - 1 = %.3e" % (norm - 1)))
    if conserving and parent_norm is not None:
        dev = abs(norm - parent_norm)
        if stats is not None:
            stats["max_norm_change_conserving"] = max(stats.get("max_norm_change_conserving", 0.0), dev)
        if dev > NORM_TOL:
            out.append(("norm_not_preserved", "norm", "norm changed by %.3e across a norm-preserving gate" % (norm - parent_norm)))
    if normalised_expected and abs(norm - 1) > TOL:
        out.append(("branch_not_normalised", "norm", "post-measurement branch state has norm %.12g" % norm))
    _rng_ok(np.asarray(state.fock_probabilities), "fock_probabilities", out, sum_hi=1 + NORM_TOL)
    if not out and abs(own - 1) <= TOL:
        try:
            state.validate()
        except InvalidState as e:
            out.append(("validate_raises", "validate", "validate() raised on a normalised state: %s" % str(e)[:160]))
    if full:
        try:
            cov = np.asarray(state.covariance_matrix)
            if cov.dtype.kind == "c" or np.abs(cov + cov.T).max() > TOL:
                out.append(("covariance_not_skew", "covariance_matrix", "Fock covariance not real skew-symmetric"))
            elif np.abs(np.linalg.eigvalsh(1j * np.real(cov))).max() > 1 + TOL:
                out.append(("covariance_spectrum", "covariance_matrix", "spectral radius of i*Gamma exceeds 1"))
        except Exception as e:
            if not _unsupported(e) and stats is not None:
                stats["fock_covariance_raises"] = stats.get("fock_covariance_raises", 0) + 1
        rho = np.asarray(state.density_matrix)
        ev = np.linalg.eigvalsh((rho + rho.conj().T) / 2)
        if ev.min() < -TOL or float(np.real(np.trace(rho))) > 1 + TOL:
            out.append(("density_matrix_not_positive", "density_matrix", "lambda_min %.3e trace-1 %.3e" % (ev.min(), np.real(np.trace(rho)) - 1)))
    return out


def state_findings(state, **kw):
    """dispatch on the state class; kw is filtered per class"""
    name = type(state).__name__
    mod = type(state).__module__
    if "fermionic" in mod:
        if name == "GaussianState":
            return fermi_gaussian_findings(state, full=kw.get("full", False), stats=kw.get("stats"))
        return fermi_fock_findings(state, parent_norm=kw.get("parent_norm"), conserving=kw.get("conserving", False), full=kw.get("full", False),
                                   normalised_expected=kw.get("normalised_expected", False), stats=kw.get("stats"))
    if name == "GaussianState":
        return gaussian_findings(state, pure_expected=kw.get("pure_expected"), full=kw.get("full", False), stats=kw.get("stats"))
    if name == "PureFockState":
        return purefock_findings(state, parent_norm=kw.get("parent_norm"), conserving=kw.get("conserving", False), full=kw.get("full", False),
                                 normalised_expected=kw.get("normalised_expected", False), stats=kw.get("stats"))
    if name == "FockState":
        return fock_findings(state, pure_expected=bool(kw.get("pure_expected")), full=kw.get("full", False),
                             normalised_expected=kw.get("normalised_expected", False), stats=kw.get("stats"), relax=kw.get("relax", 1.0))
    if name == "PassiveState":
        return passive_findings(state, parent_norm=kw.get("parent_norm"), conserving=kw.get("conserving", False), full=kw.get("full", False), stats=kw.get("stats"))
    raise TypeError("state_findings: unknown state class %s.%s" % (mod, name))


def state_norm(state):
    """the library's own norm / trace, None where the state has none (Gaussian)"""
    if type(state).__name__ == "GaussianState":
        return None
    try:
        return float(np.real(state.norm))
    except Exception:
        return None


# ---------------------------------------------------------------------------------------
# self-test of the predicates (vacuity guard): planted unphysical states must be flagged


def predicate_selftest():
    import piquasso as pq
    from mc import core

    def need(findings, sub, what):
        if not any(f[0] == sub for f in findings):
            raise core.HarnessError("HARNESS-SELFTEST C08 predicate '%s' does not flag %s (got %r)" % (sub, what, findings))

    for hbar in (0.5, 2.0, 3.7):
        sim = pq.GaussianSimulator(d=2, config=pq.Config(hbar=hbar, cutoff=2))
        vac = sim.execute_instructions([pq.Vacuum()]).state
        if gaussian_findings(vac, pure_expected=True, full=True):
            raise core.HarnessError("HARNESS-SELFTEST C08: the vacuum at hbar=%g is flagged: %r" % (hbar, gaussian_findings(vac, pure_expected=True, full=True)))
        ev = np.linalg.eigvalsh(np.asarray(vac.xpxp_covariance_matrix) / hbar + 1j * _omega(2))
        if abs(ev.min()) > 1e-12:
            raise core.HarnessError("HARNESS-SELFTEST C08: vacuum does not saturate sigma/hbar + i Omega >= 0 in the assumed convention")
        sq = sim.execute_instructions([pq.Vacuum(), pq.Squeezing2(r=0.7, phi=0.4).on_modes(1, 0), pq.QuadraticPhase(s=0.3).on_modes(1)]).state
        f = gaussian_findings(sq, pure_expected=True, full=False)
        if f:
            raise core.HarnessError("HARNESS-SELFTEST C08: a pure two-mode squeezed state at hbar=%g is flagged (wrong ordering convention?): %r" % (hbar, f))
        bad = vac.copy()
        bad._C = bad._C - 0.005 * np.eye(2)  # sigma = 0.98 hbar I: below the vacuum noise
        need(gaussian_findings(bad), "uncertainty_relation", "a sub-vacuum covariance at hbar=%g" % hbar)
        bad = sq.copy()
        bad._G = bad._G + np.array([[0, 1e-6], [0, 0]])
        need(gaussian_findings(bad), "covariance_not_symmetric", "a non-symmetric G")
        th = sim.execute_instructions([pq.Thermal([0.5, 0.1])]).state
        need(gaussian_findings(th, pure_expected=True), "purity_of_pure_state", "a thermal state declared pure")
    ps = pq.PureFockSimulator(d=2, config=pq.Config(cutoff=3))
    st = ps.execute_instructions([pq.NumberState([1, 1])]).state
    if purefock_findings(st, parent_norm=1.0, conserving=True, full=True):
        raise core.HarnessError("HARNESS-SELFTEST C08: |1,1> is flagged: %r" % purefock_findings(st, parent_norm=1.0, conserving=True, full=True))
    bad = st.copy()
    bad.state_vector = bad.state_vector * (1 + 2e-12)
    need(purefock_findings(bad), "norm_exceeds_one", "norm 1 + 4e-12")
    need(purefock_findings(bad, parent_norm=1.0, conserving=True), "norm_not_preserved", "a norm change of 4e-12")
    fs = pq.FockSimulator(d=2, config=pq.Config(cutoff=3))
    st = fs.execute_instructions([pq.DensityMatrix(ket=(1, 0), bra=(1, 0))]).state
    if fock_findings(st, pure_expected=True, full=True):
        raise core.HarnessError("HARNESS-SELFTEST C08: |1,0><1,0| is flagged: %r" % fock_findings(st, pure_expected=True, full=True))
    bad = st.copy()
    bad._density_matrix = bad._density_matrix.copy()
    bad._density_matrix[0, 0] = -1e-8
    need(fock_findings(bad), "density_matrix_not_positive", "an eigenvalue -1e-8")
    bad = st.copy()
    bad._density_matrix = bad._density_matrix.copy()
    bad._density_matrix[0, 1] = 1e-8j
    need(fock_findings(bad), "density_matrix_not_hermitian", "a non-Hermitian density matrix")
