"""C09, connector-level linear algebra: every linear-algebra / kernel entry point a connector
re-implements is run on a small exhaustive catalogue of matrices and compared with
NumPy/SciPy -- on the mathematical result where it is unique (polar factors of a nonsingular
matrix, principal matrix functions, singular values, permanents, hafnians) and on the
reconstruction / defining identities where it is not (SVD and Schur factors).

Matrix classes are restricted to what the abstract `BaseConnector` documents ("equivalent
to scipy.linalg.X") minus inputs on which the function itself is not unique or the shim is
documented to be partial (TensorFlow `schur`: normal matrices only; eigen-decomposition
based expm/logm/powm: diagonalisable matrices)."""

import itertools

import numpy as np
import scipy.linalg

ATOL = 1e-9
RTOL = 1e-9


def _haar(rng, n):
    a = rng.normal(size=(n, n)) + 1j * rng.normal(size=(n, n))
    q, r = np.linalg.qr(a)
    return q * (np.diag(r) / np.abs(np.diag(r)))


def matrices(seed):
    """name -> (class, matrix).  Deterministic in the seed; all well conditioned."""
    rng = np.random.default_rng([910, int(seed)])
    out = {}

    def add(cls, n, mat):
        out["%s_%d" % (cls, n)] = (cls, np.array(mat))

    for n in (1, 2, 3):
        u = _haar(rng, n)
        add("unitary", n, u)
        ev = rng.uniform(0.5, 2.0, size=n)
        add("hermitian_pd", n, (u * ev) @ u.conj().T)
        g = (rng.normal(size=(n, n)) + 1j * rng.normal(size=(n, n))) / np.sqrt(2 * n)
        add("complex_generic", n, np.eye(n) + 0.45 * g)  # spectrum in the right half plane
    for n in (2, 3):
        q, _ = np.linalg.qr(rng.normal(size=(n, n)))
        if np.linalg.det(q) < 0:
            q[:, 0] = -q[:, 0]  # special orthogonal (real_logm needs a real logarithm to exist)
        ev = rng.uniform(0.5, 2.0, size=n)
        add("real_spd", n, (q * ev) @ q.T)
        add("real_orthogonal", n, q)
        gr = rng.normal(size=(n, n)) / np.sqrt(n)
        add("real_generic", n, np.eye(n) + 0.45 * gr)
        u = _haar(rng, n)
        evi = np.array([1.3, -0.7, 0.4][:n])
        add("hermitian_indefinite", n, (u * evi) @ u.conj().T)
        s = rng.normal(size=(n, n)) + 1j * rng.normal(size=(n, n))
        add("complex_symmetric", n, np.eye(n) * 1.5 + 0.3 * (s + s.T))
    a = rng.normal(size=(4, 4))
    add("real_antisymmetric", 2, np.array([[0.0, 0.8], [-0.8, 0.0]]))
    add("real_antisymmetric", 4, (a - a.T) / 2)
    # complex-form symplectic matrices [[P, A], [A*, P*]] -- what euler() feeds to polar("left")
    for n in (1, 2):
        u1, u2 = _haar(rng, n), _haar(rng, n)
        r = rng.uniform(0.1, 0.4, size=n)
        ph = rng.uniform(0.3, 1.4, size=n)
        P = u1 @ np.diag(np.cosh(r)) @ u2
        A = u1 @ np.diag(-np.sinh(r) * np.exp(1j * ph)) @ u2.conj()
        add("complex_symplectic", 2 * n, np.block([[P, A], [A.conj(), P.conj()]]))
    s_ = 0.37
    add("complex_symplectic_quadratic_phase", 2, np.array([[1 + 0.5j * s_, 0.5j * s_], [-0.5j * s_, 1 - 0.5j * s_]]))
    return out


NORMAL = ("unitary", "hermitian_pd", "hermitian_indefinite", "real_spd", "real_orthogonal", "real_antisymmetric")
PRINCIPAL = ("hermitian_pd", "real_spd", "complex_generic", "real_generic", "complex_symplectic",
             "complex_symplectic_quadratic_phase", "complex_symmetric")


def _close(a, b):
    a, b = np.asarray(a), np.asarray(b)
    if a.shape != b.shape:
        return False, float("inf")
    if a.size == 0:
        return True, 0.0
    if not np.all(np.isfinite(b)):
        return False, float("inf")
    diff = float(np.max(np.abs(a - b)))
    return diff <= ATOL + RTOL * float(np.max(np.abs(a))), diff


def _tn(x):
    if hasattr(x, "numpy") and not isinstance(x, np.ndarray):
        try:
            return np.asarray(x.numpy())
        except Exception:
            pass
    return np.asarray(x)


class Runner:
    """Calls connector functions eagerly or through jax.jit / tf.function."""

    def __init__(self, pq, kind):
        self.kind = kind
        self.pq = pq
        if kind in ("jax", "jaxjit"):
            self.conn = pq.JaxConnector()
            import jax

            self.jax = jax
        elif kind in ("tf", "tffn"):
            self.conn = pq.TensorflowConnector()
            import tensorflow as tf

            self.tf = tf
        elif kind == "numpy":
            self.conn = pq.NumpyConnector()
        self.connector_name = type(self.conn).__name__
        self.mode = {"jax": "eager", "tf": "eager", "numpy": "eager", "jaxjit": "jax.jit", "tffn": "tf.function"}[kind]

    def arr(self, m):
        if self.kind in ("jax", "jaxjit"):
            return self.conn.np.asarray(m)
        if self.kind in ("tf", "tffn"):
            return self.tf.convert_to_tensor(m)
        return np.array(m)

    def call(self, fname, arrays, *pos, **static):
        """f(*arrays, *pos, **static) with `arrays` as (traced, when compiled) array
        arguments and `pos` / `static` as Python constants -- the way Piquasso calls it."""
        f = getattr(self.conn, fname)
        args = [self.arr(a) for a in arrays]
        if self.kind == "jaxjit":
            res = self.jax.jit(lambda *xs: f(*xs, *pos, **static))(*args)
        elif self.kind == "tffn":
            res = self.tf.function(lambda *xs: f(*xs, *pos, **static))(*args)
        else:
            res = f(*args, *pos, **static)
        if isinstance(res, (tuple, list)):
            return tuple(_tn(r) for r in res)
        return _tn(res)


REFUSALS = ("NotImplementedError", "NotImplementedCalculation")


def _is_compile_refusal(kind, e):
    if kind not in ("jaxjit", "tffn"):
        return False
    name = type(e).__name__
    msg = str(e)
    return (
        "Tracer" in name
        or "Concretization" in name
        or "NotAllowedInGraph" in name
        or "racer" in msg
        or "symbolic" in msg.lower()
        or "Graph execution" in msg
        or "tf.function" in msg
    )


def run_part(ctx, pq, kind, seed, part, violate):
    """part in {"decomp", "funm", "assembly", "kernels"}; `violate(sig_extra, case, msg)`
    reports (after the caller's determinism re-run)."""
    R = Runner(pq, kind)
    mats = matrices(seed)
    if kind in ("tffn", "jaxjit"):
        # compiled variants: same code as eager apart from graph-mode paths -> the 2x2 (and 4x4
        # symplectic) representatives of every class
        mats = {k: v for k, v in mats.items() if len(v[1]) in (2, 4)}

    def _icls(mname):
        head = mname.split(" ")[0].split("+")[0]
        if head in mats:
            return "complex" if np.iscomplexobj(mats[head][1]) else "real"
        return "complex"

    def diagonalisable(m):
        w, v = np.linalg.eig(m)
        return np.linalg.cond(v) < 1e6

    def attempt(fname, arrays, *pos, **static):
        """('ok', result) | ('unsupported', why) | ('crash', exc)"""
        try:
            return "ok", R.call(fname, arrays, *pos, **static)
        except Exception as e:
            n = type(e).__name__
            if n in REFUSALS:
                return "unsupported", n
            if _is_compile_refusal(kind, e):
                return "unsupported", "compile:" + n
            return "crash", e

    def handle(fname, mname, mcls, status, res, extra=None):
        """common bookkeeping of non-ok outcomes; returns True if ok"""
        ctx.count("linalg_evaluations")
        if status == "ok":
            return True
        if status == "unsupported":
            ctx.count("unsupported_cells")
            ctx.count("unsupported:linalg:%s:%s:%s" % (R.connector_name, R.mode, fname))
            return False
        sig = {"sub": "connector_linalg_crash", "function": fname, "input_class": _icls(mname), "exc": type(res).__name__}
        violate(sig, {"function": fname, "matrix": mname, "matrix_class": mcls, "connector_kind": kind, "extra": extra or {}},
                "%s %s: %s(%s)%s raised %r" % (R.connector_name, R.mode, fname, mname, extra or "", res))
        return False

    def report(fname, mname, mcls, what, diff, extra=None):
        sig = {"sub": "connector_linalg", "function": fname, "input_class": _icls(mname)}
        violate(
            sig,
            {"function": fname, "matrix": mname, "matrix_class": mcls, "what": what, "connector_kind": kind, "extra": extra or {}},
            "%s %s: %s(%s)%s: %s deviates by %.3e" % (R.connector_name, R.mode, fname, mname, extra or "", what, diff),
        )

    if part == "decomp":
        for mname, (mcls, m) in sorted(mats.items()):
            ctx.note_distinct(("linalg", "decomp", kind, mname))
            # --- polar, both sides: U and P are unique for a nonsingular matrix
            for side in ("right", "left"):
                st, res = attempt("polar", [m], side=side)
                if handle("polar", mname, mcls, st, res, {"side": side}):
                    U, P = res
                    Ue, Pe = scipy.linalg.polar(m, side=side)
                    ok1, d1 = _close(Ue, U)
                    ok2, d2 = _close(Pe, P)
                    if not ok1:
                        report("polar", mname, mcls, "U", d1, {"side": side})
                    elif not ok2:
                        report("polar", mname, mcls, "P", d2, {"side": side})
            # --- svd: singular values unique; factors only through identities
            st, res = attempt("svd", [m])
            if handle("svd", mname, mcls, st, res):
                V, S, Wh = res
                Se = np.linalg.svd(m, compute_uv=False)
                ok, dd = _close(Se, S)
                if not ok:
                    report("svd", mname, mcls, "singular_values", dd)
                else:
                    ok, dd = _close(m, (V * S) @ Wh)
                    if not ok:
                        report("svd", mname, mcls, "reconstruction", dd)
                    ok, dd = _close(np.eye(len(m)), V.conj().T @ V)
                    ok2, dd2 = _close(np.eye(len(m)), Wh @ Wh.conj().T)
                    if not (ok and ok2):
                        report("svd", mname, mcls, "unitarity", max(dd, dd2))
            # --- schur: factors not unique -> reconstruction, unitarity, triangularity
            if mcls in NORMAL and np.iscomplexobj(m) or (kind in ("jax", "jaxjit", "numpy") and mcls in NORMAL + PRINCIPAL):
                st, res = attempt("schur", [m])
                if handle("schur", mname, mcls, st, res):
                    T, Q = res
                    ok, dd = _close(m, Q @ T @ Q.conj().T)
                    if not ok:
                        report("schur", mname, mcls, "reconstruction", dd)
                    ok, dd = _close(np.eye(len(m)), Q.conj().T @ Q)
                    if not ok:
                        report("schur", mname, mcls, "unitarity", dd)
                    low = np.tril(T, -2) if not np.iscomplexobj(m) else np.tril(T, -1)
                    ok, dd = _close(np.zeros_like(low), low)
                    if not ok:
                        report("schur", mname, mcls, "triangularity", dd)
    elif part == "funm":
        for mname, (mcls, m) in sorted(mats.items()):
            ctx.note_distinct(("linalg", "funm", kind, mname))
            if mcls in PRINCIPAL:
                st, res = attempt("sqrtm", [m])
                if handle("sqrtm", mname, mcls, st, res):
                    ev0 = np.linalg.eigvals(m)
                    if np.min(np.pi - np.abs(np.angle(ev0))) <= 0.3:
                        # an eigenvalue on (or next to) the negative real axis: the principal branch is not defined
                        # there (seed-dependent for the complex-form symplectic 2x2: its eigenvalues are real when
                        # |A| > |Im P|) and implementations legitimately return different square roots -- only the
                        # defining equation X @ X = M is demanded
                        ctx.count("linalg_sqrtm_on_branch_cut_square_only")
                        res_ = np.asarray(res)
                        ok, dd = _close(m, res_ @ res_)
                        if not ok:
                            report("sqrtm", mname, mcls, "square", dd)
                    else:
                        ok, dd = _close(scipy.linalg.sqrtm(m), res)
                        if not ok:
                            report("sqrtm", mname, mcls, "value", dd)
            eig_ok = not (kind in ("tf", "tffn") and not diagonalisable(m))
            if not eig_ok:
                ctx.count("linalg_skipped_not_diagonalisable_for_eig_based_shim")
            if eig_ok and mcls in PRINCIPAL + ("unitary", "real_orthogonal"):
                ev = np.linalg.eigvals(m)
                if np.min(np.abs(np.angle(ev) - np.pi)) > 0.3 and np.min(np.abs(np.angle(ev) + np.pi)) > 0.3:
                    st, res = attempt("logm", [m.astype(complex)])
                    if handle("logm", mname, mcls, st, res):
                        ok, dd = _close(scipy.linalg.logm(m), res)
                        if not ok:
                            report("logm", mname, mcls, "value", dd)
            if not eig_ok:
                continue
            for tag, arg in (("M", m.astype(complex)), ("iM", 1j * m)):
                st, res = attempt("expm", [arg])
                if handle("expm", mname, mcls, st, res, {"argument": tag}):
                    ok, dd = _close(scipy.linalg.expm(arg), res)
                    if not ok:
                        report("expm", mname, mcls, "value", dd, {"argument": tag})
            st, res = attempt("powm", [m.astype(complex)], 3)
            if handle("powm", mname, mcls, st, res):
                ok, dd = _close(np.linalg.matrix_power(m, 3), res)
                if not ok:
                    report("powm", mname, mcls, "value", dd)
            fermionic = kind in ("jax", "jaxjit", "numpy")  # the fermionic simulators accept NumPy and JAX only
            if fermionic and not np.iscomplexobj(m) and mcls in ("real_orthogonal", "real_spd") and np.linalg.det(m) > 0 and kind != "jaxjit":
                # real_logm (fermionic Gaussian density matrix; documented: the caller must
                # guarantee that a real logarithm exists, eager only): exp(result) gives back M
                st, res = attempt("real_logm", [m])
                if handle("real_logm", mname, mcls, st, res):
                    ok, dd = _close(m, scipy.linalg.expm(res))
                    if not ok:
                        report("real_logm", mname, mcls, "exp(result)", dd)
            if fermionic and mcls == "real_antisymmetric" and kind != "jaxjit":
                st, res = attempt("pfaffian", [m])
                if handle("pfaffian", mname, mcls, st, res):
                    n = len(m)
                    exp = m[0, 1] if n == 2 else m[0, 1] * m[2, 3] - m[0, 2] * m[1, 3] + m[0, 3] * m[1, 2]
                    ok, dd = _close(exp, res)
                    if not ok:
                        report("pfaffian", mname, mcls, "value", dd)
    elif part == "assembly":
        names = sorted(mats)
        sq = [mats[n][1] for n in names]
        for i, j in itertools.product(range(len(sq)), repeat=2):
            if (i + 2 * j) % 7 != 0 and i != j:
                continue  # a fixed sub-lattice of the pairs + the diagonal (deterministic)
            a, b = sq[i].astype(complex), sq[j].astype(complex)
            ctx.note_distinct(("linalg", "assembly", kind, names[i], names[j]))
            try:
                res = R.conn.block_diag(R.arr(a), R.arr(b))
                st = "ok"
            except Exception as e:
                st, res = ("unsupported", type(e).__name__) if type(e).__name__ in REFUSALS else ("crash", e)
            if handle("block_diag", names[i] + "+" + names[j], "pair", st, res):
                ok, dd = _close(scipy.linalg.block_diag(a, b), _tn(res))
                if not ok:
                    report("block_diag", names[i] + "+" + names[j], "pair", "value", dd)
            if a.shape == b.shape:
                try:
                    res = R.conn.block([[R.arr(a), R.arr(b)], [R.arr(b.conj()), R.arr(a.conj())]])
                    st = "ok"
                except Exception as e:
                    st, res = ("unsupported", type(e).__name__) if type(e).__name__ in REFUSALS else ("crash", e)
                if handle("block", names[i] + "+" + names[j], "pair", st, res):
                    ok, dd = _close(np.block([[a, b], [b.conj(), a.conj()]]), _tn(res))
                    if not ok:
                        report("block", names[i] + "+" + names[j], "pair", "value", dd)
        # embed_in_identity on every ordered index tuple (the operator-index grids Piquasso uses)
        from piquasso._math.indices import get_operator_index

        for n in names:
            m = mats[n][1].astype(complex)
            k = len(m)
            for dim in range(k, k + 3):
                for modes in itertools.permutations(range(dim), k):
                    if k >= 3 and modes[0] > 1:
                        continue
                    idx = get_operator_index(modes)
                    exp = np.identity(dim, dtype=complex)
                    exp[idx] = m
                    try:
                        res = R.conn.embed_in_identity(R.arr(m), idx, dim)
                        st = "ok"
                    except Exception as e:
                        st, res = ("unsupported", type(e).__name__) if type(e).__name__ in REFUSALS else ("crash", e)
                    if handle("embed_in_identity", n, mats[n][0], st, res, {"order": "ascending" if list(modes) == sorted(modes) else "non-ascending"}):
                        ok, dd = _close(exp, _tn(res))
                        if not ok:
                            report("embed_in_identity", n, mats[n][0], "value", dd,
                                   {"order": "ascending" if list(modes) == sorted(modes) else "non-ascending"})
    elif part == "kernels":
        from piquasso._math.fock import get_fock_space_basis

        npc = pq.NumpyConnector()
        rng = np.random.default_rng([911, int(seed)])
        for n in (1, 2, 3):
            A = rng.normal(size=(n, n)) + 1j * rng.normal(size=(n, n))
            basis = [tuple(int(x) for x in r) for r in get_fock_space_basis(d=n, cutoff=4)]
            for rows in basis:
                for cols in basis:
                    if sum(rows) != sum(cols):
                        continue
                    ctx.note_distinct(("linalg", "permanent", kind, n, rows, cols))
                    exp = npc.permanent(A.copy(), np.array(rows, dtype=np.uint64), np.array(cols, dtype=np.uint64))
                    try:
                        if kind == "jaxjit":
                            res = R.jax.jit(lambda M: R.conn.permanent(M, rows, cols))(R.arr(A))
                        else:
                            res = R.conn.permanent(R.arr(A), rows, cols)
                        st = "ok"
                    except Exception as e:
                        nme = type(e).__name__
                        st, res = ("unsupported", nme) if nme in REFUSALS or _is_compile_refusal(kind, e) else ("crash", e)
                    if handle("permanent", "A%d" % n, "complex_generic", st, res):
                        ok, dd = _close(exp, _tn(res))
                        if not ok:
                            report("permanent", "A%d %s %s" % (n, rows, cols), "complex_generic", "value", dd)
        for n in (1, 2, 3):
            B = rng.normal(size=(2 * n, 2 * n)) + 1j * rng.normal(size=(2 * n, 2 * n))
            B = (B + B.T) * 0.3
            diag = rng.normal(size=2 * n) + 1j * rng.normal(size=2 * n)
            basis = [tuple(int(x) for x in r) for r in get_fock_space_basis(d=n, cutoff=3)]
            for occ in basis:
                red = np.array(occ + occ)
                ctx.note_distinct(("linalg", "hafnian", kind, n, occ))
                for fname, args in (("hafnian", (B, red)), ("loop_hafnian", (B, diag, red))):
                    exp = getattr(npc, fname)(*[np.array(a) for a in args])
                    try:
                        if kind == "jaxjit":
                            res = R.jax.jit(lambda *xs: getattr(R.conn, fname)(*xs, red))(*[R.arr(a) for a in args[:-1]])
                        else:
                            res = getattr(R.conn, fname)(*[R.arr(a) for a in args[:-1]], red)
                        st = "ok"
                    except Exception as e:
                        nme = type(e).__name__
                        st, res = ("unsupported", nme) if nme in REFUSALS or _is_compile_refusal(kind, e) else ("crash", e)
                    if handle(fname, "B%d" % n, "complex_symmetric", st, res):
                        ok, dd = _close(exp, _tn(res))
                        if not ok:
                            report(fname, "B%d %s" % (n, occ), "complex_symmetric", "value", dd)
        # Fock-space representation of a complex interferometer (generic connector code path
        # vs the numba implementation of the NumPy connector)
        from piquasso._simulators.fock.simulation_steps import calculate_interferometer_helper_indices

        for n in (1, 2, 3):
            U = _haar(rng, n)
            for cutoff in (1, 2, 3, 4, 5):
                ctx.note_distinct(("linalg", "interferometer", kind, n, cutoff))
                try:
                    helper = calculate_interferometer_helper_indices(n, cutoff)
                    exp = npc.calculate_interferometer_on_fock_space(U, helper)
                except Exception:
                    ctx.count("unsupported_cells")
                    continue
                try:
                    res = R.conn.calculate_interferometer_on_fock_space(R.conn.preprocess_input_for_custom_gradient(R.arr(U)), helper)
                    st = "ok"
                except Exception as e:
                    nme = type(e).__name__
                    st, res = ("unsupported", nme) if nme in REFUSALS else ("crash", e)
                if handle("calculate_interferometer_on_fock_space", "U%d" % n, "unitary", st, res, {"cutoff_class": "<=2" if cutoff <= 2 else ">=3"}):
                    bad = 0.0
                    if len(res) != len(exp):
                        bad = float("inf")
                    else:
                        for x, y in zip(exp, res):
                            ok, dd = _close(np.asarray(x), _tn(y))
                            if not ok:
                                bad = max(bad, dd)
                    if bad:
                        report("calculate_interferometer_on_fock_space", "U%d cutoff %d" % (n, cutoff), "unitary", "value", bad)
    else:
        raise KeyError(part)
