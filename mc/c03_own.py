"""Thin private extension of mc/choice.py for C03 (mc/choice.py itself is not modified).

`recording(ctl)` must be entered INSIDE `owned_randomness(ctl, ...)`.  It adds two kinds of records to the
current path, so that the check knows which outcomes the harness-owned randomness *dictated* to the
accounting layer of piquasso (api/simulator.py, api/result.py), independently of what that layer made of them:

* ("choices_answer", population, weights, k, answer): every categorical draw served by the harness-owned
  `random.Random` (`Config._random.choices(...)` of the Fock-space simulators) together with the list returned;
* ("passive_sampler", name, shots, modes, samples): every call of the four sampler entry points used by
  piquasso/_simulators/passive/simulation_steps.py.  With passive="real" the real samplers run on harness-owned
  generators and only their return value is copied (every particle-by-particle draw is then a choice point: exact,
  but the tree explodes with the number of shots).  With passive="owned" the sampler entry point itself is the
  categorical draw owned by the harness (DESIGN 2.6 / C03: "every multiset of N outcomes"): the lossless samplers
  `generate_samples` / `generate_marginal_samples` are answered with every multiset of `shots` outcomes of the law
  of the (post-selected) state computed by mc/refmodel/projref.py -- the sampling LAW of those functions is C02's
  subject, the accounting above them is C03's.
"""

import contextlib


_LAW_CACHE = {}


def _passive_law(name, a, kw, cache=False):
    """(sorted outcomes, probabilities) of what a lossless passive sampler entry point is asked to draw from: the
    law of the (post-selected) state of the call computed by mc/refmodel/projref.py.  Outcomes are tuples on the
    requested original modes (generate_marginal_samples) or on all remaining modes (generate_samples)."""
    from mc.core import HarnessError
    from mc.refmodel import projref as R

    if a or name not in ("generate_samples", "generate_marginal_samples"):
        raise HarnessError("HARNESS-SETUP owned passive sampler: unexpected call of %s" % name)
    if name == "generate_samples" and kw.get("uniform_particle_overlap") is not None:
        raise HarnessError("HARNESS-SETUP owned passive sampler: partially distinguishable input is not modelled")
    inp = tuple(int(x) for x in kw["input"])
    U = kw["interferometer"]
    D = len(inp)
    ps_modes, ps_counts = kw["postselect_data"][0], kw["postselect_data"][1]
    ps_modes = tuple(int(m) for m in ps_modes)
    ps_counts = tuple(int(c) for c in ps_counts)
    req = tuple(int(m) for m in kw["modes"]) if name == "generate_marginal_samples" else None
    key = None
    if cache:
        import numpy as np

        key = (name, inp, np.asarray(U, dtype=complex).tobytes(), ps_modes, ps_counts, req)
        if key in _LAW_CACHE:
            return _LAW_CACHE[key]
    st = R.apply_linear(R.Pure(tuple(range(D)), {inp: 1.0}), tuple(range(D)), U)
    if len(ps_modes):
        st, _ = R.project(st, ps_modes, ps_counts, normalise=True)
    modes = req if req is not None else st.modes
    law = R.marginal_law(st, modes)
    keys = sorted(k for k, p in law.items() if p > 1e-12)
    tot = sum(law[k] for k in keys)
    probs = [law[k] / tot for k in keys]
    if cache:
        if len(_LAW_CACHE) > 4096:
            _LAW_CACHE.clear()
        _LAW_CACHE[key] = (keys, probs)
    return keys, probs


def _owned_passive_answer(ctl, name, a, kw, law=None):
    from mc.choice import multiset_alternatives

    keys, probs = law if law is not None else _passive_law(name, a, kw)
    shots = int(kw["shots"])
    if shots == 1:
        return [keys[ctl.choose(probs, label="owned." + name)]]
    alts = multiset_alternatives(probs, shots, ctl.max_alternatives)
    i = ctl.choose([p for _, p in alts], label="owned.%s[k=%d]" % (name, shots), kind="multi")
    return [keys[j] for j in alts[i][0]]


@contextlib.contextmanager
def recording(ctl, passive="real"):
    import random as _random

    from piquasso._simulators.passive import simulation_steps as pss

    rnd_cls = _random.Random  # the ControlledRandom subclass installed by owned_randomness
    if not hasattr(rnd_cls, "_ctl"):
        from mc.core import HarnessError

        raise HarnessError("HARNESS-SETUP c03_own.recording must be used inside choice.owned_randomness")
    orig_choices = rnd_cls.choices

    def choices(self, population, weights=None, *, cum_weights=None, k=1):
        population = list(population)
        out = orig_choices(self, population, weights, cum_weights=cum_weights, k=k)
        ctl.record(
            "choices_answer",
            population=[tuple(int(x) for x in p) for p in population],
            weights=None if weights is None else [float(w) for w in weights],
            k=int(k),
            answer=[tuple(int(x) for x in s) for s in out],
        )
        return out

    rnd_cls.choices = choices

    saved = {}

    def wrap(name):
        fn = getattr(pss, name)
        saved[name] = fn

        def wrapped(*a, **kw):
            law = None
            if passive == "owned":
                kp = _passive_law(name, a, kw)
                out = _owned_passive_answer(ctl, name, a, kw, kp)
                law = list(zip(*kp))
            else:
                out = fn(*a, **kw)
            modes = kw.get("modes")
            ctl.record(
                "passive_sampler",
                name=name,
                law=law,
                shots=kw.get("shots"),
                modes=None if modes is None else tuple(int(m) for m in modes),
                postselect=tuple(tuple(int(x) for x in t) for t in kw.get("postselect_data", ((), ()))[:2]),
                samples=[tuple(int(x) for x in s) for s in out],
            )
            return out

        setattr(pss, name, wrapped)

    names = (
        "generate_samples",
        "generate_lossy_samples",
        "generate_marginal_samples",
        "generate_lossy_and_partially_distinguishable_samples",
    )
    for n in names:
        wrap(n)
    try:
        yield
    finally:
        for n, fn in saved.items():
            setattr(pss, n, fn)
        # the ControlledRandom subclass is private to this owned_randomness context; restoring keeps a second
        # `recording` in the same context from stacking wrappers
        rnd_cls.choices = orig_choices


@contextlib.contextmanager
def forcing(ctl, policy, draws):
    """Must be entered INSIDE `owned_randomness(ctl, ...)`.  Every categorical draw of the measurement layer -- the
    `Config._random.choices(population, weights, k)` of the Fock-space simulators and the four passive sampler entry
    points -- is ANSWERED BY THE HARNESS without branching: `policy(call_index, n_support, k)` returns the list of
    `k` indices into the sorted support (outcomes of probability > 1e-9) that the draw returns, in that order.  One
    execution = one path; which multisets are dictated is the caller's enumeration (C03 family "budget": the
    (k, N) lattice).  Every draw is appended to `draws` as a dict (index, k, support, probs, answer)."""
    import random as _random

    from mc.core import HarnessError
    from piquasso._simulators.passive import simulation_steps as pss

    rnd_cls = _random.Random
    if not hasattr(rnd_cls, "_ctl"):
        raise HarnessError("HARNESS-SETUP c03_own.forcing must be used inside choice.owned_randomness")
    orig_choices = rnd_cls.choices

    def answer(support, probs, k, seam):
        ci = len(draws)
        idx = list(policy(ci, len(support), k))
        if len(idx) != k or any(not (0 <= i < len(support)) for i in idx):
            raise HarnessError("HARNESS-SETUP forcing policy returned %r for k=%d over %d outcomes" % (idx[:8], k, len(support)))
        out = [support[i] for i in idx]
        draws.append({"index": ci, "seam": seam, "k": k, "support": list(support), "probs": list(probs), "answer": out})
        return out

    def choices(self, population, weights=None, *, cum_weights=None, k=1):
        ctl._require_active("random.Random.choices (forced)")
        population = [tuple(int(x) for x in p) for p in population]
        if weights is None or cum_weights is not None:
            raise HarnessError("HARNESS-SETUP forced categorical draw without explicit weights")
        w = [float(x) for x in weights]
        tot = sum(w)
        if not tot > 0:
            raise ValueError("Total of weights must be greater than zero")
        pairs = sorted((p, x / tot) for p, x in zip(population, w) if x / tot > 1e-9)
        return answer([p for p, _ in pairs], [x for _, x in pairs], int(k), "random.Random.choices")

    rnd_cls.choices = choices
    saved = {}

    def wrap(name):
        saved[name] = getattr(pss, name)

        def wrapped(*a, **kw):
            ctl._require_active("passive sampler %s (forced)" % name)
            keys, probs = _passive_law(name, a, kw, cache=True)
            pairs = [(k_, p) for k_, p in zip(keys, probs) if p > 1e-9]
            return answer([k_ for k_, _ in pairs], [p for _, p in pairs], int(kw["shots"]), name)

        setattr(pss, name, wrapped)

    for n in ("generate_samples", "generate_lossy_samples", "generate_marginal_samples", "generate_lossy_and_partially_distinguishable_samples"):
        wrap(n)
    try:
        yield
    finally:
        for n, fn in saved.items():
            setattr(pss, n, fn)
        rnd_cls.choices = orig_choices
