"""Thin private extension of mc/choice.py for C03 (mc/choice.py itself is not modified).

`recording(ctl)` must be entered INSIDE `owned_randomness(ctl, ...)`.  It adds two kinds of records to the
current path, so that the check knows which outcomes the harness-owned randomness *dictated* to the
accounting layer of piquasso (api/simulator.py, api/result.py), independently of what that layer made of them:

* ("choices_answer", population, weights, k, answer): every categorical draw served by the harness-owned
  `random.Random` (`Config._random.choices(...)` of the Fock-space simulators) together with the list returned;
* ("passive_sampler", name, shots, modes, samples): every call of the four sampler entry points used by
  piquasso/_simulators/passive/simulation_steps.py.  With passive="real" the real samplers run on harness-owned
  generators and only their return value is copied (every particle-by-particle draw is then a choice point: exact,
  but the tree explodes with the number of shots).  With passive="owned" the sampler entry point itself is the
  categorical draw owned by the harness (DESIGN 2.6 / C03: "every multiset of N outcomes"): the lossless samplers
  `generate_samples` / `generate_marginal_samples` are answered with every multiset of `shots` outcomes of the law
  of the (post-selected) state computed by mc/refmodel/projref.py -- the sampling LAW of those functions is C02's
  subject, the accounting above them is C03's.
"""

import contextlib


def _owned_passive_answer(ctl, name, a, kw):
    from mc.choice import multiset_alternatives
    from mc.core import HarnessError
    from mc.refmodel import projref as R

    if a or name not in ("generate_samples", "generate_marginal_samples"):
        raise HarnessError("HARNESS-SETUP owned passive sampler: unexpected call of %s" % name)
    if name == "generate_samples" and kw.get("uniform_particle_overlap") is not None:
        raise HarnessError("HARNESS-SETUP owned passive sampler: partially distinguishable input is not modelled")
    inp = tuple(int(x) for x in kw["input"])
    U = kw["interferometer"]
    D = len(inp)
    shots = int(kw["shots"])
    ps_modes, ps_counts = kw["postselect_data"][0], kw["postselect_data"][1]
    st = R.apply_linear(R.Pure(tuple(range(D)), {inp: 1.0}), tuple(range(D)), U)
    if len(ps_modes):
        st, _ = R.project(st, tuple(int(m) for m in ps_modes), tuple(int(c) for c in ps_counts), normalise=True)
    modes = tuple(int(m) for m in kw["modes"]) if name == "generate_marginal_samples" else st.modes
    law = R.marginal_law(st, modes)
    keys = sorted(k for k, p in law.items() if p > 1e-12)
    tot = sum(law[k] for k in keys)
    probs = [law[k] / tot for k in keys]
    if shots == 1:
        return [keys[ctl.choose(probs, label="owned." + name)]]
    alts = multiset_alternatives(probs, shots, ctl.max_alternatives)
    i = ctl.choose([p for _, p in alts], label="owned.%s[k=%d]" % (name, shots), kind="multi")
    return [keys[j] for j in alts[i][0]]


@contextlib.contextmanager
def recording(ctl, passive="real"):
    import random as _random

    from piquasso._simulators.passive import simulation_steps as pss

    rnd_cls = _random.Random  # the ControlledRandom subclass installed by owned_randomness
    if not hasattr(rnd_cls, "_ctl"):
        from mc.core import HarnessError

        raise HarnessError("HARNESS-SETUP c03_own.recording must be used inside choice.owned_randomness")
    orig_choices = rnd_cls.choices

    def choices(self, population, weights=None, *, cum_weights=None, k=1):
        population = list(population)
        out = orig_choices(self, population, weights, cum_weights=cum_weights, k=k)
        ctl.record(
            "choices_answer",
            population=[tuple(int(x) for x in p) for p in population],
            weights=None if weights is None else [float(w) for w in weights],
            k=int(k),
            answer=[tuple(int(x) for x in s) for s in out],
        )
        return out

    rnd_cls.choices = choices

    saved = {}

    def wrap(name):
        fn = getattr(pss, name)
        saved[name] = fn

        def wrapped(*a, **kw):
            if passive == "owned":
                out = _owned_passive_answer(ctl, name, a, kw)
            else:
                out = fn(*a, **kw)
            modes = kw.get("modes")
            ctl.record(
                "passive_sampler",
                name=name,
                shots=kw.get("shots"),
                modes=None if modes is None else tuple(int(m) for m in modes),
                postselect=tuple(tuple(int(x) for x in t) for t in kw.get("postselect_data", ((), ()))[:2]),
                samples=[tuple(int(x) for x in s) for s in out],
            )
            return out

        setattr(pss, name, wrapped)

    names = (
        "generate_samples",
        "generate_lossy_samples",
        "generate_marginal_samples",
        "generate_lossy_and_partially_distinguishable_samples",
    )
    for n in names:
        wrap(n)
    try:
        yield
    finally:
        for n, fn in saved.items():
            setattr(pss, n, fn)
        # the ControlledRandom subclass is private to this owned_randomness context; restoring keeps a second
        # `recording` in the same context from stacking wrappers
        rnd_cls.choices = orig_choices
