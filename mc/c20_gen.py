"""Generator of the expression grammar of C20 (own AST representation, own unparser, an
independent classifier of what the property calls the supported grammar, and a guarded
evaluator that keeps the enumeration away from astronomically large intermediate values).

Nothing in here imports piquasso.

Trees are nested tuples:
    ('num', '0.5')  ('const', 'True')  ('x',)
    ('un', op, child)                op in  + - not
    ('bin', op, left, right)         op in  + - * / % ** ^
    ('bool', op, (c1, c2[, c3]))     op in  and or
    ('cmp', (op1[, op2]), (c0, c1[, c2]))
    ('tuple', (c...))  ('list', (c...))
    ('sub', base, index)
    ('slice', base, lo|None, hi|None, step|None)
"""

import ast
import itertools
import operator

BINOPS = ["+", "-", "*", "/", "%", "**", "^"]
UNOPS = ["+", "-", "not"]
BOOLOPS = ["and", "or"]
CMPOPS = ["==", "!=", "<", "<=", ">", ">="]

_BIN_PREC = {"^": 6, "+": 9, "-": 9, "*": 10, "/": 10, "%": 10, "**": 12}
P_OR, P_AND, P_NOT, P_CMP, P_UNARY, P_POW, P_ATOM = 1, 2, 3, 4, 11, 12, 14


def prec(t):
    k = t[0]
    if k in ("num", "const", "x", "tuple", "list", "sub", "slice"):
        return P_ATOM
    if k == "un":
        return P_NOT if t[1] == "not" else P_UNARY
    if k == "bin":
        return _BIN_PREC[t[1]]
    if k == "bool":
        return P_AND if t[1] == "and" else P_OR
    if k == "cmp":
        return P_CMP
    raise ValueError(k)


def _wrap(t, minprec, full):
    s = unparse(t, full)
    if full:
        return s  # composites are already wrapped by unparse(full=True)
    return "(" + s + ")" if prec(t) < minprec else s


def unparse(t, full=False):
    """Source text of a tree.  full=True wraps EVERY composite sub-expression in
    (redundant) parentheses -- same AST, exercises the 'parentheses' production."""
    k = t[0]
    if k == "num" or k == "const":
        return t[1]
    if k == "x":
        return "x"
    if k == "un":
        op, c = t[1], t[2]
        if op == "not":
            s = "not " + _wrap(c, P_NOT, full)
        else:
            s = op + _wrap(c, P_UNARY, full)
    elif k == "bin":
        op, l, r = t[1], t[2], t[3]
        p = _BIN_PREC[op]
        if op == "**":
            s = _wrap(l, P_POW + 1, full) + " ** " + _wrap(r, P_UNARY, full)
        else:
            s = _wrap(l, p, full) + " " + op + " " + _wrap(r, p + 1, full)
    elif k == "bool":
        p = P_AND if t[1] == "and" else P_OR
        s = (" " + t[1] + " ").join(_wrap(c, p + 1, full) for c in t[2])
    elif k == "cmp":
        ops, cs = t[1], t[2]
        s = _wrap(cs[0], P_CMP + 1, full)
        for o, c in zip(ops, cs[1:]):
            s += " " + o + " " + _wrap(c, P_CMP + 1, full)
    elif k == "tuple":
        cs = t[1]
        if len(cs) == 1:
            return "(" + unparse(cs[0], full) + ",)"
        return "(" + ", ".join(unparse(c, full) for c in cs) + ")"
    elif k == "list":
        return "[" + ", ".join(unparse(c, full) for c in t[1]) + "]"
    elif k == "sub":
        base = t[1]
        b = unparse(base, full)
        if not full and prec(base) < P_ATOM:
            b = "(" + b + ")"
        return b + "[" + unparse(t[2], full) + "]"
    elif k == "slice":
        base = t[1]
        b = unparse(base, full)
        if not full and prec(base) < P_ATOM:
            b = "(" + b + ")"
        lo, hi, st = t[2], t[3], t[4]
        s = (unparse(lo, full) if lo else "") + ":" + (unparse(hi, full) if hi else "")
        if st is not None:
            s += ":" + unparse(st, full)
        return b + "[" + s + "]"
    else:
        raise ValueError(k)
    return "(" + s + ")" if full else s


# --- python ast -> tree (used to self-check the unparser and to classify mutants) -------------

_AST_BIN = {ast.Add: "+", ast.Sub: "-", ast.Mult: "*", ast.Div: "/", ast.Mod: "%", ast.Pow: "**", ast.BitXor: "^"}
_AST_UN = {ast.UAdd: "+", ast.USub: "-", ast.Not: "not"}
_AST_CMP = {ast.Eq: "==", ast.NotEq: "!=", ast.Lt: "<", ast.LtE: "<=", ast.Gt: ">", ast.GtE: ">="}


class NotInGrammar(Exception):
    pass


def from_ast(n):
    """Convert a python ast expression node into a tree; NotInGrammar if any node is outside
    the property's grammar (numbers, booleans, x, indexing/slicing, arithmetic, comparison,
    boolean operators, tuples, lists)."""
    if isinstance(n, ast.Expression):
        return from_ast(n.body)
    if isinstance(n, ast.Constant):
        v = n.value
        if v is True or v is False:
            return ("const", repr(v))
        if type(v) in (int, float):
            return ("num", repr(v))
        raise NotInGrammar("constant %s" % type(v).__name__)
    if isinstance(n, ast.Name):
        if n.id == "x" and isinstance(n.ctx, ast.Load):
            return ("x",)
        raise NotInGrammar("name")
    if isinstance(n, ast.UnaryOp):
        if type(n.op) not in _AST_UN:
            raise NotInGrammar("unary %s" % type(n.op).__name__)
        return ("un", _AST_UN[type(n.op)], from_ast(n.operand))
    if isinstance(n, ast.BinOp):
        if type(n.op) not in _AST_BIN:
            raise NotInGrammar("binop %s" % type(n.op).__name__)
        return ("bin", _AST_BIN[type(n.op)], from_ast(n.left), from_ast(n.right))
    if isinstance(n, ast.BoolOp):
        return ("bool", "and" if isinstance(n.op, ast.And) else "or", tuple(from_ast(v) for v in n.values))
    if isinstance(n, ast.Compare):
        for o in n.ops:
            if type(o) not in _AST_CMP:
                raise NotInGrammar("cmpop %s" % type(o).__name__)
        return ("cmp", tuple(_AST_CMP[type(o)] for o in n.ops), tuple(from_ast(c) for c in [n.left] + n.comparators))
    if isinstance(n, ast.Tuple) and isinstance(n.ctx, ast.Load):
        return ("tuple", tuple(from_ast(e) for e in n.elts))
    if isinstance(n, ast.List) and isinstance(n.ctx, ast.Load):
        return ("list", tuple(from_ast(e) for e in n.elts))
    if isinstance(n, ast.Subscript) and isinstance(n.ctx, ast.Load):
        if isinstance(n.slice, ast.Slice):
            s = n.slice
            return (
                "slice",
                from_ast(n.value),
                from_ast(s.lower) if s.lower is not None else None,
                from_ast(s.upper) if s.upper is not None else None,
                from_ast(s.step) if s.step is not None else None,
            )
        return ("sub", from_ast(n.value), from_ast(n.slice))
    raise NotInGrammar(type(n).__name__)


# nodes the property neither lists as supported nor as "anything else (names, calls, attributes,
# comprehensions, strings)": further arithmetic / bitwise / comparison operators and complex
# number literals.  Accepting them is tolerated iff the accepted expression means what Python means.
_NEUTRAL_OPS = (
    ast.FloorDiv, ast.LShift, ast.RShift, ast.BitOr, ast.BitAnd, ast.MatMult, ast.Invert,
    ast.Is, ast.IsNot, ast.In, ast.NotIn,
)


def classify(src):
    """('syntax', None) | ('grammar', tree) | ('neutral', why) | ('hostile', why) for a source
    string, by the property's wording -- independent of piquasso's whitelist."""
    try:
        tree = ast.parse(src.strip(), mode="eval")
    except (SyntaxError, ValueError, RecursionError, MemoryError) as e:
        return ("syntax", type(e).__name__)
    try:
        return ("grammar", from_ast(tree))
    except NotInGrammar:
        pass
    except RecursionError:
        return ("syntax", "RecursionError")
    why = None
    for n in ast.walk(tree):
        # extended slicing x[a:b, c]: a Slice that is not the direct index of a Subscript
        if isinstance(n, (ast.Tuple, ast.List)) and any(isinstance(e, ast.Slice) for e in n.elts):
            why = why or "extslice"
        if isinstance(n, (ast.Expression, ast.Load, ast.BoolOp, ast.UnaryOp, ast.BinOp, ast.Compare, ast.Subscript, ast.Slice, ast.And, ast.Or)):
            continue
        if isinstance(n, tuple(_AST_BIN) + tuple(_AST_UN) + tuple(_AST_CMP)):
            continue
        if isinstance(n, _NEUTRAL_OPS):
            why = why or type(n).__name__
            continue
        if isinstance(n, ast.Constant):
            v = n.value
            if v is True or v is False or type(v) in (int, float):
                continue
            if type(v) is complex:
                why = why or "complex"
                continue
            return ("hostile", "Constant:" + type(v).__name__)
        if isinstance(n, ast.Name):
            if n.id == "x" and isinstance(n.ctx, ast.Load):
                continue
            return ("hostile", "Name")
        if isinstance(n, (ast.Tuple, ast.List)) and isinstance(n.ctx, ast.Load):
            continue
        return ("hostile", type(n).__name__)
    return ("neutral", why or "other")


# --- guarded evaluation (resource guard only; the oracle is python's eval) -------------------


class Skip(Exception):
    """evaluating this (expression, x) would build a huge integer or sequence"""


_RAISED = object()
_BINF = {"+": operator.add, "-": operator.sub, "*": operator.mul, "/": operator.truediv, "%": operator.mod, "**": operator.pow, "^": operator.xor}
_CMPF = {"==": operator.eq, "!=": operator.ne, "<": operator.lt, "<=": operator.le, ">": operator.gt, ">=": operator.ge}
MAX_BITS = 2048
MAX_LEN = 4096


def _isint(v):
    return isinstance(v, int) or (hasattr(v, "dtype") and getattr(v, "ndim", 1) == 0 and getattr(v.dtype, "kind", "") in "iub")


def _size_guard(v):
    if isinstance(v, int) and not isinstance(v, bool) and v.bit_length() > MAX_BITS:
        raise Skip()
    if isinstance(v, (tuple, list)) and len(v) > MAX_LEN:
        raise Skip()
    return v


def guard_eval(t, x):
    """Evaluate EVERY sub-expression (also the ones short-circuiting would skip) with
    size guards; raises Skip if any intermediate value would be huge.  Python exceptions in a
    sub-expression make that sub-expression's value unknown (_RAISED), which is harmless."""
    k = t[0]
    if k == "num":
        return ast.literal_eval(t[1])
    if k == "const":
        return t[1] == "True"
    if k == "x":
        return x
    if k == "un":
        v = guard_eval(t[2], x)
        if v is _RAISED:
            return v
        try:
            return {"+": operator.pos, "-": operator.neg, "not": operator.not_}[t[1]](v)
        except Exception:
            return _RAISED
    if k == "bin":
        a = guard_eval(t[2], x)
        b = guard_eval(t[3], x)
        if a is _RAISED or b is _RAISED:
            return _RAISED
        op = t[1]
        if op == "**" and _isint(a) and _isint(b):
            if abs(int(a)) > 1 and int(b) * max(1, abs(int(a)).bit_length()) > MAX_BITS:
                raise Skip()
        if op == "*":
            for s, n in ((a, b), (b, a)):
                if isinstance(s, (tuple, list)) and _isint(n) and int(n) * max(1, len(s)) > MAX_LEN:
                    raise Skip()
        try:
            return _size_guard(_BINF[op](a, b))
        except Skip:
            raise
        except Exception:
            return _RAISED
    if k == "bool":
        vals = [guard_eval(c, x) for c in t[2]]
        res = None
        for v in vals:
            res = v
            if v is _RAISED:
                return _RAISED
            try:
                tv = bool(v)
            except Exception:
                return _RAISED
            if (t[1] == "and" and not tv) or (t[1] == "or" and tv):
                return v
        return res
    if k == "cmp":
        vals = [guard_eval(c, x) for c in t[2]]
        if any(v is _RAISED for v in vals):
            return _RAISED
        try:
            res = True
            for o, a, b in zip(t[1], vals, vals[1:]):
                res = _CMPF[o](a, b)
                if not res:
                    return res
            return res
        except Exception:
            return _RAISED
    if k in ("tuple", "list"):
        vals = [guard_eval(c, x) for c in t[1]]
        if any(v is _RAISED for v in vals):
            return _RAISED
        return tuple(vals) if k == "tuple" else list(vals)
    if k == "sub":
        b = guard_eval(t[1], x)
        i = guard_eval(t[2], x)
        if b is _RAISED or i is _RAISED:
            return _RAISED
        try:
            return b[i]
        except Exception:
            return _RAISED
    if k == "slice":
        vals = [guard_eval(c, x) if c is not None else None for c in t[1:5]]
        if any(v is _RAISED for v in vals):
            return _RAISED
        try:
            return vals[0][slice(vals[1], vals[2], vals[3])]
        except Exception:
            return _RAISED
    raise ValueError(k)


def uses_x(t):
    if t[0] == "x":
        return True
    for c in t[1:]:
        if isinstance(c, tuple):
            if c and isinstance(c[0], str) and c[0] in _KINDS:
                if uses_x(c):
                    return True
            else:
                for e in c:
                    if isinstance(e, tuple) and e and uses_x(e):
                        return True
    return False


_KINDS = {"num", "const", "x", "un", "bin", "bool", "cmp", "tuple", "list", "sub", "slice"}


def subtrees(t):
    """all sub-expressions, children before parents (post-order)"""
    out = []

    def rec(u):
        k = u[0]
        if k == "un":
            rec(u[2])
        elif k == "bin":
            rec(u[2]); rec(u[3])
        elif k in ("bool", "cmp"):
            for c in u[2]:
                rec(c)
        elif k in ("tuple", "list"):
            for c in u[1]:
                rec(c)
        elif k == "sub":
            rec(u[1]); rec(u[2])
        elif k == "slice":
            for c in u[1:5]:
                if c is not None:
                    rec(c)
        out.append(u)

    rec(t)
    return out


def node_label(t):
    """stable, coarse label of the root production (used in signatures): the node kind and, for
    operators, the operator -- never operand shapes"""
    k = t[0]
    if k in ("un", "bin", "bool"):
        return "%s:%s" % (k, t[1])
    if k == "cmp":
        return "cmp_chain" if len(t[1]) > 1 else "cmp"
    return k


# --- alphabets --------------------------------------------------------------------------------


def N(v):
    return ("num", repr(v))


X = ("x",)
TRUE, FALSE = ("const", "True"), ("const", "False")


def xi(i):
    return ("sub", X, N(i) if i >= 0 else ("un", "-", N(-i)))


def xs(lo, hi, st=None):
    f = lambda v: None if v is None else (N(v) if v >= 0 else ("un", "-", N(-v)))
    return ("slice", X, f(lo), f(hi), f(st))


EMPTY_T, EMPTY_L = ("tuple", ()), ("list", ())

A_FULL = [N(0), N(1), N(2), N(3), N(0.5), N(2.0), TRUE, FALSE, X, xi(0), xi(1), xi(2), xi(-1), xs(0, 2), xs(1, None), xs(None, None, -1), xs(None, None, 2)]
A_MID = [N(0), N(1), N(2), N(0.5), TRUE, X, xi(0), xi(-1), xs(1, None)]
A_RED = [N(0), N(2), TRUE, X, xi(0), xi(1)]
A_MIN = [N(0), N(2), X, xi(0)]
A_TINY = [N(2), X, xi(0)]
A_TWO = [N(2), xi(0)]


# --- bounded-exhaustive enumeration -----------------------------------------------------------
#
# T(d, k) = every tree of depth <= d with exactly k leaf occurrences (atoms of the alphabet are
# depth 0 and count as one leaf).  Productions and their child slots:
#   un(op; c)  bin(op; l, r)  bool(op; 2..3)  cmp(1..2 ops; 2..3)  tuple(1..3)  list(1..3)
#   sub(base, idx)  slice(base[, lo][, hi][, step])  (all 8 presence patterns)
# The empty tuple / list are productions without leaves; they are added as extra atoms.


def compositions(k, m):
    """all ways of writing k as an ordered sum of m positive integers"""
    if m == 1:
        if k >= 1:
            yield (k,)
        return
    for first in range(1, k - m + 2):
        for rest in compositions(k - first, m - 1):
            yield (first,) + rest


class Enumerator:
    """T(d, k): every tree of depth <= d with exactly k leaf occurrences over `alphabet` and the
    given operator sets.  `reduced=True` drops productions that only duplicate another one's
    evaluation path (list displays, unary +, slice patterns lo:hi / lo::step / :hi:step)."""

    def __init__(self, alphabet, binops=BINOPS, cmpops=CMPOPS, unops=UNOPS, reduced=False):
        self.alphabet = list(alphabet)
        self.binops = list(binops)
        self.cmpops = list(cmpops)
        self.unops = list(unops)
        self.reduced = reduced
        self.memo = {}

    def trees(self, d, k):
        """materialised list of all trees of depth <= d with exactly k leaves"""
        key = (d, k)
        if key not in self.memo:
            self.memo[key] = list(self.iter_trees(d, k))
        return self.memo[key]

    def iter_trees(self, d, k):
        """every tree of depth <= d with exactly k leaves, each exactly once, in a fixed order
        (children lists are materialised, the top level is lazy)"""
        red = self.reduced
        if k == 1:
            yield from self.alphabet
        if d < 1:
            return
        sub = lambda kk: self.trees(d - 1, kk)
        for c in sub(k):
            for op in self.unops:
                yield ("un", op, c)
            yield ("tuple", (c,))
            if not red:
                yield ("list", (c,))
            yield ("slice", c, None, None, None)
        for k1, k2 in compositions(k, 2):
            for a in sub(k1):
                for b in sub(k2):
                    for op in self.binops:
                        yield ("bin", op, a, b)
                    for op in BOOLOPS:
                        yield ("bool", op, (a, b))
                    for op in self.cmpops:
                        yield ("cmp", (op,), (a, b))
                    yield ("tuple", (a, b))
                    if not red:
                        yield ("list", (a, b))
                    yield ("sub", a, b)
                    yield ("slice", a, b, None, None)
                    yield ("slice", a, None, b, None)
                    yield ("slice", a, None, None, b)
        if k >= 3:
            for k1, k2, k3 in compositions(k, 3):
                for a in sub(k1):
                    for b in sub(k2):
                        for c in sub(k3):
                            for op in BOOLOPS:
                                yield ("bool", op, (a, b, c))
                            for o1 in self.cmpops:
                                for o2 in self.cmpops:
                                    yield ("cmp", (o1, o2), (a, b, c))
                            yield ("tuple", (a, b, c))
                            if not red:
                                yield ("list", (a, b, c))
                                yield ("slice", a, b, c, None)
                                yield ("slice", a, b, None, c)
                                yield ("slice", a, None, b, c)
        if k >= 4:
            for comp in compositions(k, 4):
                for a in sub(comp[0]):
                    for b in sub(comp[1]):
                        for c in sub(comp[2]):
                            for e in sub(comp[3]):
                                yield ("slice", a, b, c, e)

    def count(self, d, k):
        return sum(1 for _ in self.iter_trees(d, k))
