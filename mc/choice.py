"""Owning randomness: the probabilistic path explorer (DESIGN.md section 2.6).

Reusable by every check that needs *all* executions of a randomised piece of piquasso
(C02 Born laws, C03 shot accounting, C11 reproducibility).  Nothing in this module decides
a property; it only turns "a function that consumes random numbers" into "the finite tree
of its executions with exact path probabilities".

Public API
==========

``ChoiceController(max_paths=None, max_deviations=None, min_path_prob=0.0, max_alternatives=100000)``
    Stateless DFS over choice sequences by *prefix replay*.

    ``run(fn, prefix=()) -> Path``
        Runs ``fn()`` once.  The first ``len(prefix)`` (non-forced) choice points take the
        alternatives listed in ``prefix`` -- an out-of-range entry, or a prefix that is longer
        than the number of choice points met, is a hard ``HarnessError`` -- every later choice
        point takes alternative 0.  Every choice point met is recorded with its number of
        alternatives and exact probabilities.  Exceptions raised by ``fn`` (other than
        ``HarnessError``) are captured in ``Path.exception``.
    ``explore(fn, on_path=None, keep_paths=True) -> Exploration``
        Enumerates EVERY path of ``fn`` (depth-first, children generated from the recorded
        choice points), each executed on the real code exactly once.  Caps (``max_paths``,
        ``max_deviations`` = number of non-zero choices in a prefix, ``min_path_prob``) never
        cut silently: the mass that was not explored is accumulated in
        ``Exploration.pruned_mass`` / ``Exploration.pruned_prefixes`` and
        ``Exploration.complete`` is False.  While replaying a prefix the choice points must be
        the ones the parent run saw (same arity, same probabilities to 1e-12) -- otherwise
        ``HarnessError("HARNESS-NONDETERMINISM ...")``.
    ``choose(probs, label="", kind="choice") -> int``
        The primitive used by the seams (and usable directly by a harness): one choice point.
        Zero-probability alternatives are not alternatives; a single remaining alternative is
        *forced* (counted in ``Path.forced``, does not consume the prefix).  Returns the index
        into ``probs``.  ``probs`` are used as given (the caller normalises).
    ``lattices`` (a ``Lattices``), ``active`` (bool), ``uncaptured(what)`` (used by the guards),
    ``next_call_index(kind)``.
    ``record(kind, **data)``
        Attach a record (e.g. the arguments of ``multivariate_normal``) to the current path.

``Path``: ``choices`` (tuple of ints), ``prob`` (float, product of the alternatives'
    probabilities), ``points`` (list of ``ChoicePoint``), ``result``, ``exception``,
    ``records`` (list of ``(kind, dict)``), ``forced`` (number of forced points).
``ChoicePoint``: ``label``, ``n`` (alternatives), ``probs`` (tuple), ``taken``, ``kind``.
``Exploration``: ``paths`` (list of Path, if kept), ``n_paths``, ``mass`` (sum of path
    probabilities), ``pruned_mass``, ``pruned_prefixes``, ``complete``, ``n_choice_points``,
    ``n_states`` (distinct prefixes = internal nodes + leaves of the choice tree), ``n_edges``
    (alternatives of all choice points = transitions of the tree), ``max_depth``,
    ``law(key=lambda path: path.result)`` -> ``{key: probability}`` (exceptions are keyed
    ``("EXC", type name)``).

``SymU``
    Symbolic uniform random number (``__array_ufunc__ = None``).  ``u < p``, ``u <= p``,
    ``u > p``, ``u >= p`` (and the reflected forms ``p >= u`` ..., also with NumPy scalars)
    are binary choice points with exact conditional probability ``(p-lo)/(hi-lo)`` and narrow
    the interval ``[lo, hi)``; affine arithmetic (``a*u+b``) is supported; anything that
    needs the concrete value (``float(u)``, ``bool``, array conversion, comparison with an
    array or another ``SymU``) raises ``HarnessError("HARNESS-UNCAPTURED ...")``.

``ControlledRNG(controller, name="rng", seed=None, size_mode="sequence")``
    Emulates the parts of ``numpy.random.Generator`` piquasso uses:
    ``choice(a, size=None, replace=True, p=None)``, ``random(size=None)``,
    ``uniform(low, high, size=None)`` (scalar -> ``SymU``; with ``size`` -> an array taken from
    ``controller.lattices["uniform_array"]``), ``normal`` / ``standard_normal`` /
    ``multivariate_normal`` (arguments recorded with ``controller.record``; the answer is a
    choice among the finite lattice returned by ``controller.lattices["normal"]`` /
    ``["multivariate_normal"]``, see ``Lattices``), ``integers``, ``permutation``,
    ``shuffle``.  NumPy's argument validation of ``p`` is emulated (``ValueError``).  Any other
    attribute raises ``HarnessError("HARNESS-UNCAPTURED ...")``.
    ``size_mode``: how ``choice(size=k)`` with k draws is answered -- ``"sequence"``: every
    ordered sequence (exact for consumers that pair the draws positionally), ``"multiset"``:
    every multiset (composition of k) with its multinomial probability, returned sorted by
    population index (exact for consumers that only bin the draws).

``Lattices``: dict-like defaults used for continuous draws; each entry is a callable returning
    ``(points, weights)`` (weights sum to 1; for a quadrature lattice they are the quadrature
    weights, for a probing lattice they are nominal and the caller must not interpret the
    path probability as a physical one):
    ``"normal"(shape, call_index)`` -> points are flat arrays of prod(shape) standard-normal
    answers (the generator returns ``loc + scale * point``); ``call_index`` counts the
    ``normal`` calls of the current run from 0;
    ``"multivariate_normal"(mean, cov, shape, (call_index, row))`` -> points are the returned
    rows themselves (one choice point per row of ``size``);
    ``"uniform_array"(shape, call_index)`` -> points are flat arrays in [0, 1).
    Defaults: a single point (0 / the mean / 0.5), i.e. no branching.

``owned_randomness(controller, choices_mode="multiset", shuffle_mode="permutations", module_random="guard", rng_size_mode="sequence")``
    Context manager patching ALL seams of the current process: ``Config.rng`` and
    ``Config._random`` (data descriptors on the class: also configs created before the context
    answer with the controlled objects), ``numpy.random.default_rng`` (records the requested
    seed), ``random.Random`` (a ``ControlledRandom``: ``choices`` / ``random`` / ``uniform`` /
    ``shuffle`` / ``seed`` are served -- this covers ``Config._random.choices`` of the Fock-space
    categorical sampling and the shuffle of ``Result.samples``), ``random.seed`` (no-op,
    recorded), ``os.urandom`` (deterministic counter).  The module-level
    ``random.choices`` / ``random.random`` / ``random.uniform`` (global random state) are an
    UNCAPTURED guard by default (``module_random="guard"``); ``module_random="own"`` serves
    them as choice points (for trees that still sample from the global state).
    ``rng_size_mode`` is the ``size_mode`` of every ``ControlledRNG`` handed out (``Config.rng``
    and ``default_rng``).  Yields the ``ControlledRNG`` that answers for ``Config.rng``.
    UNCAPTURED guard: every other real entry point (``random.randint`` ...,
    ``numpy.random.Generator`` / ``RandomState`` / legacy ``numpy.random.*`` functions,
    ``random.SystemRandom``) raises ``HarnessError("HARNESS-UNCAPTURED ...")`` inside the
    context, and the controller re-raises it at the end of the run even if library code
    swallowed the exception.
    ``choices_mode``: ``"multiset"`` (DESIGN 2.6: ``random.choices(pop, weights, k)`` returns
    every multiset of k outcomes, as a list sorted by population index) or ``"sequence"``.
    ``shuffle_mode``: ``"permutations"`` (every distinct arrangement, probability
    multiplicity/n!) or ``"identity"``.

``multiset_alternatives(probs, k)`` / ``sequence_alternatives(probs, k)``: the enumerations
    used above, exposed for C03.

Only ``core.HarnessError`` is imported from the framework; piquasso is imported lazily inside
``owned_randomness``.
"""

import contextlib
import hashlib
import itertools
import math

import numpy as np

from mc.core import HarnessError

__all__ = [
    "ChoiceController",
    "ChoicePoint",
    "Path",
    "Exploration",
    "SymU",
    "ControlledRNG",
    "ControlledRandom",
    "Lattices",
    "owned_randomness",
    "multiset_alternatives",
    "sequence_alternatives",
]


# ---------------------------------------------------------------------------------------
# data


class ChoicePoint:
    __slots__ = ("label", "n", "probs", "taken", "kind")

    def __init__(self, label, probs, taken, kind="choice"):
        self.label = label
        self.n = len(probs)
        self.probs = probs
        self.taken = taken
        self.kind = kind

    def __repr__(self):
        return "ChoicePoint(%s, n=%d, taken=%d, p=%.6g)" % (self.label, self.n, self.taken, self.probs[self.taken])


class Path:
    __slots__ = ("choices", "prob", "points", "result", "exception", "records", "forced")

    def __init__(self):
        self.choices = ()
        self.prob = 1.0
        self.points = []
        self.result = None
        self.exception = None
        self.records = []
        self.forced = 0

    def key(self):
        if self.exception is not None:
            return ("EXC", type(self.exception).__name__)
        return self.result


class Exploration:
    def __init__(self):
        self.paths = []
        self.n_paths = 0
        self.mass = 0.0
        self.pruned_mass = 0.0
        self.pruned_prefixes = 0
        self.complete = True
        self.n_choice_points = 0
        self.n_forced = 0
        self.n_states = 0
        self.max_depth = 0
        self.n_edges = 0
        self.cap_reasons = []

    def law(self, key=None):
        """Sum of path probabilities per key (default: Path.key())."""
        out = {}
        for p in self.paths:
            k = p.key() if key is None else key(p)
            out[k] = out.get(k, 0.0) + p.prob
        return out


# ---------------------------------------------------------------------------------------
# enumerations of k i.i.d. draws


def sequence_alternatives(probs, k, cap=100000):
    """All ordered sequences of k i.i.d. draws from the alternatives with non-zero
    probability: list of (tuple of indices into probs, probability)."""
    support = [i for i, p in enumerate(probs) if p > 0.0]
    if len(support) ** k > cap:
        raise HarnessError("HARNESS-CAP %d**%d sequence alternatives exceed the cap %d" % (len(support), k, cap))
    out = []
    for seq in itertools.product(support, repeat=k):
        pr = 1.0
        for i in seq:
            pr *= probs[i]
        out.append((seq, pr))
    return out


def multiset_alternatives(probs, k, cap=100000):
    """All multisets of k i.i.d. draws: list of (sorted tuple of indices into probs,
    multinomial probability)."""
    support = [i for i, p in enumerate(probs) if p > 0.0]
    if math.comb(len(support) + k - 1, k) > cap:
        raise HarnessError("HARNESS-CAP C(%d+%d-1,%d) multiset alternatives exceed the cap %d" % (len(support), k, k, cap))
    out = []
    for ms in itertools.combinations_with_replacement(support, k):
        pr = float(math.factorial(k))
        cnt = {}
        for i in ms:
            cnt[i] = cnt.get(i, 0) + 1
        for i, m in cnt.items():
            pr *= probs[i] ** m / math.factorial(m)
        out.append((ms, pr))
    return out


# ---------------------------------------------------------------------------------------
# lattices for continuous draws


def _default_normal_lattice(size, call_index):
    n = int(np.prod(size)) if size is not None else 1
    return [np.zeros(n)], [1.0]


def _default_mvn_lattice(mean, cov, size, call_index):
    return [np.array(mean, dtype=float)], [1.0]


def _default_uniform_array_lattice(size, call_index):
    n = int(np.prod(size))
    return [np.full(n, 0.5)], [1.0]


class Lattices(dict):
    """Finite answer sets for continuous draws, see module docstring."""

    def __init__(self):
        super().__init__()
        self["normal"] = _default_normal_lattice
        self["multivariate_normal"] = _default_mvn_lattice
        self["uniform_array"] = _default_uniform_array_lattice


# ---------------------------------------------------------------------------------------
# the controller


class ChoiceController:
    def __init__(self, max_paths=None, max_deviations=None, min_path_prob=0.0, max_alternatives=100000):
        self.max_paths = max_paths
        self.max_deviations = max_deviations
        self.min_path_prob = min_path_prob
        self.max_alternatives = max_alternatives
        self.lattices = Lattices()
        self._active = False
        self._prefix = ()
        self._expect = None
        self._pos = 0
        self._path = None
        self._uncaptured = []
        self._call_index = {}

    # -- primitives used by the seams ---------------------------------------------------
    @property
    def active(self):
        return self._active

    def _require_active(self, what):
        if not self._active:
            raise HarnessError("HARNESS-UNCAPTURED %s used outside ChoiceController.run()" % what)

    def uncaptured(self, what):
        """Called by the guards: remember (library code may swallow the exception) and raise."""
        msg = "HARNESS-UNCAPTURED real randomness requested through %s inside a harness-owned run" % what
        self._uncaptured.append(msg)
        raise HarnessError(msg)

    def next_call_index(self, kind):
        i = self._call_index.get(kind, 0)
        self._call_index[kind] = i + 1
        return i

    def record(self, kind, **data):
        self._require_active("record")
        self._path.records.append((kind, data))

    def choose(self, probs, label="", kind="choice"):
        """One choice point.  probs: non-negative numbers summing to 1 (they are used as given:
        the caller normalises).  Returns the index of the alternative taken."""
        self._require_active("choose(%s)" % label)
        support = [i for i, p in enumerate(probs) if p > 0.0]
        if not support:
            raise HarnessError("HARNESS-CHOICE choice point %r without any alternative of positive probability" % (label,))
        if len(support) > self.max_alternatives:
            raise HarnessError("HARNESS-CAP choice point %r has %d alternatives (cap %d)" % (label, len(support), self.max_alternatives))
        path = self._path
        if len(support) == 1:
            path.forced += 1
            path.prob *= float(probs[support[0]])
            return support[0]
        sp = tuple(float(probs[i]) for i in support)
        pos = self._pos
        if pos < len(self._prefix):
            alt = self._prefix[pos]
            if not (isinstance(alt, (int, np.integer)) and 0 <= alt < len(sp)):
                raise HarnessError(
                    "HARNESS-REPLAY choice %r at position %d out of range for %r with %d alternatives" % (alt, pos, label, len(sp))
                )
            alt = int(alt)
            if self._expect is not None and pos < len(self._expect):
                en, eprobs = self._expect[pos]
                if en != len(sp) or any(abs(a - b) > 1e-12 for a, b in zip(eprobs, sp)):
                    raise HarnessError(
                        "HARNESS-NONDETERMINISM choice point %d (%r) differs between two runs of the same prefix: "
                        "%d alternatives %r vs %d alternatives %r" % (pos, label, en, eprobs, len(sp), sp)
                    )
        else:
            alt = 0
        self._pos = pos + 1
        path.points.append(ChoicePoint(label, sp, alt, kind))
        path.prob *= sp[alt]
        return support[alt]

    # -- running ------------------------------------------------------------------------
    def run(self, fn, prefix=(), _expect=None):
        if self._active:
            raise HarnessError("HARNESS-REENTRANT ChoiceController.run() called inside a run")
        self._prefix = tuple(prefix)
        self._expect = _expect
        self._pos = 0
        self._path = path = Path()
        self._uncaptured = []
        self._call_index = {}
        self._active = True
        try:
            try:
                path.result = fn()
            except HarnessError:
                raise
            except Exception as e:  # the library's own reaction is an outcome of the path
                path.exception = e
        finally:
            self._active = False
        if self._uncaptured:
            raise HarnessError(self._uncaptured[0])
        if self._pos < len(self._prefix):
            raise HarnessError(
                "HARNESS-REPLAY prefix of length %d but only %d choice points were met" % (len(self._prefix), self._pos)
            )
        path.choices = tuple(pt.taken for pt in path.points)
        return path

    def explore(self, fn, on_path=None, keep_paths=True):
        ex = Exploration()
        stack = [((), None, 1.0)]
        seen_points = 0
        while stack:
            prefix, expect, pmass = stack.pop()
            if self.max_paths is not None and ex.n_paths >= self.max_paths:
                ex.complete = False
                ex.pruned_mass += pmass
                ex.pruned_prefixes += 1
                if "max_paths" not in ex.cap_reasons:
                    ex.cap_reasons.append("max_paths")
                continue
            path = self.run(fn, prefix, expect)
            ex.n_paths += 1
            ex.n_states += 1
            ex.mass += path.prob
            ex.n_forced += path.forced
            ex.max_depth = max(ex.max_depth, len(path.points))
            if keep_paths:
                ex.paths.append(path)
            if on_path is not None:
                on_path(path)
            # children: deviate at every choice point met after the prefix
            sig = tuple((pt.n, pt.probs) for pt in path.points)
            cum = 1.0
            cums = []
            for pt in path.points:
                cums.append(cum)
                cum *= pt.probs[pt.taken]
            children = []
            for i in range(len(prefix), len(path.points)):
                pt = path.points[i]
                seen_points += 1
                ex.n_edges += pt.n
                for alt in range(1, pt.n):
                    child = path.choices[:i] + (alt,)
                    cm = cums[i] * pt.probs[alt]
                    dev = sum(1 for c in child if c)
                    if self.max_deviations is not None and dev > self.max_deviations:
                        ex.complete = False
                        ex.pruned_mass += cm
                        ex.pruned_prefixes += 1
                        if "max_deviations" not in ex.cap_reasons:
                            ex.cap_reasons.append("max_deviations")
                        continue
                    if cm < self.min_path_prob:
                        ex.complete = False
                        ex.pruned_mass += cm
                        ex.pruned_prefixes += 1
                        if "min_path_prob" not in ex.cap_reasons:
                            ex.cap_reasons.append("min_path_prob")
                        continue
                    children.append((child, sig[: i + 1], cm))
            # DFS order: first deviation explored first
            stack.extend(reversed(children))
        ex.n_choice_points = seen_points
        ex.n_states += seen_points  # internal nodes of the choice tree
        return ex


# ---------------------------------------------------------------------------------------
# symbolic uniform


class _UCore:
    __slots__ = ("lo", "hi", "ctl", "label")

    def __init__(self, ctl, lo, hi, label):
        self.ctl = ctl
        self.lo = float(lo)
        self.hi = float(hi)
        self.label = label


def _is_scalar_number(x):
    if isinstance(x, (bool, int, float, np.integer, np.floating, np.bool_)):
        return True
    if isinstance(x, np.ndarray) and x.ndim == 0 and x.dtype.kind in "fiub":
        return True
    return False


class SymU:
    """value = scale * U + shift, U uniform on [core.lo, core.hi)."""

    __array_ufunc__ = None
    __array_priority__ = 1e9
    __slots__ = ("_core", "_scale", "_shift")

    def __init__(self, ctl, lo=0.0, hi=1.0, label="symu", _core=None, _scale=1.0, _shift=0.0):
        self._core = _core if _core is not None else _UCore(ctl, lo, hi, label)
        self._scale = _scale
        self._shift = _shift

    # -- the only way to look at the value ----------------------------------------------
    def _less_than(self, p, label):
        """Decide (value < p); value <= p has the same probability."""
        core = self._core
        if not _is_scalar_number(p):
            if isinstance(p, SymU):
                raise HarnessError("HARNESS-UNCAPTURED comparison of two symbolic uniforms is not supported")
            raise HarnessError("HARNESS-UNCAPTURED symbolic uniform compared with a non-scalar %r" % type(p).__name__)
        p = float(p)
        if p != p:
            core.ctl.record("symu_nan_comparison", label=core.label)
            return None
        s = self._scale
        if s == 0.0:
            raise HarnessError("HARNESS-UNCAPTURED symbolic uniform scaled by 0")
        t = (p - self._shift) / s  # value < p  <=>  U < t (s>0)  or  U > t (s<0)
        lo, hi = core.lo, core.hi
        if s > 0:
            if t <= lo:
                return False
            if t >= hi:
                return True
            q = (t - lo) / (hi - lo)
            alt = core.ctl.choose((q, 1.0 - q), label=core.label + label, kind="symu")
            if alt == 0:
                core.hi = t
                return True
            core.lo = t
            return False
        else:
            if t >= hi:
                return False
            if t <= lo:
                return True
            q = (hi - t) / (hi - lo)
            alt = core.ctl.choose((q, 1.0 - q), label=core.label + label, kind="symu")
            if alt == 0:
                core.lo = t
                return True
            core.hi = t
            return False

    def __lt__(self, p):
        r = self._less_than(p, "<")
        return False if r is None else r

    def __le__(self, p):
        r = self._less_than(p, "<=")
        return False if r is None else r

    def __gt__(self, p):
        r = self._less_than(p, ">")
        return False if r is None else (not r)

    def __ge__(self, p):
        r = self._less_than(p, ">=")
        return False if r is None else (not r)

    def __eq__(self, p):
        raise HarnessError("HARNESS-UNCAPTURED equality test on a symbolic uniform")

    def __ne__(self, p):
        raise HarnessError("HARNESS-UNCAPTURED equality test on a symbolic uniform")

    __hash__ = None

    # -- affine arithmetic ----------------------------------------------------------------
    def _affine(self, scale, shift):
        return SymU(None, _core=self._core, _scale=self._scale * scale, _shift=self._shift * scale + shift)

    def _num(self, x, op):
        if not _is_scalar_number(x):
            raise HarnessError("HARNESS-UNCAPTURED symbolic uniform used in %s with %r" % (op, type(x).__name__))
        return float(x)

    def __mul__(self, x):
        return self._affine(self._num(x, "*"), 0.0)

    __rmul__ = __mul__

    def __truediv__(self, x):
        return self._affine(1.0 / self._num(x, "/"), 0.0)

    def __add__(self, x):
        return self._affine(1.0, self._num(x, "+"))

    __radd__ = __add__

    def __sub__(self, x):
        return self._affine(1.0, -self._num(x, "-"))

    def __rsub__(self, x):
        return self._affine(-1.0, self._num(x, "-"))

    def __neg__(self):
        return self._affine(-1.0, 0.0)

    def __pos__(self):
        return self

    # -- everything that needs the concrete value -------------------------------------------
    def _concrete(self, what):
        raise HarnessError("HARNESS-UNCAPTURED the concrete value of a symbolic uniform was requested (%s)" % what)

    def __float__(self):
        self._concrete("float()")

    def __int__(self):
        self._concrete("int()")

    def __bool__(self):
        self._concrete("bool()")

    def __index__(self):
        self._concrete("index")

    def __array__(self, *a, **k):
        self._concrete("numpy array conversion")

    def __len__(self):
        self._concrete("len()")

    def __iter__(self):
        self._concrete("iter()")

    def __repr__(self):
        c = self._core
        return "SymU(%g*U%+g, U in [%.6g, %.6g))" % (self._scale, self._shift, c.lo, c.hi)

    @property
    def interval(self):
        """Current interval of the value (ascending)."""
        a = self._scale * self._core.lo + self._shift
        b = self._scale * self._core.hi + self._shift
        return (a, b) if a <= b else (b, a)


# ---------------------------------------------------------------------------------------
# numpy.random.Generator look-alike


def _validate_p(p, n):
    """NumPy's Generator.choice validation, then exact normalisation (NumPy divides the cdf
    by its last entry)."""
    p = np.array(p, dtype=np.float64, copy=True)
    if p.ndim != 1:
        raise ValueError("p must be 1-dimensional")
    if p.size != n:
        raise ValueError("a and p must have same size")
    if np.isnan(p).any():
        raise ValueError("Probabilities contain NaN")
    if (p < 0).any():
        raise ValueError("Probabilities are not non-negative")
    atol = max(np.sqrt(np.finfo(np.float64).eps), 0.0)
    if abs(float(np.sum(p)) - 1.0) > atol:
        raise ValueError("Probabilities do not sum to 1. See Notes section of docstring for more information.")
    return p / np.sum(p)


def _size_to_count(size):
    if size is None:
        return None, None
    if isinstance(size, (int, np.integer)):
        return int(size), (int(size),)
    shape = tuple(int(s) for s in size)
    return int(np.prod(shape)) if shape else 1, shape


class ControlledRNG:
    def __init__(self, controller, name="rng", seed=None, size_mode="sequence"):
        self._ctl = controller
        self._name = name
        self.seed = seed
        self._size_mode = size_mode

    def __deepcopy__(self, memo):
        return self

    def __copy__(self):
        return self

    def __reduce__(self):
        raise HarnessError("HARNESS-UNCAPTURED a harness-owned generator cannot be pickled (process boundary?)")

    def __getattr__(self, attr):
        if attr.startswith("__") and attr.endswith("__"):
            raise AttributeError(attr)
        return _Uncaptured(self._ctl, "Generator.%s (%s)" % (attr, self._name))

    # -- discrete -----------------------------------------------------------------------
    def _draws(self, probs, k, label):
        """k i.i.d. draws -> list of indices into probs."""
        ctl = self._ctl
        if k == 1:
            return [ctl.choose(probs, label=label)]
        if self._size_mode == "multiset":
            alts = multiset_alternatives(probs, k, ctl.max_alternatives)
        else:
            alts = sequence_alternatives(probs, k, ctl.max_alternatives)
        i = ctl.choose([a[1] for a in alts], label=label + "[k=%d,%s]" % (k, self._size_mode), kind="multi")
        return list(alts[i][0])

    def choice(self, a, size=None, replace=True, p=None, axis=0, shuffle=True):
        ctl = self._ctl
        ctl._require_active("%s.choice" % self._name)
        if isinstance(a, (int, np.integer)):
            n = int(a)
            if n <= 0:
                raise ValueError("a must be a positive integer unless no samples are taken")
            pop = None
        else:
            pop = np.asarray(a)
            if pop.ndim == 0:
                n = int(pop)
                pop = None
            else:
                if axis != 0 and pop.ndim > 1:
                    raise HarnessError("HARNESS-UNCAPTURED Generator.choice with axis != 0")
                n = pop.shape[0]
                if n == 0:
                    raise ValueError("a cannot be empty unless no samples are taken")
        probs = _validate_p(p, n) if p is not None else np.full(n, 1.0 / n)
        count, shape = _size_to_count(size)
        k = 1 if count is None else count
        if not replace and k > 1:
            # sequential draws without replacement, renormalising
            idxs = []
            pr = probs.copy()
            for _ in range(k):
                s = pr.sum()
                if s <= 0:
                    raise ValueError("Fewer non-zero entries in p than size")
                i = ctl.choose(pr / s, label="%s.choice(noreplace)" % self._name)
                idxs.append(i)
                pr[i] = 0.0
        elif k == 0:
            idxs = []
        else:
            idxs = self._draws(probs, k, "%s.choice" % self._name)
        if count is None:
            i = idxs[0]
            return np.int64(i) if pop is None else pop[i]
        arr = np.array(idxs, dtype=np.int64)
        out = arr if pop is None else pop[arr]
        return out.reshape(shape + out.shape[1:])

    def integers(self, low, high=None, size=None, dtype=np.int64, endpoint=False):
        self._ctl._require_active("%s.integers" % self._name)
        if high is None:
            low, high = 0, low
        low, high = int(low), int(high)
        if endpoint:
            high += 1
        n = high - low
        if n <= 0:
            raise ValueError("low >= high")
        count, shape = _size_to_count(size)
        k = 1 if count is None else count
        idxs = self._draws(np.full(n, 1.0 / n), k, "%s.integers" % self._name)
        if count is None:
            return np.dtype(dtype).type(low + idxs[0])
        return (np.array(idxs, dtype=dtype) + low).reshape(shape)

    def _perm(self, n, label):
        if math.factorial(n) > self._ctl.max_alternatives:
            raise HarnessError("HARNESS-CAP %d! permutations exceed the cap" % n)
        perms = list(itertools.permutations(range(n)))
        i = self._ctl.choose([1.0 / len(perms)] * len(perms), label=label, kind="perm")
        return list(perms[i])

    def permutation(self, x, axis=0):
        self._ctl._require_active("%s.permutation" % self._name)
        arr = np.arange(x) if isinstance(x, (int, np.integer)) else np.array(x)
        return arr[self._perm(arr.shape[0], "%s.permutation" % self._name)]

    def shuffle(self, x, axis=0):
        self._ctl._require_active("%s.shuffle" % self._name)
        perm = self._perm(len(x), "%s.shuffle" % self._name)
        vals = [x[i] for i in perm]
        for i, v in enumerate(vals):
            x[i] = v

    # -- continuous -----------------------------------------------------------------------
    def random(self, size=None, dtype=np.float64, out=None):
        ctl = self._ctl
        ctl._require_active("%s.random" % self._name)
        if size is None:
            return SymU(ctl, 0.0, 1.0, label="%s.random" % self._name)
        return self._uniform_array(0.0, 1.0, size)

    def uniform(self, low=0.0, high=1.0, size=None):
        ctl = self._ctl
        ctl._require_active("%s.uniform" % self._name)
        if size is None:
            u = SymU(ctl, 0.0, 1.0, label="%s.uniform" % self._name)
            if low == 0.0 and high == 1.0:
                return u
            return u * (float(high) - float(low)) + float(low)
        return self._uniform_array(low, high, size)

    def _uniform_array(self, low, high, size):
        ctl = self._ctl
        count, shape = _size_to_count(size)
        ci = ctl.next_call_index("uniform_array")
        points, weights = ctl.lattices["uniform_array"](shape, ci)
        i = ctl.choose(list(weights), label="%s.uniform(size)" % self._name, kind="lattice")
        u = np.asarray(points[i], dtype=float).reshape(shape)
        ctl.record("uniform_array", rng=self._name, size=shape, low=low, high=high, answer=u.copy(), call_index=ci)
        return low + (high - low) * u

    def normal(self, loc=0.0, scale=1.0, size=None):
        ctl = self._ctl
        ctl._require_active("%s.normal" % self._name)
        count, shape = _size_to_count(size)
        ci = ctl.next_call_index("normal")
        points, weights = ctl.lattices["normal"](shape, ci)
        i = ctl.choose(list(weights), label="%s.normal" % self._name, kind="lattice")
        z = np.asarray(points[i], dtype=float)
        ctl.record("normal", rng=self._name, loc=loc, scale=scale, size=shape, answer=z.copy(), call_index=ci)
        if count is None:
            return float(loc + scale * z.reshape(-1)[0])
        return loc + scale * z.reshape(shape)

    def standard_normal(self, size=None, dtype=np.float64, out=None):
        return self.normal(0.0, 1.0, size)

    def multivariate_normal(self, mean, cov, size=None, check_valid="warn", tol=1e-8, *, method="svd"):
        ctl = self._ctl
        ctl._require_active("%s.multivariate_normal" % self._name)
        mean = np.array(mean)
        cov = np.array(cov)
        if mean.ndim != 1:
            raise ValueError("mean must be 1 dimensional")
        if cov.ndim != 2 or cov.shape[0] != cov.shape[1]:
            raise ValueError("cov must be 2 dimensional and square")
        if mean.shape[0] != cov.shape[0]:
            raise ValueError("mean and cov must have same length")
        count, shape = _size_to_count(size)
        k = 1 if count is None else count
        ci = ctl.next_call_index("multivariate_normal")
        ctl.record(
            "multivariate_normal", rng=self._name, mean=mean.copy(), cov=cov.copy(), size=shape, tol=tol,
            check_valid=check_valid, call_index=ci,
        )
        rows = []
        for j in range(k):
            points, weights = ctl.lattices["multivariate_normal"](mean, cov, shape, (ci, j))
            i = ctl.choose(list(weights), label="%s.multivariate_normal" % self._name, kind="lattice")
            rows.append(np.asarray(points[i], dtype=float))
        out = np.array(rows)
        if count is None:
            return out[0]
        return out.reshape(shape + (mean.shape[0],))


class _Uncaptured:
    """Callable / attribute sink that reports an uncaptured seam as soon as it is used."""

    def __init__(self, ctl, what):
        self._ctl = ctl
        self._what = what

    def __call__(self, *a, **k):
        if self._ctl is not None:
            self._ctl.uncaptured(self._what)
        raise HarnessError("HARNESS-UNCAPTURED real randomness requested through %s" % self._what)

    def __getattr__(self, attr):
        if attr.startswith("__") and attr.endswith("__"):
            raise AttributeError(attr)
        return _Uncaptured(self._ctl, self._what + "." + attr)


# ---------------------------------------------------------------------------------------
# random.Random look-alike (Result.samples uses .shuffle only)


def _distinct_arrangements(items, cap):
    n = len(items)
    groups = []  # (representative, positions)
    for i, it in enumerate(items):
        for g in groups:
            if g[0] == it:
                g[1].append(i)
                break
        else:
            groups.append((it, [i]))
    total = math.factorial(n)
    for g in groups:
        total //= math.factorial(len(g[1]))
    if total > cap:
        raise HarnessError("HARNESS-CAP %d distinct arrangements in shuffle exceed the cap %d" % (total, cap))
    labels = []
    for gi, g in enumerate(groups):
        labels += [gi] * len(g[1])
    arrangements = sorted(set(itertools.permutations(labels)))
    return [[groups[gi][0] for gi in arr] for arr in arrangements], 1.0 / len(arrangements)


def _controlled_choices(ctl, label, mode, population, weights=None, cum_weights=None, k=1):
    """random.choices / random.Random.choices as a (multiset- or sequence-valued) choice point."""
    ctl._require_active(label)
    population = list(population)
    n = len(population)
    if cum_weights is not None:
        if weights is not None:
            raise TypeError("Cannot specify both weights and cumulative weights")
        cw = [float(c) for c in cum_weights]
        w = [cw[0]] + [b - a for a, b in zip(cw, cw[1:])]
    elif weights is None:
        w = [1.0] * n
    else:
        w = [float(x) for x in weights]
    if len(w) != n:
        raise ValueError("The number of weights does not match the population")
    total = math.fsum(w)
    if total <= 0.0:
        raise ValueError("Total of weights must be greater than zero")
    if not math.isfinite(total):
        raise ValueError("Total of weights must be finite")
    if any(x < 0 for x in w):
        raise HarnessError("HARNESS-CHOICE %s called with a negative weight %r" % (label, w))
    probs = [x / total for x in w]
    ctl.record("choices", seam=label, n=n, k=k, weights=list(w))
    if k == 0:
        return []
    if k == 1:
        return [population[ctl.choose(probs, label=label)]]
    alts = (multiset_alternatives if mode == "multiset" else sequence_alternatives)(probs, k, ctl.max_alternatives)
    i = ctl.choose([a[1] for a in alts], label="%s[k=%d,%s]" % (label, k, mode), kind="multi")
    return [population[j] for j in alts[i][0]]


class ControlledRandom:
    """Stand-in for random.Random(seed) inside owned_randomness."""

    _ctl = None
    _shuffle_mode = "permutations"
    _choices_mode = "multiset"

    def __init__(self, seed=None):
        self.seed_value = seed
        ctl = type(self)._ctl
        if ctl is not None and ctl.active:
            ctl.record("random.Random", seed=seed)

    def __deepcopy__(self, memo):
        return self

    def __copy__(self):
        return self

    def seed(self, a=None, version=2):
        self.seed_value = a
        ctl = type(self)._ctl
        if ctl is not None and ctl.active:
            ctl.record("random.Random.seed", seed=a)

    def choices(self, population, weights=None, *, cum_weights=None, k=1):
        return _controlled_choices(type(self)._ctl, "random.Random.choices", type(self)._choices_mode, population, weights, cum_weights, k)

    def random(self):
        ctl = type(self)._ctl
        ctl._require_active("random.Random.random")
        return SymU(ctl, 0.0, 1.0, label="random.Random.random")

    def uniform(self, a, b):
        ctl = type(self)._ctl
        ctl._require_active("random.Random.uniform")
        return SymU(ctl, 0.0, 1.0, label="random.Random.uniform") * (float(b) - float(a)) + float(a)

    def shuffle(self, x):
        ctl = type(self)._ctl
        ctl._require_active("random.Random.shuffle")
        if type(self)._shuffle_mode == "identity" or len(x) <= 1:
            ctl.record("shuffle", n=len(x), mode="identity")
            return
        arrangements, p = _distinct_arrangements(list(x), 5040)
        i = ctl.choose([p] * len(arrangements), label="random.Random.shuffle", kind="perm")
        x[:] = arrangements[i]

    def __getattr__(self, attr):
        if attr.startswith("__") and attr.endswith("__"):
            raise AttributeError(attr)
        return _Uncaptured(type(self)._ctl, "random.Random.%s" % attr)


# ---------------------------------------------------------------------------------------
# patching every seam


_RANDOM_GUARDED = (
    "randint", "randrange", "choice", "sample", "shuffle", "gauss", "normalvariate", "getrandbits", "randbytes",
    "betavariate", "expovariate", "gammavariate", "lognormvariate", "paretovariate", "triangular", "vonmisesvariate",
    "weibullvariate", "binomialvariate", "getstate", "setstate",
)
_NP_GUARDED = (
    "Generator", "RandomState", "rand", "randn", "random", "random_sample", "ranf", "sample", "choice", "normal",
    "uniform", "randint", "random_integers", "seed", "shuffle", "permutation", "multivariate_normal", "standard_normal",
    "binomial", "poisson", "exponential", "get_state", "set_state", "bytes", "beta", "gamma",
)


class _GuardClass:
    """Replacement of numpy.random.Generator / RandomState: constructing one is uncaptured."""

    _ctl = None
    _what = "?"

    def __new__(cls, *a, **k):
        if cls._ctl is not None:
            cls._ctl.uncaptured(cls._what)
        raise HarnessError("HARNESS-UNCAPTURED %s" % cls._what)


@contextlib.contextmanager
def owned_randomness(controller, choices_mode="multiset", shuffle_mode="permutations", module_random="guard", rng_size_mode="sequence"):
    import os
    import random as _random

    import numpy.random as npr
    from piquasso.api import config as pq_config

    ctl = controller
    config_rng = ControlledRNG(ctl, name="Config.rng", size_mode=rng_size_mode)
    saved = []

    def patch(obj, name, value):
        saved.append((obj, name, obj.__dict__.get(name, _MISSING) if hasattr(obj, "__dict__") else getattr(obj, name)))
        setattr(obj, name, value)

    # 1. numpy.random.default_rng (Config.seed_sequence setter, per-shot generators)
    def default_rng(seed=None):
        if ctl.active:
            ctl.record("default_rng", seed=seed)
        return ControlledRNG(ctl, name="default_rng(%s)" % _short(seed), seed=seed, size_mode=rng_size_mode)

    patch(npr, "default_rng", default_rng)

    # 2. Config.rng: data descriptor so that configs created earlier are owned as well
    def _get(self):
        return config_rng

    def _set(self, value):
        self.__dict__["rng"] = value

    patch(pq_config.Config, "rng", property(_get, _set))

    # 3. module-level `random` (global state: served only with module_random="own")
    def choices(population, weights=None, *, cum_weights=None, k=1):
        return _controlled_choices(ctl, "random.choices", choices_mode, population, weights, cum_weights, k)

    def random_random():
        ctl._require_active("random.random")
        return SymU(ctl, 0.0, 1.0, label="random.random")

    def random_uniform(a, b):
        ctl._require_active("random.uniform")
        return SymU(ctl, 0.0, 1.0, label="random.uniform") * (float(b) - float(a)) + float(a)

    def random_seed(a=None, version=2):
        if ctl.active:
            ctl.record("random.seed", seed=a)

    if module_random != "own":
        choices = _Uncaptured(ctl, "the module-level random.choices (global random state)")
        random_random = _Uncaptured(ctl, "the module-level random.random (global random state)")
        random_uniform = _Uncaptured(ctl, "the module-level random.uniform (global random state)")
    patch(_random, "choices", choices)
    patch(_random, "random", random_random)
    patch(_random, "uniform", random_uniform)
    patch(_random, "seed", random_seed)
    for name in _RANDOM_GUARDED:
        if hasattr(_random, name):
            patch(_random, name, _Uncaptured(ctl, "random.%s" % name))
    rnd_cls = type("ControlledRandom", (ControlledRandom,), {"_ctl": ctl, "_shuffle_mode": shuffle_mode, "_choices_mode": choices_mode})
    patch(_random, "Random", rnd_cls)
    # Config._random (random.Random owned by the config, shared by its copies): data descriptor,
    # so that configs created before the context are owned as well
    config_random = rnd_cls("Config._random")

    def _get_r(self):
        return config_random

    def _set_r(self, value):
        self.__dict__["_random"] = value

    patch(pq_config.Config, "_random", property(_get_r, _set_r))
    patch(_random, "SystemRandom", type("SystemRandomGuard", (_GuardClass,), {"_ctl": ctl, "_what": "random.SystemRandom"}))

    # 4. os.urandom: deterministic counter
    counter = [0]

    def urandom(n):
        counter[0] += 1
        if ctl.active:
            ctl.record("os.urandom", n=n)
        out = b""
        i = 0
        while len(out) < n:
            out += hashlib.sha256(b"verif-urandom-%d-%d" % (counter[0], i)).digest()
            i += 1
        return out[:n]

    patch(os, "urandom", urandom)

    # 5. guards on the real numpy entry points
    for name in _NP_GUARDED:
        if hasattr(npr, name):
            if name in ("Generator", "RandomState"):
                patch(npr, name, type(name + "Guard", (_GuardClass,), {"_ctl": ctl, "_what": "numpy.random.%s" % name}))
            else:
                patch(npr, name, _Uncaptured(ctl, "numpy.random.%s" % name))

    try:
        yield config_rng
    finally:
        for obj, name, old in reversed(saved):
            if old is _MISSING:
                delattr(obj, name)
            else:
                setattr(obj, name, old)


_MISSING = object()


def _short(x):
    s = repr(x)
    return s if len(s) <= 24 else s[:21] + "..."
