"""C12 helper: fault injection (DESIGN 2.7).

Two granularities, both arranged only with constructs a user of piquasso could write:

* instruction/stage level -- `CondProbe` (a callable condition), `ParamProbe` (a callable
  parameter), `faulty_validate_class` (a user subclass of an instruction overriding
  `_validate`), `faulty_simulator_class` (a user subclass of a simulator whose
  `_instruction_map` wraps every simulation step).  A probe counts how often its stage is
  reached for its instruction (once per branch) and raises `InjectedFault` at the
  `fail_at`-th time.

* line level -- `LineInjector`: `sys.settrace` filtered on the code of the API layer; counts
  the line events of a run and raises `InjectedFault` at the n-th one.
"""

import ast
import os
import sys


class InjectedFault(Exception):
    """The exception the harness injects (a user error inside a callable, a failing
    simulation step, a crash at an arbitrary line)."""


class Probe:
    def __init__(self, fail_at=None):
        self.calls = 0
        self.fail_at = fail_at
        self.fired = False

    def hit(self, what="stage"):
        i = self.calls
        self.calls += 1
        if self.fail_at is not None and i == self.fail_at:
            self.fired = True
            raise InjectedFault("injected fault at %s, visit %d" % (what, i))

    def disarm(self):
        self.fail_at = None


class CondProbe(Probe):
    """A condition a user could pass to `.when(...)`: delegates to `inner` (None = always
    true) and raises on the fail_at-th evaluation."""

    def __init__(self, inner=None, fail_at=None):
        super().__init__(fail_at)
        self.inner = inner

    def __call__(self, x):
        self.hit("condition evaluation")
        return True if self.inner is None else self.inner(x)


class ParamProbe(Probe):
    """A callable parameter: delegates to `inner` (constant / callable) and, on the
    fail_at-th resolution, either raises (`mode="raise"`) or returns `invalid` so that the
    instruction's own `_validate` rejects it (`mode="invalid"`)."""

    def __init__(self, inner, inner_is_callable, fail_at=None, mode="raise", invalid=None):
        super().__init__(fail_at)
        self.inner = inner
        self.inner_is_callable = inner_is_callable
        self.mode = mode
        self.invalid = invalid

    def __call__(self, x):
        if self.mode == "raise":
            self.hit("parameter resolution")
        else:
            i = self.calls
            self.calls += 1
            if self.fail_at is not None and i == self.fail_at:
                self.fired = True
                return self.invalid
        return self.inner(x) if self.inner_is_callable else self.inner


class StepProbe(Probe):
    def __init__(self, where, fail_at=None):
        super().__init__(fail_at)
        self.where = where  # "entry" | "exit"


# probes of the subclass-based stages are looked up by instruction identity; the harness
# clears these tables after every case (ids are only valid while the objects live)
_VPROBE = {}
_SPROBE = {}


def reset_probes():
    _VPROBE.clear()
    _SPROBE.clear()


def arm_validate(instruction, probe):
    _VPROBE[id(instruction)] = probe


def arm_step(instruction, probe):
    _SPROBE[id(instruction)] = probe


_VCLS = {}


def faulty_validate_class(base):
    """`class C12V<Base>(Base)` whose `_validate` first visits the probe armed for the
    instance (if any), then runs the real validation."""
    c = _VCLS.get(base)
    if c is None:

        def _validate(self, connector, _base=base):
            pr = _VPROBE.get(id(self))
            if pr is not None:
                pr.hit("_validate")
            return _base._validate(self, connector)

        c = type("C12V" + base.__name__, (base,), {"_validate": _validate, "__module__": __name__})
        _VCLS[base] = c
    return c


_SCLS = {}


def faulty_simulator_class(base):
    """`class C12Faulty<Sim>(Sim)`: same simulator, every entry of `_instruction_map` wrapped
    so that the probe armed for an instruction is visited at step entry / step exit."""
    c = _SCLS.get(base)
    if c is None:

        def wrap(fn):
            def step(state, instruction, shots):
                pr = _SPROBE.get(id(instruction))
                if pr is not None and pr.where == "entry":
                    pr.hit("simulation step entry")
                out = fn(state, instruction, shots)
                if pr is not None and pr.where == "exit":
                    pr.hit("simulation step exit")
                return out

            return step

        imap = {}
        for cls, fn in base._instruction_map.items():
            w = wrap(fn)
            imap[cls] = w
            imap[faulty_validate_class(cls)] = w
        c = type("C12Faulty" + base.__name__, (base,), {"_instruction_map": imap, "__module__": __name__})
        _SCLS[base] = c
    return c


# ---------------------------------------------------------------------------------------
# line level


def cleanup_lines(path):
    """Line numbers of `path` that are restoration code by construction: `try:` headers
    (nothing executes there) and the bodies of `finally:` blocks and `except` handlers.  A
    fault model "an exception is raised by the statement about to run" cannot apply to the
    statement that *is* the undo action, nor to code called from it."""
    with open(path) as fh:
        tree = ast.parse(fh.read())
    lines = set()
    for node in ast.walk(tree):
        if isinstance(node, (ast.Try, getattr(ast, "TryStar", ast.Try))):
            lines.add(node.lineno)
            for stmt in node.finalbody:
                lines.update(range(stmt.lineno, (stmt.end_lineno or stmt.lineno) + 1))
            for h in node.handlers:
                lines.add(h.lineno)
                for stmt in h.body:
                    lines.update(range(stmt.lineno, (stmt.end_lineno or stmt.lineno) + 1))
    return lines


class LineInjector:
    """with LineInjector(files, fail_at=n) as inj: op()

    files: {absolute filename: set of exempt (cleanup) lines}.  Counts the 'line' events of
    frames whose code lives in `files`, skipping events that are (dynamically) inside
    cleanup code, and raises InjectedFault at the fail_at-th counted event.  With
    fail_at=None it only counts (and records the locations when record=True)."""

    def __init__(self, files, fail_at=None, record=False):
        self.files = files
        self.fail_at = fail_at
        self.count = 0
        self.fired = None
        self.locs = [] if record else None

    def _exempt(self, frame):
        files = self.files
        f = frame
        depth = 0
        while f is not None and depth < 64:
            ex = files.get(f.f_code.co_filename)
            if ex is not None and f.f_lineno in ex:
                return True
            f = f.f_back
            depth += 1
        return False

    def _local(self, frame, event, arg):
        if event == "line":
            if self._exempt(frame):
                return self._local
            self.count += 1
            if self.locs is not None:
                self.locs.append((os.path.basename(frame.f_code.co_filename), frame.f_lineno))
            if self.count == self.fail_at:
                self.fired = (os.path.basename(frame.f_code.co_filename), frame.f_lineno, frame.f_code.co_name)
                raise InjectedFault("injected fault at line event %d: %s:%d (%s)" % ((self.count,) + self.fired))
        return self._local

    def _global(self, frame, event, arg):
        if frame.f_code.co_filename in self.files:
            return self._local
        return None

    def __enter__(self):
        sys.settrace(self._global)
        return self

    def __exit__(self, *exc):
        sys.settrace(None)
        return False


def api_files(extended=True):
    """{filename: cleanup lines} for the API layer of the piquasso under test."""
    import piquasso.api.simulator as a
    import piquasso.api.instruction as b
    import piquasso.api.program as c

    mods = [a, b, c]
    if extended:
        import piquasso.api.config as d
        import piquasso.api.state as e
        import piquasso.api.utils as f
        import piquasso.core._mixins as g
        import piquasso.core._blackbird as h
        import piquasso._simulators._simulate as i

        mods += [d, e, f, g, h, i]
    return {m.__file__: cleanup_lines(m.__file__) for m in mods}
