"""Lock-step explicit-state exploration of the bosonic simulators (DESIGN 2.3 - 2.5).

Reusable by every check that walks instruction sequences over several implementations
(C01 agreement, C08 invariants, C16 relabelling/commutation, C09 connectors, C14 hbar).

PUBLIC API
----------
templates / alphabet
    template            = (cls_name:str, modes:tuple[int], params:dict)   JSON form: [cls, [modes], {params}]
                          scalar params are plain floats; matrix params are strings "@<catalogue name>"
                          modes == ()  means "all modes" (instruction used without on_modes)
    as_template(x)      -> normalised hashable-free tuple form of a template given as tuple or JSON list
    template_json(t)    -> JSON-able list form
    catalogue(seed)     -> dict name -> read-only ndarray  (U1a..U4a, U2b.., perm3, dft3, dft4, diagphase2..4,
                           G1a.P/G1a.A .. G4a.P/G4a.A (+ .U1 .r .U2 factors), T2lossy ...)
    generic(seed)       -> dict of generic scalar parameter values (theta, phi, r, ...)
    resolve_params(params, seed) -> dict with "@name" replaced by (copies of) catalogue matrices
    instantiate(template, seed=0) -> fresh pq Instruction (never shared between executions)
    GATES               : cls_name -> GateInfo(arity, kind, fine)  kind in passive|active|active_multi|diagonal|attenuator
    gate_kind(cls_name) -> coarse kind for signatures: passive|squeezing|displacement|active_linear|kerr|attenuator
    SUPPORT[sim_kind]   : documented instruction set of each simulator kind
    alphabet(sim_kind, d, tier, seed) -> list of templates; sim_kind in SIM_KINDS or "bosonic" (union)
    mode_order_class(modes) -> "all" | "ascending" | "non-ascending"

simulators / execution (always through the public path)
    SIM_KINDS = ("gaussian", "purefock", "fock", "passive")
    make_simulator(kind, d, cutoff, hbar, connector=None) -> pq simulator with Config(cutoff=, hbar=)
    root_state(simulator, kind, occupation) -> state prepared by the public path (Vacuum / NumberState / DensityMatrix);
                                               None if the kind cannot prepare it (gaussian + photons)
    number_roots(d, max_photons, cutoff) -> list of occupation tuples with total <= max_photons and < cutoff
    apply(simulator, state, template, seed=0) -> new state  (simulator.execute_instructions([instr], initial_state=state))
    run_program(simulator, state, templates, seed=0) -> new state (one execute_instructions call for the whole list)
    Failure             : outcome of a failed application (exc_type, message, cls: "unsupported"|"refused"|"crash", tb)
    try_apply(...)      -> state or Failure

canonical hashing / exploration
    canon(state)        -> bytes digest of the state rounded to 1e-9
    canon_node(states, extra=None) -> digest of a dict name -> state
    Node(states, history=(), exact=None, root_states=None, label=None)
    step_node(simulators, node, action, seed=0, participates=None) -> (children, reexecuted names)
    explore(simulators, roots, actions, depth, on_transition, seed=0, first_actions=None, expand=None, participates=None)
        -> dict(states, transitions, max_depth, executions, failures, successors_per_action, level_sizes)
       on_transition(history, parents, action, children, info) is called for EVERY executed transition
       (children: name -> state | Failure); return False to stop expanding below that child.

exactness tracker (DESIGN 2.5)
    Exactness(K, E); Exactness.root(occupation, cutoff); .step(template, d) -> Exactness
    exactness_selftest(kind, d, cutoff, hbar, occupation, program, seed=0, extra=6, tol=1e-9) -> E  (raises core.HarnessError)

observables
    fock_basis(d, cutoff) -> (n, d) int array in piquasso's order (total ascending, anti-lexicographic; from mc.refmodel.fockref)
    sector_mask(basis, E) -> boolean mask of vectors with total < E
    observables(state, basis, want=("fp", "pdp", "sv", "dm")) -> dict with the available ones among
        fp  fock_probabilities, pdp per-basis-vector get_particle_detection_probability,
        sv  state_vector (PureFockState, PassiveState), dm density_matrix; "unsupported": [names refused by the state]
    max_dev(a, b, atol, rtol) -> (worst excess ratio, index, |a-b| there)   agreement iff ratio <= 1
"""

import functools
import hashlib
import itertools
import traceback
from collections import namedtuple

import numpy as np

SIM_KINDS = ("gaussian", "purefock", "fock", "passive")
_SIM_CLASS = {
    "gaussian": "GaussianSimulator",
    "purefock": "PureFockSimulator",
    "fock": "FockSimulator",
    "passive": "PassiveSimulator",
}

GateInfo = namedtuple("GateInfo", "arity kind coarse")
# arity None = any number of modes (matrix-parametrised)
GATES = {
    "Phaseshifter": GateInfo(1, "passive", "passive"),
    "Fourier": GateInfo(1, "passive", "passive"),
    "Beamsplitter": GateInfo(2, "passive", "passive"),
    "Beamsplitter5050": GateInfo(2, "passive", "passive"),
    "MachZehnder": GateInfo(2, "passive", "passive"),
    "Interferometer": GateInfo(None, "passive", "passive"),
    "Squeezing": GateInfo(1, "active", "squeezing"),
    "QuadraticPhase": GateInfo(1, "active", "active_linear"),
    "Displacement": GateInfo(1, "active", "displacement"),
    "PositionDisplacement": GateInfo(1, "active", "displacement"),
    "MomentumDisplacement": GateInfo(1, "active", "displacement"),
    "Squeezing2": GateInfo(2, "active_multi", "active_linear"),
    "ControlledX": GateInfo(2, "active_multi", "active_linear"),
    "ControlledZ": GateInfo(2, "active_multi", "active_linear"),
    "GaussianTransform": GateInfo(None, "active_multi", "active_linear"),
    "Kerr": GateInfo(1, "diagonal", "kerr"),
    "CrossKerr": GateInfo(2, "diagonal", "kerr"),
    "Attenuator": GateInfo(1, "attenuator", "attenuator"),
}

_PASSIVE = ["Phaseshifter", "Fourier", "Beamsplitter", "Beamsplitter5050", "MachZehnder", "Interferometer"]
_LINEAR = ["Squeezing", "QuadraticPhase", "Displacement", "PositionDisplacement", "MomentumDisplacement",
           "Squeezing2", "ControlledX", "ControlledZ", "GaussianTransform"]
SUPPORT = {
    "gaussian": set(_PASSIVE + _LINEAR + ["Attenuator"]),
    "purefock": set(_PASSIVE + _LINEAR + ["Kerr", "CrossKerr", "Attenuator"]),
    "fock": set(_PASSIVE + _LINEAR + ["Kerr", "CrossKerr", "Attenuator"]),
    "passive": set(_PASSIVE + ["Kerr", "CrossKerr"]),
}
SUPPORT["bosonic"] = set().union(*SUPPORT.values())


def gate_kind(cls_name):
    return GATES[cls_name].coarse


def mode_order_class(modes):
    modes = tuple(modes)
    if not modes:
        return "all"
    return "ascending" if list(modes) == sorted(modes) else "non-ascending"


# ---------------------------------------------------------------------------------------
# catalogue of generic values (the only thing VERIF_SEED influences)


def _haar(rng, k):
    z = rng.normal(size=(k, k)) + 1j * rng.normal(size=(k, k))
    q, r = np.linalg.qr(z)
    ph = np.diag(r) / np.abs(np.diag(r))
    return q * ph


@functools.lru_cache(maxsize=8)
def generic(seed):
    """Generic, non-symmetric scalar parameter values.  Seed 0 gives the documented base
    values; other seeds move every value by up to +-0.04 (never to a special point)."""
    base = {
        "ps_phi": 0.81, "bs_theta": 0.37, "bs_phi": 0.81, "mz_int": 0.53, "mz_ext": 1.29,
        "sq_r": 0.23, "sq_phi": 0.67, "d_r": 0.31, "d_phi": 0.47, "x": 0.27, "p": -0.19,
        "qp_s": 0.29, "kerr_xi": 0.41, "att_theta": 0.43, "sq2_r": 0.21, "sq2_phi": 1.13,
        "cx_s": 0.23, "cz_s": -0.19, "ck_xi": 0.59,
        # second points (thorough): other quadrant / negative amplitude
        "bs_theta2": 2.03, "bs_phi2": -1.31, "sq_r2": -0.17, "sq_phi2": 2.41, "d_r2": 0.22, "d_phi2": -2.23,
    }
    if seed == 0:
        return dict(base)
    rng = np.random.default_rng([int(seed), 1001])
    return {k: float(v + rng.uniform(-0.04, 0.04)) for k, v in sorted(base.items())}


@functools.lru_cache(maxsize=8)
def catalogue(seed):
    """Named matrices.  Deterministic in `seed`; closed-form entries do not depend on it."""
    cat = {}
    for k in (1, 2, 3, 4):
        for j, tag in enumerate("ab"):
            cat["U%d%s" % (k, tag)] = _haar(np.random.default_rng([int(seed), 7, k, j]), k)
    cat["perm3"] = np.roll(np.eye(3), 1, axis=0).astype(complex)
    cat["perm4"] = np.eye(4)[[2, 0, 3, 1]].astype(complex)
    for k in (2, 3, 4):
        w = np.exp(2j * np.pi / k)
        cat["dft%d" % k] = np.array([[w ** (i * j) for j in range(k)] for i in range(k)]) / np.sqrt(k)
        cat["diagphase%d" % k] = np.diag(np.exp(1j * np.array([0.3, 1.1, -0.7, 2.2][:k])))
    cat["blockdiag4"] = np.block([[cat["U2a"], np.zeros((2, 2))], [np.zeros((2, 2)), cat["U2b"]]])
    # lossy transmission matrices (contractions) for checks that need them
    for k in (2, 3):
        cat["T%dlossy" % k] = np.diag([0.9, 0.6, 1.0][:k]) @ cat["U%da" % k]
    # Gaussian transforms  S = S(U1) S(squeezers r) S(U2):  P = U1 cosh(r) U2,  A = -U1 sinh(r) conj(U2)
    for k in (1, 2, 3, 4):
        rng = np.random.default_rng([int(seed), 11, k])
        U1, U2 = _haar(rng, k), _haar(rng, k)
        r = np.array([0.19, -0.13, 0.11, 0.07][:k]) + rng.uniform(-0.02, 0.02, size=k) * (1 if seed else 0)
        cat["G%da.U1" % k], cat["G%da.U2" % k], cat["G%da.r" % k] = U1, U2, r
        cat["G%da.P" % k] = U1 @ np.diag(np.cosh(r)) @ U2
        cat["G%da.A" % k] = -U1 @ np.diag(np.sinh(r)) @ U2.conj()
    for v in cat.values():
        v.setflags(write=False)
    return cat


def resolve_params(params, seed=0):
    out = {}
    for k, v in params.items():
        if isinstance(v, str) and v.startswith("@"):
            out[k] = np.array(catalogue(seed)[v[1:]])
        else:
            out[k] = v
    return out


def as_template(x):
    cls, modes, params = x
    return (str(cls), tuple(int(m) for m in modes), dict(params))


def template_json(t):
    cls, modes, params = t
    return [cls, [int(m) for m in modes], {k: (v if isinstance(v, str) else float(v)) for k, v in params.items()}]


def instantiate(template, seed=0):
    """A fresh Instruction object for the template."""
    import piquasso as pq

    cls, modes, params = as_template(template)
    instr = getattr(pq, cls)(**resolve_params(params, seed))
    return instr.on_modes(*modes) if modes else instr


def alphabet(sim_kind, d, tier="quick", seed=0):
    """The finite action list of DESIGN 2.3 / C01 on d modes: every single-mode kind on every mode,
    every two-mode kind on every ORDERED pair, k-mode Interferometer / GaussianTransform on every
    ordered k-tuple (k = 3, 4 <= d) and on () = all modes.  Generic, non-symmetric parameter values.
    tier "thorough" adds a second parameter point for Beamsplitter / Squeezing / Displacement and the
    closed-form all-mode interferometers."""
    g = generic(seed)
    sup = SUPPORT[sim_kind]
    out = []

    def add(cls, modes, **params):
        if cls in sup:
            out.append((cls, tuple(modes), params))

    singles = [
        ("Phaseshifter", dict(phi=g["ps_phi"])),
        ("Fourier", {}),
        ("Squeezing", dict(r=g["sq_r"], phi=g["sq_phi"])),
        ("Displacement", dict(r=g["d_r"], phi=g["d_phi"])),
        ("PositionDisplacement", dict(x=g["x"])),
        ("MomentumDisplacement", dict(p=g["p"])),
        ("QuadraticPhase", dict(s=g["qp_s"])),
        ("Kerr", dict(xi=g["kerr_xi"])),
        ("Attenuator", dict(theta=g["att_theta"])),
    ]
    pairs = [
        ("Beamsplitter", dict(theta=g["bs_theta"], phi=g["bs_phi"])),
        ("Beamsplitter5050", {}),
        ("MachZehnder", dict(int_=g["mz_int"], ext=g["mz_ext"])),
        ("Squeezing2", dict(r=g["sq2_r"], phi=g["sq2_phi"])),
        ("ControlledX", dict(s=g["cx_s"])),
        ("ControlledZ", dict(s=g["cz_s"])),
        ("CrossKerr", dict(xi=g["ck_xi"])),
        ("Interferometer", dict(matrix="@U2a")),
        ("GaussianTransform", dict(passive="@G2a.P", active="@G2a.A")),
    ]
    if tier == "thorough":
        singles += [
            ("Squeezing", dict(r=g["sq_r2"], phi=g["sq_phi2"])),
            ("Displacement", dict(r=g["d_r2"], phi=g["d_phi2"])),
        ]
        pairs += [("Beamsplitter", dict(theta=g["bs_theta2"], phi=g["bs_phi2"]))]
    for cls, p in singles:
        for m in range(d):
            add(cls, (m,), **p)
    if d >= 2:
        for cls, p in pairs:
            for mm in itertools.permutations(range(d), 2):
                add(cls, mm, **p)
    for k in (3, 4):
        if d >= k:
            for mm in itertools.permutations(range(d), k):
                add("Interferometer", mm, matrix="@U%da" % k)
                add("GaussianTransform", mm, passive="@G%da.P" % k, active="@G%da.A" % k)
    # "all modes" form
    add("Interferometer", (), matrix="@U%db" % d)
    add("GaussianTransform", (), passive="@G%da.P" % d, active="@G%da.A" % d)
    if tier == "thorough" and d >= 3:
        add("Interferometer", (), matrix="@dft%d" % d)
        add("Interferometer", (), matrix="@perm%d" % d)
    return out


# ---------------------------------------------------------------------------------------
# simulators, roots, execution


def make_simulator(kind, d, cutoff, hbar, connector=None):
    import piquasso as pq

    cls = getattr(pq, _SIM_CLASS[kind])
    config = pq.Config(cutoff=int(cutoff), hbar=float(hbar))
    return cls(d=d, config=config) if connector is None else cls(d=d, config=config, connector=connector)


def number_roots(d, max_photons, cutoff):
    """vacuum and every number state with <= max_photons photons that fits below the cutoff"""
    out = []
    for n in range(0, max_photons + 1):
        if n >= cutoff:
            break
        out += sorted((v for v in itertools.product(range(n + 1), repeat=d) if sum(v) == n), reverse=True)
    return out


def root_state(simulator, kind, occupation):
    import piquasso as pq

    occupation = tuple(int(x) for x in occupation)
    if sum(occupation) == 0:
        return simulator.execute_instructions([pq.Vacuum()]).state
    if kind == "gaussian":
        return None
    if kind == "fock":
        prep = pq.DensityMatrix(ket=occupation, bra=occupation)
    else:
        prep = pq.NumberState(occupation)
    return simulator.execute_instructions([prep]).state


class Failure:
    """Outcome of an application that raised.  cls:
    'unsupported' InvalidSimulation / NotImplementedCalculation / NotImplementedError (documented partial support)
    'refused'     any other PiquassoException (the library declined the input)
    'crash'       anything else (ValueError, AttributeError, numba errors, ...)"""

    __slots__ = ("exc_type", "message", "cls", "tb")

    def __init__(self, exc):
        from piquasso.api import exceptions as E

        self.exc_type = type(exc).__name__
        self.message = str(exc)[:300]
        if isinstance(exc, (E.InvalidSimulation, E.NotImplementedCalculation, NotImplementedError)):
            self.cls = "unsupported"
        elif isinstance(exc, E.PiquassoException):
            self.cls = "refused"
        else:
            self.cls = "crash"
        self.tb = "".join(traceback.format_exception(type(exc), exc, exc.__traceback__)[-4:])[-900:]

    def __repr__(self):
        return "Failure(%s, %s: %s)" % (self.cls, self.exc_type, self.message[:80])


def apply(simulator, state, template, seed=0):
    """One transition through the public path; `state` is not modified (the simulator copies it)."""
    return simulator.execute_instructions([instantiate(template, seed)], initial_state=state).state


def run_program(simulator, state, templates, seed=0):
    return simulator.execute_instructions([instantiate(t, seed) for t in templates], initial_state=state).state


def try_apply(simulator, state, template, seed=0):
    try:
        return apply(simulator, state, template, seed)
    except Exception as e:  # classified by the caller
        return Failure(e)


# ---------------------------------------------------------------------------------------
# canonical hashing


def _digest_arrays(tag, arrays):
    h = hashlib.blake2b(digest_size=12)
    h.update(tag.encode())
    for a in arrays:
        a = np.asarray(a)
        if a.dtype.kind == "c":
            parts = (a.real, a.imag)
        else:
            parts = (a.astype(float),)
        h.update(str(a.shape).encode())
        for p in parts:
            h.update(np.round(p * 1e9).astype(np.int64).tobytes())
    return h.digest()


def canon(state):
    """Canonical rounded (1e-9) hash of a live state, for frontier de-duplication only."""
    name = type(state).__name__
    cutoff = getattr(state._config, "cutoff", 0)
    tag = "%s/%d/%d/%r" % (name, state.d, cutoff, float(state._config.hbar))
    if name == "GaussianState":
        return _digest_arrays(tag, (state._m, state._C, state._G))
    if name == "PureFockState":
        return _digest_arrays(tag, (state.state_vector,))
    if name == "FockState":
        return _digest_arrays(tag, (state.density_matrix,))
    if name == "PassiveState":
        if not state.is_lossy and state.is_indistinguishable and len(state._occupation_numbers) > 0:
            try:
                return _digest_arrays(tag, (state.state_vector,))
            except Exception:
                pass
        arrs = [state.interferometer, np.array(state._coefficients, dtype=complex)]
        arrs += [np.asarray(o, dtype=float) for o in state._occupation_numbers]
        return _digest_arrays(tag + "/raw/%r" % (sorted(state._postselections.items()),), arrs)
    raise TypeError("canon: unknown state type %s" % name)


def canon_node(states, extra=None):
    h = hashlib.blake2b(digest_size=12)
    for name in sorted(states):
        s = states[name]
        h.update(name.encode())
        h.update(b"-" if s is None or isinstance(s, Failure) else canon(s))
    if extra is not None:
        h.update(repr(extra).encode())
    return h.digest()


# ---------------------------------------------------------------------------------------
# exactness tracker

INF = float("inf")


class Exactness:
    """Conservative static description of the TRUE state next to a truncated Fock state.

    K[j]  upper bound of the occupation of mode j in every component of the state (true and truncated:
          the truncated dynamics P.U.P only removes components), INF after an active gate;
    E     number of lowest total-photon-number sectors in which the truncated amplitudes equal the true ones.

    Rules (U acts on modes M; `total` = total photon number; input sector t_in, output sector t_out):
    * number conserving on M (passive, Kerr, CrossKerr): maps sector t to sector t exactly -> E unchanged;
      passive: each K_j (j in M) := sum_{i in M} K_i; diagonal: K unchanged.
    * single-mode active G on j: out(n_j', rest) = sum_{n_j} G[n_j', n_j] in(n_j, rest).  A term is wrong or missing
      only if n_j + |rest| >= E; all terms have n_j <= K_j, hence |rest| >= E - K_j and t_out >= |rest| >= E - K_j.
      So sectors < E - K_j stay exact: E := max(0, E - K_j) (0 if K_j = INF); K_j := INF.
      (The truncated matrix of G must be the top-left block of the exact one: true for the recurrence
      generated displacement / squeezing matrices; validated by the self-test.)
    * multi-mode active gate: passive(M), one single-mode squeezer per mode of M, passive(M) -- the Euler form
      the Fock simulators execute (QuadraticPhase = phase.squeeze.phase is the single-mode case).
    * attenuation on j: out(n_j - k, rest) comes from in(n_j, rest), k <= n_j <= K_j: same bound,
      E := max(0, E - K_j), K unchanged.
    """

    __slots__ = ("K", "E")

    def __init__(self, K, E):
        self.K = tuple(K)
        self.E = int(E)

    @classmethod
    def root(cls, occupation, cutoff):
        if sum(occupation) >= cutoff:
            raise ValueError("number state %r does not fit below cutoff %d" % (occupation, cutoff))
        return cls(tuple(float(x) for x in occupation), cutoff)

    def _passive(self, K, M):
        s = sum(K[i] for i in M)
        for i in M:
            K[i] = s

    def _active1(self, K, E, j):
        E = 0 if K[j] == INF else max(0, E - int(K[j]))
        K[j] = INF
        return E

    def step(self, template, d=None):
        cls, modes, _ = template
        d = len(self.K) if d is None else d
        M = tuple(modes) if len(modes) else tuple(range(d))
        K, E = list(self.K), self.E
        kind = GATES[cls].kind
        if kind == "passive":
            self._passive(K, M)
        elif kind == "diagonal":
            pass
        elif kind == "active":
            E = self._active1(K, E, M[0])
        elif kind == "active_multi":
            self._passive(K, M)
            for j in M:
                E = self._active1(K, E, j)
            self._passive(K, M)
        elif kind == "attenuator":
            E = 0 if K[M[0]] == INF else max(0, E - int(K[M[0]]))
        else:
            raise ValueError(kind)
        return Exactness(K, E)

    def key(self):
        return (tuple(-1 if k == INF else int(k) for k in self.K), self.E)

    def __repr__(self):
        return "Exactness(K=%s, E=%d)" % (["inf" if k == INF else int(k) for k in self.K], self.E)


def exactness_selftest(kind, d, cutoff, hbar, occupation, program, seed=0, extra=6, tol=1e-9):
    """Run `program` from the number state `occupation` on simulator `kind` ("purefock" or "fock") at
    cutoff and cutoff+extra and compare the density matrices on the sectors the tracker declares exact.
    A mismatch is a defect of the TRACKER (or of its premises): core.HarnessError, never a violation.
    Returns the number of exact sectors E claimed for the cutoff-`cutoff` run."""
    from mc import core

    ex = Exactness.root(occupation, cutoff)
    for t in program:
        ex = ex.step(as_template(t), d)
    if ex.E == 0:
        return 0
    dms = []
    for c in (cutoff, cutoff + extra):
        sim = make_simulator(kind, d, c, hbar)
        st = run_program(sim, root_state(sim, kind, occupation), program, seed)
        dms.append(np.asarray(st.density_matrix))
    basis = fock_basis(d, cutoff)
    idx = np.nonzero(sector_mask(basis, ex.E))[0]
    a, b = dms[0][np.ix_(idx, idx)], dms[1][np.ix_(idx, idx)]
    dev = float(np.max(np.abs(a - b))) if len(idx) else 0.0
    if dev > tol:
        raise core.HarnessError(
            "HARNESS-SELFTEST exactness tracker over-claims: %s d=%d cutoff=%d vs %d root=%r program=%r: "
            "%r but |rho_c - rho_c+%d| = %.3e on sectors < E" % (kind, d, cutoff, cutoff + extra, occupation, program, ex, extra, dev)
        )
    return ex.E


# ---------------------------------------------------------------------------------------
# observables


@functools.lru_cache(maxsize=64)
def fock_basis(d, cutoff):
    from mc.refmodel import fockref

    b = np.array(fockref.basis(d, cutoff), dtype=int).reshape(-1, d)
    b.setflags(write=False)
    return b


def sector_mask(basis, E):
    return np.sum(basis, axis=1) < E


def observables(state, basis, want=("fp", "pdp", "sv", "dm")):
    """Comparable observables of a GaussianState / PureFockState / FockState / PassiveState over the
    given basis order.  Interfaces the state refuses (NotImplementedCalculation) are listed under
    'unsupported' and simply absent."""
    from piquasso.api.exceptions import NotImplementedCalculation

    out = {"unsupported": []}

    def get(name, fn):
        try:
            out[name] = fn()
        except (NotImplementedCalculation, NotImplementedError):
            out["unsupported"].append(name)

    if "fp" in want:
        get("fp", lambda: np.asarray(state.fock_probabilities, dtype=float))
    if "pdp" in want:
        get("pdp", lambda: np.array([float(np.real(state.get_particle_detection_probability(np.array(b)))) for b in basis]))
    if "sv" in want and type(state).__name__ in ("PureFockState", "PassiveState"):
        get("sv", lambda: np.asarray(state.state_vector, dtype=complex))
    if "dm" in want:
        get("dm", lambda: np.asarray(state.density_matrix, dtype=complex))
    return out


def max_dev(a, b, atol=1e-9, rtol=1e-9):
    """worst |a-b| / (atol + rtol*max(|a|,|b|)); agreement iff the returned ratio <= 1"""
    a, b = np.asarray(a), np.asarray(b)
    if a.shape != b.shape:
        return (float("inf"), None, float("inf"))
    if a.size == 0:
        return (0.0, None, 0.0)
    diff = np.abs(a - b)
    bad = ~np.isfinite(diff)
    ratio = diff / (atol + rtol * np.maximum(np.abs(a), np.abs(b)))
    ratio[bad] = np.inf
    i = int(np.argmax(ratio))
    return (float(ratio.flat[i]), tuple(int(x) for x in np.unravel_index(i, ratio.shape)), float(diff.flat[i]))


# ---------------------------------------------------------------------------------------
# explorer


class Node:
    """One lock-step state: a live state per implementation (dead tracks are absent)."""

    __slots__ = ("states", "history", "exact", "root_states", "label")

    def __init__(self, states, history=(), exact=None, root_states=None, label=None):
        self.states = dict(states)
        self.history = tuple(history)
        self.exact = exact
        self.root_states = dict(states) if root_states is None else root_states
        self.label = label


def step_node(simulators, node, action, seed=0, participates=None):
    """Apply one action to every live track of a node.  Returns (children dict name -> state|Failure,
    set of names that had to be re-executed from the root because the live state is no longer of the
    simulator's state class, e.g. PureFockSimulator after an Attenuator).
    participates(name, node, action) -> False drops that track from the child without executing it."""
    children, reexecuted = {}, set()
    for name in sorted(node.states):
        if participates is not None and not participates(name, node, action):
            continue
        sim, st = simulators[name], node.states[name]
        try:
            if isinstance(st, sim._state_class):
                children[name] = apply(sim, st, action, seed)
            else:
                reexecuted.add(name)
                children[name] = run_program(sim, node.root_states[name], list(node.history) + [action], seed)
        except Exception as e:
            children[name] = Failure(e)
    return children, reexecuted


def explore(simulators, roots, actions, depth, on_transition, seed=0, first_actions=None, expand=None, participates=None):
    """Breadth-first lock-step exploration.

    simulators     dict name -> simulator (every name is one track)
    roots          list of Node (history may be non-empty: sub-tree exploration)
    actions        list of templates; every action is attempted on every live track of every distinct state
    depth          number of further transitions below the roots
    on_transition(history, parents, action, children, info) -> None | False
        history    tuple of templates leading to the parent; parents / children: dict name -> state (| Failure)
        info       dict(depth, action_index, exact_parent, exact_child, key, new, reexecuted, label, root_states)
        returning False prunes the child (it is not expanded); the transition is still counted.
    first_actions  optional list of action indices to use at the first level only (work partitioning)
    expand(node)   optional predicate; False = do not expand this node further
    participates(name, node, action) optional predicate; False = that track is not executed and is dead below

    Every transition is executed and reported; the canonical hash only prunes the frontier.
    Returns dict(states, transitions, max_depth, executions{name}, failures{name/cls}, successors_per_action
    {action index -> number of distinct canonical successors}, level_sizes)."""
    seen = set()
    for r in roots:
        seen.add(canon_node(r.states, r.exact.key() if r.exact is not None else None))
    stats = {
        "states": len(seen), "transitions": 0, "max_depth": 0, "executions": {}, "failures": {},
        "successors_per_action": {}, "level_sizes": [len(roots)],
    }
    succ = {}
    frontier = list(roots)
    for level in range(1, depth + 1):
        nxt = []
        for node in frontier:
            idxs = range(len(actions)) if (level > 1 or first_actions is None) else first_actions
            for ai in idxs:
                action = actions[ai]
                children, reexecuted = step_node(simulators, node, action, seed, participates)
                live = {}
                for name, c in children.items():
                    if isinstance(c, Failure):
                        k = "%s/%s" % (name, c.cls)
                        stats["failures"][k] = stats["failures"].get(k, 0) + 1
                    else:
                        live[name] = c
                        stats["executions"][name] = stats["executions"].get(name, 0) + 1
                exact_child = node.exact.step(action, None) if node.exact is not None else None
                key = canon_node(live, exact_child.key() if exact_child is not None else None) if live else None
                new = key is not None and key not in seen
                stats["transitions"] += 1
                stats["max_depth"] = max(stats["max_depth"], len(node.history) + 1)
                if key is not None:
                    succ.setdefault(ai, set()).add(key)
                info = {
                    "depth": len(node.history) + 1, "action_index": ai, "exact_parent": node.exact,
                    "exact_child": exact_child, "key": key, "new": new, "reexecuted": reexecuted,
                    "label": node.label, "root_states": node.root_states,
                }
                verdict = on_transition(node.history, node.states, action, children, info)
                if new:
                    seen.add(key)
                    stats["states"] += 1
                    if verdict is not False and level < depth:
                        child = Node(live, node.history + (action,), exact_child, node.root_states, node.label)
                        if expand is None or expand(child):
                            nxt.append(child)
        frontier = nxt
        stats["level_sizes"].append(len(frontier))
        if not frontier:
            break
    stats["successors_per_action"] = {ai: len(s) for ai, s in sorted(succ.items())}
    return stats
