// Sanitizer driver for the native torontonian / loop torontonian (C04, DESIGN 2.9).
//
//   tor_driver <vector file> [<first index> [<fork mode 0|1>]]
//
// vector file:  int32 count, then per vector
//   int32 kernel   0 = torontonian_cpp, 1 = loop_torontonian_cpp
//   int32 dtype    0 = float, 1 = double
//   int32 dim      (= 2 * number of modes, xpxp ordering)
//   float64 matrix[dim*dim] (row major)
//   float64 displacement[dim]            (kernel 1 only)
#include "driver_common.hpp"

// the code under test, unmodified
#include "torontonian_common.cpp"
#include "torontonian.cpp"
#include "loop_torontonian.cpp"

template <typename T>
static void run_one(long idx, int kernel, int dim, const std::vector<double> &entries,
                    const std::vector<double> &disp)
{
    T *mdata = new T[(size_t)dim * dim];
    for (size_t i = 0; i < (size_t)dim * dim; i++)
        mdata[i] = (T)entries[i];
    T *ddata = new T[dim];
    for (int i = 0; i < dim; i++)
        ddata[i] = kernel == 1 ? (T)disp[i] : (T)0;
    {
        Matrix<T> m(dim, dim, mdata);
        Vector<T> y(dim, ddata);
        T v = kernel == 0 ? torontonian_cpp<T>(m) : loop_torontonian_cpp<T>(m, y);
        print_result(idx, std::vector<double>{(double)v});
    }
    delete[] mdata;
    delete[] ddata;
}

int main(int argc, char **argv)
{
    if (argc < 2)
    {
        printf("usage: tor_driver <vectors> [first]\n");
        return 2;
    }
    driver_setup_streams();
    Reader rd(argv[1]);
    long first = argc > 2 ? atol(argv[2]) : 0;
    bool fork_mode = argc > 3 && atoi(argv[3]) == 1;
    long count = rd.i32();
    for (long idx = 0; idx < count; idx++)
    {
        int kernel = rd.i32();
        int dtype = rd.i32();
        int dim = rd.i32();
        auto entries = rd.f64s((size_t)dim * dim);
        std::vector<double> disp;
        if (kernel == 1)
            disp = rd.f64s(dim);
        if (idx < first)
            continue;
        guarded(idx, fork_mode, [&]() {
            if (dtype == 0)
                run_one<float>(idx, kernel, dim, entries, disp);
            else
                run_one<double>(idx, kernel, dim, entries, disp);
        });
    }
    printf("DONE %ld\n", count);
    return 0;
}
