// Sanitizer driver for the native Pfaffian (C04, DESIGN 2.9).
//
//   pf_driver <vector file> [<first index> [<fork mode 0|1>]]
//
// vector file:  int32 count, then per vector
//   int32 dtype    0 = float, 1 = double
//   int32 n
//   float64 matrix[n*n] (row major)
//
// Result line: the Pfaffian followed by a flag 1/0 "the kernel modified its input buffer"
// (that is property C12's business; C04 only records it).
#include "driver_common.hpp"

// the code under test, unmodified
#include "pfaffian.cpp"

template <typename T>
static void run_one(long idx, int n, const std::vector<double> &entries)
{
    size_t sz = (size_t)n * n;
    T *mdata = new T[sz];
    T *keep = new T[sz];
    for (size_t i = 0; i < sz; i++)
        keep[i] = mdata[i] = (T)entries[i];
    {
        Matrix<T> m(n, n, mdata);
        T v = pfaffian_cpp<T>(m);
        double modified = memcmp(mdata, keep, sz * sizeof(T)) != 0 ? 1.0 : 0.0;
        print_result(idx, std::vector<double>{(double)v, modified});
    }
    delete[] mdata;
    delete[] keep;
}

int main(int argc, char **argv)
{
    if (argc < 2)
    {
        printf("usage: pf_driver <vectors> [first]\n");
        return 2;
    }
    driver_setup_streams();
    Reader rd(argv[1]);
    long first = argc > 2 ? atol(argv[2]) : 0;
    bool fork_mode = argc > 3 && atoi(argv[3]) == 1;
    long count = rd.i32();
    for (long idx = 0; idx < count; idx++)
    {
        int dtype = rd.i32();
        int n = rd.i32();
        auto entries = rd.f64s((size_t)n * n);
        if (idx < first)
            continue;
        guarded(idx, fork_mode, [&]() {
            if (dtype == 0)
                run_one<float>(idx, n, entries);
            else
                run_one<double>(idx, n, entries);
        });
    }
    printf("DONE %ld\n", count);
    return 0;
}
