// Shared I/O of the standalone native drivers of the C04 / C11 checks (DESIGN 2.9).
//
// A driver #includes the repository's src/*.cpp UNMODIFIED, reads binary test vectors
// written by the Python side and prints one line per vector:
//
//   B <idx>                         (flushed BEFORE the kernel runs: a sanitizer abort
//                                    between "B i" and "R i" belongs to vector i)
//   R <idx> <n> v0 v1 ...           (n numbers printed with %.17g)
//   E <idx> <message>               (the kernel threw)
//   X <idx> <wait status>           (fork mode only: the child running vector idx died)
//
// Third command line argument 1 = fork mode: every vector runs in a forked child, so a
// sanitizer abort costs a fork instead of a restart of the driver (the Python side
// switches to it when aborts are frequent).
//
// stderr is redirected into stdout so that sanitizer reports appear in sequence.
// Every input buffer is a separate heap allocation of the exact size, so that
// AddressSanitizer sees any access outside the caller's data.
#ifndef VERIF_DRIVER_COMMON_HPP
#define VERIF_DRIVER_COMMON_HPP

#include <cstdint>
#include <cstdio>
#include <cstdlib>
#include <cstring>
#include <string>
#include <sys/wait.h>
#include <unistd.h>
#include <vector>

struct Reader
{
    FILE *fh;
    explicit Reader(const char *path)
    {
        fh = fopen(path, "rb");
        if (!fh)
        {
            printf("DRIVER-ERROR cannot open %s\n", path);
            exit(3);
        }
    }
    int32_t i32()
    {
        int32_t v;
        if (fread(&v, sizeof v, 1, fh) != 1)
        {
            printf("DRIVER-ERROR short read\n");
            exit(3);
        }
        return v;
    }
    double f64()
    {
        double v;
        if (fread(&v, sizeof v, 1, fh) != 1)
        {
            printf("DRIVER-ERROR short read\n");
            exit(3);
        }
        return v;
    }
    std::vector<int32_t> i32s(size_t n)
    {
        std::vector<int32_t> v(n);
        for (size_t i = 0; i < n; i++)
            v[i] = i32();
        return v;
    }
    std::vector<double> f64s(size_t n)
    {
        std::vector<double> v(n);
        for (size_t i = 0; i < n; i++)
            v[i] = f64();
        return v;
    }
};

inline void driver_setup_streams()
{
    setvbuf(stdout, nullptr, _IOLBF, 0);
    dup2(1, 2);
}

inline void mark_begin(long idx)
{
    printf("B %ld\n", idx);
    fflush(stdout);
}

inline void print_result(long idx, const std::vector<double> &vals)
{
    printf("R %ld %zu", idx, vals.size());
    for (double v : vals)
        printf(" %.17g", v);
    printf("\n");
    fflush(stdout);
}

inline void print_error(long idx, const std::string &msg)
{
    printf("E %ld %s\n", idx, msg.c_str());
    fflush(stdout);
}

template <typename F>
inline void guarded(long idx, bool fork_mode, F body)
{
    mark_begin(idx);
    if (!fork_mode)
    {
        body();
        return;
    }
    pid_t pid = fork();
    if (pid == 0)
    {
        body();
        fflush(stdout);
        _exit(0);
    }
    int status = 0;
    waitpid(pid, &status, 0);
    if (status != 0)
    {
        printf("X %ld %d\n", idx, status);
        fflush(stdout);
    }
}

#endif
