// Schedule driver for the OpenMP job loop of the native permanent (DESIGN 2.8; used by
// C11, provided by the C04 builder).
//
// The repository's permanent.cpp / permanent_laplace.cpp are #included UNMODIFIED and
// compiled WITH -fopenmp, so that `#pragma omp parallel for num_threads(concurrency)` is
// lowered by GCC to a call of GOMP_parallel(outlined_body, data, num_threads, flags) and
// the outlined body derives its static chunk of job indices from omp_get_num_threads() /
// omp_get_thread_num().  Those three symbols (plus omp_get_max_threads) are defined HERE:
// the executable's definitions win over libgomp's, so libgomp never runs.  The shim
//
//   * sequential mode (default): calls the outlined body once per thread id of the team,
//     in the order requested by the test vector -- every thread order of every team size
//     can be enumerated deterministically, under ASan/UBSan;
//   * -DSHIM_REAL_THREADS (built with -fsanitize=thread): runs the team as free-running
//     std::threads, so that ThreadSanitizer observes every access of every job (libgomp's
//     own barriers would be invisible to TSan).
//
// std::thread::hardware_concurrency() is interposed at link time so that the job count
// min(4*hw, idx_max) can be forced.
//
//   sched_driver <vector file> [<first index> [<fork mode 0|1>]]
//
// vector file:  int32 count, then per vector
//   int32 kernel   0 = permanent_cpp, 1 = permanent_laplace_cpp
//   int32 dtype    0 = float, 1 = double
//   int32 hw       forced hardware_concurrency()
//   int32 team     team size granted by the "runtime": 0 = as many threads as the
//                  num_threads clause requests (= job count); k > 0 = min(k, requested)
//                  (an OpenMP runtime may grant fewer threads than requested; a thread then
//                  executes several consecutive job indices)
//   int32 order_kind  0 = ascending thread ids, 1 = descending, 2 = explicit list
//   int32 order_len, int32 order[order_len]   (explicit list: a permutation of 0..team-1)
//   int32 nrows, int32 ncols, int32 rows[nrows], int32 cols[ncols]
//   float64 re, im per entry (row major)
//
// result line:  R <idx> <n> requested_threads team parallel_regions v0 v1 ...
#include "driver_common.hpp"

#include <thread>

// the code under test, unmodified
#include "permanent.cpp"
#include "permanent_laplace.cpp"

static unsigned int g_forced_hw = 1;
unsigned int std::thread::hardware_concurrency() noexcept { return g_forced_hw; }

// ---- the GOMP shim ---------------------------------------------------------------------
static int g_team_cap = 0;
static int g_order_kind = 0;
static std::vector<int> g_order;
static int g_requested = 0;
static int g_team = 1;
static int g_regions = 0;
static bool g_bad_order = false;
static thread_local int tl_tid = 0;
static thread_local bool tl_in_parallel = false;

extern "C"
{
    void GOMP_parallel(void (*fn)(void *), void *data, unsigned num_threads, unsigned /*flags*/)
    {
        int requested = num_threads ? (int)num_threads : 1;
        int team = requested;
        if (g_team_cap > 0 && g_team_cap < team)
            team = g_team_cap;
        g_requested = requested;
        g_team = team;
        g_regions++;
        std::vector<int> order(team);
        for (int i = 0; i < team; i++)
            order[i] = g_order_kind == 1 ? team - 1 - i : i;
        if (g_order_kind == 2)
        {
            std::vector<int> seen(team, 0);
            bool ok = (int)g_order.size() == team;
            for (size_t i = 0; ok && i < g_order.size(); i++)
            {
                if (g_order[i] < 0 || g_order[i] >= team || seen[g_order[i]]++)
                    ok = false;
            }
            if (!ok)
            {
                g_bad_order = true; // fall back to ascending, flagged in the result
            }
            else
                order = g_order;
        }
#ifdef SHIM_REAL_THREADS
        std::vector<std::thread> threads;
        for (int k = 0; k < team; k++)
        {
            int tid = order[k];
            threads.emplace_back([fn, data, tid]() {
                tl_tid = tid;
                tl_in_parallel = true;
                fn(data);
                tl_in_parallel = false;
            });
        }
        for (auto &t : threads)
            t.join();
#else
        for (int k = 0; k < team; k++)
        {
            tl_tid = order[k];
            tl_in_parallel = true;
            fn(data);
            tl_in_parallel = false;
        }
        tl_tid = 0;
#endif
    }

    int omp_get_num_threads(void) { return tl_in_parallel ? g_team : 1; }
    int omp_get_thread_num(void) { return tl_in_parallel ? tl_tid : 0; }
    int omp_get_max_threads(void) { return g_team_cap > 0 ? g_team_cap : 1; }
}

template <typename T>
static void run_one(long idx, int kernel, int nrows, int ncols, const std::vector<int32_t> &rows,
                    const std::vector<int32_t> &cols, const std::vector<double> &entries)
{
    using C = std::complex<T>;
    C *mdata = new C[(size_t)nrows * ncols];
    for (size_t i = 0; i < (size_t)nrows * ncols; i++)
        mdata[i] = C((T)entries[2 * i], (T)entries[2 * i + 1]);
    int *rdata = new int[nrows];
    int *cdata = new int[ncols];
    for (int i = 0; i < nrows; i++)
        rdata[i] = rows[i];
    for (int i = 0; i < ncols; i++)
        cdata[i] = cols[i];
    g_requested = 0;
    g_team = 1;
    g_regions = 0;
    g_bad_order = false;
    {
        Matrix<C> m(nrows, ncols, mdata);
        Vector<int> r(nrows, rdata);
        Vector<int> c(ncols, cdata);
        std::vector<double> out;
        try
        {
            std::vector<double> vals;
            if (kernel == 0)
            {
                C v = permanent_cpp<T>(m, r, c);
                vals.push_back((double)v.real());
                vals.push_back((double)v.imag());
            }
            else
            {
                Vector<C> v = permanent_laplace_cpp<T>(m, r, c);
                for (size_t i = 0; i < v.size(); i++)
                {
                    vals.push_back((double)v[i].real());
                    vals.push_back((double)v[i].imag());
                }
            }
            if (g_bad_order)
                print_error(idx, "ORDER-MISMATCH explicit order is not a permutation of the team of size " +
                                     std::to_string(g_team) + " (requested " + std::to_string(g_requested) + ")");
            else
            {
                out.push_back((double)g_requested);
                out.push_back((double)g_team);
                out.push_back((double)g_regions);
                out.insert(out.end(), vals.begin(), vals.end());
                print_result(idx, out);
            }
        }
        catch (std::string &e)
        {
            print_error(idx, e);
        }
    }
    delete[] mdata;
    delete[] rdata;
    delete[] cdata;
}

int main(int argc, char **argv)
{
    if (argc < 2)
    {
        printf("usage: sched_driver <vectors> [first]\n");
        return 2;
    }
    driver_setup_streams();
    Reader rd(argv[1]);
    long first = argc > 2 ? atol(argv[2]) : 0;
    bool fork_mode = argc > 3 && atoi(argv[3]) == 1;
    long count = rd.i32();
    for (long idx = 0; idx < count; idx++)
    {
        int kernel = rd.i32();
        int dtype = rd.i32();
        int hw = rd.i32();
        int team = rd.i32();
        int order_kind = rd.i32();
        int order_len = rd.i32();
        auto order = rd.i32s(order_len);
        int nrows = rd.i32();
        int ncols = rd.i32();
        auto rows = rd.i32s(nrows);
        auto cols = rd.i32s(ncols);
        auto entries = rd.f64s((size_t)2 * nrows * ncols);
        if (idx < first)
            continue;
        g_forced_hw = (unsigned int)hw;
        g_team_cap = team;
        g_order_kind = order_kind;
        g_order.assign(order.begin(), order.end());
        guarded(idx, fork_mode, [&]() {
            if (dtype == 0)
                run_one<float>(idx, kernel, nrows, ncols, rows, cols, entries);
            else
                run_one<double>(idx, kernel, nrows, ncols, rows, cols, entries);
        });
    }
    printf("DONE %ld\n", count);
    return 0;
}
