// Sanitizer driver for the native permanent kernels (C04, DESIGN 2.9).
//
//   perm_driver <vector file> [<first index> [<fork mode 0|1>]]
//
// vector file:  int32 count, then per vector
//   int32 kernel   0 = permanent_cpp, 1 = permanent_laplace_cpp
//   int32 dtype    0 = float (complex64), 1 = double (complex128)
//   int32 hw       value returned by std::thread::hardware_concurrency() during this
//                  vector (the kernel uses min(4*hw, idx_max) jobs)
//   int32 nrows, int32 ncols
//   int32 rows[nrows], int32 cols[ncols]
//   float64 re, im  for each of the nrows*ncols entries (row major)
//
// Built WITHOUT -fopenmp: the job loop runs sequentially, job by job, with exactly the job
// partition the library computes for the forced hw.  (Job counts / thread orders are
// enumerated by sched_driver.cpp for C11.)
#include "driver_common.hpp"

// the code under test, unmodified
#include "permanent.cpp"
#include "permanent_laplace.cpp"

static unsigned int g_forced_hw = 16;

// link-time interposition of the concurrency query (the executable's definition wins over
// libstdc++'s)
unsigned int std::thread::hardware_concurrency() noexcept { return g_forced_hw; }

template <typename T>
static void run_one(long idx, int kernel, int nrows, int ncols, const std::vector<int32_t> &rows,
                    const std::vector<int32_t> &cols, const std::vector<double> &entries)
{
    using C = std::complex<T>;
    // exact-size heap buffers owned by this frame (like the numpy buffers of the binding)
    C *mdata = new C[(size_t)nrows * ncols];
    for (size_t i = 0; i < (size_t)nrows * ncols; i++)
        mdata[i] = C((T)entries[2 * i], (T)entries[2 * i + 1]);
    int *rdata = new int[nrows];
    int *cdata = new int[ncols];
    for (int i = 0; i < nrows; i++)
        rdata[i] = rows[i];
    for (int i = 0; i < ncols; i++)
        cdata[i] = cols[i];
    {
        Matrix<C> m(nrows, ncols, mdata);
        Vector<int> r(nrows, rdata);
        Vector<int> c(ncols, cdata);
        std::vector<double> out;
        try
        {
            if (kernel == 0)
            {
                C v = permanent_cpp<T>(m, r, c);
                out.push_back((double)v.real());
                out.push_back((double)v.imag());
            }
            else
            {
                Vector<C> v = permanent_laplace_cpp<T>(m, r, c);
                for (size_t i = 0; i < v.size(); i++)
                {
                    out.push_back((double)v[i].real());
                    out.push_back((double)v[i].imag());
                }
            }
            print_result(idx, out);
        }
        catch (std::string &e)
        {
            print_error(idx, e);
        }
    }
    delete[] mdata;
    delete[] rdata;
    delete[] cdata;
}

int main(int argc, char **argv)
{
    if (argc < 2)
    {
        printf("usage: perm_driver <vectors> [first]\n");
        return 2;
    }
    driver_setup_streams();
    Reader rd(argv[1]);
    long first = argc > 2 ? atol(argv[2]) : 0;
    bool fork_mode = argc > 3 && atoi(argv[3]) == 1;
    long count = rd.i32();
    for (long idx = 0; idx < count; idx++)
    {
        int kernel = rd.i32();
        int dtype = rd.i32();
        int hw = rd.i32();
        int nrows = rd.i32();
        int ncols = rd.i32();
        auto rows = rd.i32s(nrows);
        auto cols = rd.i32s(ncols);
        auto entries = rd.f64s((size_t)2 * nrows * ncols);
        if (idx < first)
            continue;
        g_forced_hw = (unsigned int)hw;
        guarded(idx, fork_mode, [&]() {
            if (dtype == 0)
                run_one<float>(idx, kernel, nrows, ncols, rows, cols, entries);
            else
                run_one<double>(idx, kernel, nrows, ncols, rows, cols, entries);
        });
    }
    printf("DONE %ld\n", count);
    return 0;
}
